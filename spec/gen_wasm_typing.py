#!/usr/bin/env python3
"""Writes spec/wasm_typing.json: the operand/control-stack effect of every instruction, transcribed from the WebAssembly 1.0
specification (section 3.3 "Instructions" and the appendix "Validation Algorithm", plus the sign-extension proposal), in the
event vocabulary of this validator (vlib/typing.py).  Nothing here is read from the repository."""
import json, os

T32, T64 = "I32", "I64"
S = {}
# control (appendix: validation algorithm)
S["Unreachable"] = ["unreachable"]
S["Nop"] = []
S["Block"] = ["ctrl+"]
S["Loop"] = ["ctrl+"]
S["If"] = ["pop:I32", "ctrl+:if"]
S["Else"] = ["ctrl-", "ensure:frame-is-if", "ctrl+"]
S["End"] = ["ctrl-", "ensure:if-without-else-is-empty", "pushes:<frame results>"]
S["Br"] = ["label", "pops:<label>", "unreachable"]
S["BrIf"] = ["label", "pop:I32", "pops:<label>", "pushes:<label>"]
S["BrTable"] = ["ensure:table-size-limit", "label", "frame*", "ensure:same-label-types*", "pop:I32", "pops:<label>", "unreachable"]
S["Return"] = ["outermost", "pops:<outermost>", "unreachable"]
S["Call"] = ["func", "pop:<params>*", "push:<results>*"]
S["CallIndirect"] = ["table", "type", "pop:I32", "pop:<params>*", "push:<results>*"]
# parametric
S["Drop"] = ["popany"]
S["Select"] = ["pop:I32", "popany", "pop:<first operand>", "push:<second operand>"]
# variable
S["LocalGet"] = ["local", "push:<local>"]
S["LocalSet"] = ["local", "pop:<local>"]
S["LocalTee"] = ["local", "pop:<local>", "push:<popped>"]
S["GlobalGet"] = ["global", "push:<global>"]
S["GlobalSet"] = ["global", "ensure:global-is-mutable", "pop:<global>"]
# memory: t.load memarg : [i32] -> [t], 2^align <= N/8 ; t.store memarg : [i32 t] -> []
W = {8: "I8", 16: "I16", 32: "I32", 64: "I64"}
for t, full in ((T32, 32), (T64, 64)):
    S["%sLoad" % t] = ["mem", "align:" + W[full], "pop:I32", "push:" + t]
    S["%sStore" % t] = ["mem", "align:" + W[full], "pop:" + t, "pop:I32"]
    for n in (8, 16, 32):
        if n >= full:
            continue
        for sx in ("S", "U"):
            S["%sLoad%d%s" % (t, n, sx)] = ["mem", "align:" + W[n], "pop:I32", "push:" + t]
        S["%sStore%d" % (t, n)] = ["mem", "align:" + W[n], "pop:" + t, "pop:I32"]
S["MemorySize"] = ["mem", "push:I32"]
S["MemoryGrow"] = ["mem", "pop:I32", "push:I32"]
# numeric
for t in (T32, T64):
    S["%sConst" % t] = ["push:" + t]
    S["%sEqz" % t] = ["pop:" + t, "push:I32"]                                   # testop: [t] -> [i32]
    for op in ("Eq", "Ne", "LtS", "LtU", "GtS", "GtU", "LeS", "LeU", "GeS", "GeU"):
        S[t + op] = ["pop:" + t, "pop:" + t, "push:I32"]                        # relop: [t t] -> [i32]
    for op in ("Clz", "Ctz", "Popcnt"):
        S[t + op] = ["pop:" + t, "push:" + t]                                   # unop: [t] -> [t]
    for op in ("Add", "Sub", "Mul", "DivS", "DivU", "RemS", "RemU", "And", "Or", "Xor", "Shl", "ShrS", "ShrU", "Rotl", "Rotr"):
        S[t + op] = ["pop:" + t, "pop:" + t, "push:" + t]                       # binop: [t t] -> [t]
S["I32WrapI64"] = ["pop:I64", "push:I32"]
S["I64ExtendI32S"] = S["I64ExtendI32U"] = ["pop:I32", "push:I64"]
for n in (8, 16):
    S["I32Extend%dS" % n] = ["pop:I32", "push:I32"]
for n in (8, 16, 32):
    S["I64Extend%dS" % n] = ["pop:I64", "push:I64"]
# metering pseudo-instruction inserted by the transformation: type [] -> []
S["TickEnergy"] = []

# how the symbolic operands and the named checks appear in this validator (vocabulary only; which of them an instruction
# needs is stated above)
VOCAB = {
    "ensure:frame-is-if": "ensure[false]:.0+pop_ctrl",
    "ensure:if-without-else-is-empty": "ensure[Ne]:.0+EmptyType+pop_ctrl",
    "pushes:<frame results>": "pushes:<pop_ctrl+>",
    "pops:<label>": "pops:<get_label>", "pushes:<label>": "pushes:<get_label>",
    "ensure:table-size-limit": "ensure[Gt]:4096+MAX_SWITCH_SIZE+len",
    "ensure:same-label-types*": "ensure[Ne]:.0+get+get_label+label_type*",
    "outermost": "outermost!weak",     # an empty control stack cannot occur while an instruction is validated; the code skips the check then
    "pops:<outermost>": "pops:<outermost>",
    "pop:<params>*": {"Call": "pop:<get_func+parameters>*", "CallIndirect": "pop:<get_type+parameters>*"},
    "push:<results>*": {"Call": "push:<get_func+result>*", "CallIndirect": "push:<get_type+result>*"},
    "pop:<first operand>": "pop:<pop_opd>", "push:<second operand>": "push:<pop_expect_opd>",
    "push:<local>": "push:<get_local>", "pop:<local>": "pop:<get_local>", "push:<popped>": "push:<pop_expect_opd>",
    "push:<global>": "push:<get_global+>", "pop:<global>": "pop:<get_global+>",
    "ensure:global-is-mutable": "ensure[false]:.0+get_global",
}
# checks that are implied by another event of the same arm and therefore harmless
REDUNDANT = {"I64Load8U": ["ensure[Ne]:.0+0+align"]}

out = {}
for k, v in S.items():
    ev = []
    for e in v:
        m = VOCAB.get(e, e)
        if isinstance(m, dict):
            m = m[k]
        ev.append(m)
    out[k] = dict(spec=v, events=ev)
json.dump(dict(comment="generated by spec/gen_wasm_typing.py from the WebAssembly 1.0 validation rules; not derived from the repository",
               instructions=out, redundant=REDUNDANT), open(os.path.join(os.path.dirname(os.path.abspath(__file__)), "wasm_typing.json"), "w"), indent=1, sort_keys=True)
print(len(out), "instructions")
