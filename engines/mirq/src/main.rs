// mirq: rustc_private driver that dumps resolved MIR facts as JSON lines.
//
// Usage: as RUSTC_WRAPPER / RUSTC_WORKSPACE_WRAPPER (argv[1] = path of the real
// rustc, dropped).  Environment:
//   MIRQ_OUT    directory receiving <crate>.mir.jsonl (one write per process)
//   MIRQ_CRATES comma separated crate names to dump (others compile normally)
#![feature(rustc_private)]

extern crate rustc_abi;
extern crate rustc_driver;
extern crate rustc_hir;
extern crate rustc_interface;
extern crate rustc_middle;
extern crate rustc_session;
extern crate rustc_span;

use rustc_driver::{Callbacks, Compilation};
use rustc_hir::def::DefKind;
use rustc_hir::def_id::{DefId, LocalDefId};
use rustc_interface::interface::Compiler;
use rustc_middle::mir::{
    self, AggregateKind, BasicBlockData, Body, Const, ConstValue, Operand, Place, ProjectionElem,
    Rvalue, StatementKind, TerminatorKind,
};
use rustc_middle::ty::print::{with_crate_prefix, with_no_trimmed_paths};
use rustc_middle::ty::{self, Instance, Ty, TyCtxt, TypingEnv};
use rustc_span::{ExpnKind, Span};
use std::fmt::Write as _;

struct Dump {
    out_dir: String,
}

fn esc(s: &str, out: &mut String) {
    out.push('"');
    for c in s.chars() {
        match c {
            '"' => out.push_str("\\\""),
            '\\' => out.push_str("\\\\"),
            '\n' => out.push_str("\\n"),
            '\r' => out.push_str("\\r"),
            '\t' => out.push_str("\\t"),
            c if (c as u32) < 0x20 => {
                let _ = write!(out, "\\u{:04x}", c as u32);
            }
            c => out.push(c),
        }
    }
    out.push('"');
}

fn js(s: &str) -> String {
    let mut o = String::new();
    esc(s, &mut o);
    o
}

struct Cx<'tcx> {
    tcx: TyCtxt<'tcx>,
    krate: String,
}

// replace the keyword path root `crate::` by the crate's name
fn fix_crate(s: String, krate: &str) -> String {
    if !s.contains("crate") {
        return s;
    }
    let b = s.as_bytes();
    let mut out = String::with_capacity(s.len() + 16);
    let mut i = 0;
    while i < b.len() {
        if b[i..].starts_with(b"crate")
            && (i == 0 || !(b[i - 1].is_ascii_alphanumeric() || b[i - 1] == b'_'))
            && (i + 5 == b.len() || !(b[i + 5].is_ascii_alphanumeric() || b[i + 5] == b'_'))
        {
            out.push_str(krate);
            i += 5;
        } else {
            let ch = s[i..].chars().next().unwrap();
            out.push(ch);
            i += ch.len_utf8();
        }
    }
    out
}

impl<'tcx> Cx<'tcx> {
    fn path(&self, d: DefId) -> String {
        fix_crate(with_crate_prefix!(with_no_trimmed_paths!(self.tcx.def_path_str(d))), &self.krate)
    }

    fn ty(&self, t: Ty<'tcx>) -> String {
        fix_crate(with_crate_prefix!(with_no_trimmed_paths!(format!("{}", t))), &self.krate)
    }

    // (file, line, expansion-name or "")
    fn span(&self, sp: Span) -> (String, usize, String) {
        let sm = self.tcx.sess.source_map();
        let mut exp = String::new();
        if sp.from_expansion() {
            // outermost macro name chain
            let mut s = sp;
            let mut names: Vec<String> = Vec::new();
            while s.from_expansion() {
                let ed = s.ctxt().outer_expn_data();
                match ed.kind {
                    ExpnKind::Macro(_, name) => names.push(name.to_string()),
                    ExpnKind::Desugaring(k) => names.push(format!("desugar:{:?}", k)),
                    ExpnKind::AstPass(k) => names.push(format!("astpass:{:?}", k)),
                    ExpnKind::Root => {}
                }
                s = ed.call_site;
            }
            exp = names.join("<");
        }
        let cs = sp.source_callsite();
        let lo = sm.lookup_char_pos(cs.lo());
        let fname = format!("{}", lo.file.name.prefer_local_unconditionally());
        (fname, lo.line, exp)
    }

    fn place(&self, body: &Body<'tcx>, p: &Place<'tcx>) -> String {
        // ["local", [proj...]]
        let mut o = String::new();
        let _ = write!(o, "[{},[", p.local.as_usize());
        let mut first = true;
        let mut cur_ty = mir::PlaceTy::from_ty(body.local_decls[p.local].ty);
        for elem in p.projection.iter() {
            if !first {
                o.push(',');
            }
            first = false;
            let s = match elem {
                ProjectionElem::Deref => "*".to_string(),
                ProjectionElem::Field(f, _) => {
                    // try to name the field
                    let mut name = String::new();
                    if let ty::Adt(adt, _) = cur_ty.ty.kind() {
                        let vidx = cur_ty.variant_index.unwrap_or(rustc_abi::FIRST_VARIANT);
                        if vidx.as_usize() < adt.variants().len() {
                            let v = adt.variant(vidx);
                            if f.as_usize() < v.fields.len() {
                                name = v.fields[f].name.to_string();
                            }
                        }
                    }
                    format!("f{}:{}", f.as_usize(), name)
                }
                ProjectionElem::Index(l) => format!("i{}", l.as_usize()),
                ProjectionElem::ConstantIndex { offset, from_end, .. } => {
                    format!("c{}{}", if from_end { "-" } else { "" }, offset)
                }
                ProjectionElem::Subslice { from, to, from_end } => {
                    format!("s{}:{}{}", from, if from_end { "-" } else { "" }, to)
                }
                ProjectionElem::Downcast(name, v) => {
                    format!("v{}:{}", v.as_usize(), name.map(|n| n.to_string()).unwrap_or_default())
                }
                ProjectionElem::OpaqueCast(_) => "opaque".to_string(),
                ProjectionElem::UnwrapUnsafeBinder(_) => "unbinder".to_string(),
            };
            esc(&s, &mut o);
            cur_ty = cur_ty.projection_ty(self.tcx, elem);
        }
        o.push_str("]]");
        o
    }

    fn const_json(&self, env: TypingEnv<'tcx>, c: &Const<'tcx>) -> String {
        let ty = c.ty();
        let mut o = String::from("{");
        let _ = write!(o, "\"ty\":{}", js(&self.ty(ty)));
        // named constant item?
        if let Const::Unevaluated(uv, _) = c {
            let _ = write!(o, ",\"item\":{}", js(&self.path(uv.def)));
            if let Some(pi) = uv.promoted {
                let _ = write!(o, ",\"promoted\":{}", pi.as_usize());
            }
        }
        if let ty::FnDef(d, args) = ty.kind() {
            let _ = write!(o, ",\"fn\":{}", js(&self.path(*d)));
            let _ = args;
        } else {
            // scalar value
            let is_int_like = matches!(
                ty.kind(),
                ty::Int(_) | ty::Uint(_) | ty::Bool | ty::Char
            );
            if is_int_like {
                if let Some(si) = c.try_eval_scalar_int(self.tcx, env) {
                    let size = si.size();
                    let bits = si.to_bits(size);
                    let v: i128 = if let ty::Int(_) = ty.kind() {
                        si.to_int(size)
                    } else {
                        bits as i128
                    };
                    let _ = write!(o, ",\"v\":{}", js(&v.to_string()));
                }
            } else if let ty::Ref(_, inner, _) = ty.kind() {
                if inner.is_str() {
                    if let Ok(cv) = c.eval(self.tcx, env, rustc_span::DUMMY_SP) {
                        if let ConstValue::Slice { .. } = cv {
                            if let Some(b) = cv.try_get_slice_bytes_for_diagnostics(self.tcx) {
                                let _ = write!(o, ",\"str\":{}", js(&String::from_utf8_lossy(b)));
                            }
                        }
                    }
                }
            }
        }
        // reference to a static: name it and, for small integer statics, evaluate the initializer
        if let Const::Val(ConstValue::Scalar(mir::interpret::Scalar::Ptr(ptr, _)), _) = c {
            if let Some(rustc_middle::mir::interpret::GlobalAlloc::Static(sd)) =
                self.tcx.try_get_global_alloc(ptr.provenance.alloc_id())
            {
                let _ = write!(o, ",\"static\":{}", js(&self.path(sd)));
                if let Ok(alloc) = self.tcx.eval_static_initializer(sd) {
                    let a = alloc.inner();
                    let n = a.len();
                    if n <= 16 && a.provenance().ptrs().is_empty() {
                        let bytes = a.inspect_with_uninit_and_ptr_outside_interpreter(0..n);
                        let mut v: u128 = 0;
                        for (i, b) in bytes.iter().enumerate() {
                            v |= (*b as u128) << (8 * i);
                        }
                        let _ = write!(o, ",\"sv\":{}", js(&v.to_string()));
                    }
                }
            }
        }
        let disp = fix_crate(with_crate_prefix!(with_no_trimmed_paths!(format!("{}", c))), &self.krate);
        let disp = if disp.len() > 200 { disp[..disp.char_indices().nth(200).map(|x| x.0).unwrap_or(disp.len())].to_string() } else { disp };
        let _ = write!(o, ",\"s\":{}", js(&disp));
        o.push('}');
        o
    }

    fn operand(&self, body: &Body<'tcx>, env: TypingEnv<'tcx>, op: &Operand<'tcx>) -> String {
        match op {
            Operand::Copy(p) => format!("{{\"c\":{}}}", self.place(body, p)),
            Operand::Move(p) => format!("{{\"m\":{}}}", self.place(body, p)),
            Operand::Constant(c) => format!("{{\"k\":{}}}", self.const_json(env, &c.const_)),
            #[allow(unreachable_patterns)]
            _ => "{\"other\":true}".to_string(),
        }
    }

    fn rvalue(&self, body: &Body<'tcx>, env: TypingEnv<'tcx>, rv: &Rvalue<'tcx>) -> String {
        match rv {
            Rvalue::Use(op, ..) => format!("{{\"k\":\"use\",\"a\":{}}}", self.operand(body, env, op)),
            Rvalue::Repeat(op, n) => format!(
                "{{\"k\":\"repeat\",\"a\":{},\"n\":{}}}",
                self.operand(body, env, op),
                js(&format!("{}", n))
            ),
            Rvalue::Ref(_, bk, p) => format!(
                "{{\"k\":\"ref\",\"mut\":{},\"p\":{}}}",
                matches!(bk, mir::BorrowKind::Mut { .. }),
                self.place(body, p)
            ),
            Rvalue::RawPtr(_, p) => format!("{{\"k\":\"rawptr\",\"p\":{}}}", self.place(body, p)),
            Rvalue::Cast(kind, op, t) => format!(
                "{{\"k\":\"cast\",\"ck\":{},\"a\":{},\"ty\":{}}}",
                js(&format!("{:?}", kind)),
                self.operand(body, env, op),
                js(&self.ty(*t))
            ),
            Rvalue::BinaryOp(bop, ab) => format!(
                "{{\"k\":\"bin\",\"op\":{},\"a\":{},\"b\":{}}}",
                js(&format!("{:?}", bop)),
                self.operand(body, env, &ab.0),
                self.operand(body, env, &ab.1)
            ),
            Rvalue::UnaryOp(uop, a) => format!(
                "{{\"k\":\"un\",\"op\":{},\"a\":{}}}",
                js(&format!("{:?}", uop)),
                self.operand(body, env, a)
            ),
            Rvalue::Discriminant(p) => format!("{{\"k\":\"discr\",\"p\":{}}}", self.place(body, p)),
            Rvalue::Aggregate(kind, ops) => {
                let mut o = String::from("{\"k\":\"agg\",");
                match &**kind {
                    AggregateKind::Array(_) => o.push_str("\"agg\":\"array\""),
                    AggregateKind::Tuple => o.push_str("\"agg\":\"tuple\""),
                    AggregateKind::Adt(d, vidx, _, _, _) => {
                        let adt = self.tcx.adt_def(*d);
                        let v = adt.variant(*vidx);
                        let _ = write!(
                            o,
                            "\"agg\":\"adt\",\"adt\":{},\"variant\":{},\"vidx\":{}",
                            js(&self.path(*d)),
                            js(&v.name.to_string()),
                            vidx.as_usize()
                        );
                        o.push_str(",\"fields\":[");
                        for (i, f) in v.fields.iter().enumerate() {
                            if i > 0 {
                                o.push(',');
                            }
                            esc(&f.name.to_string(), &mut o);
                        }
                        o.push(']');
                    }
                    AggregateKind::Closure(d, _) => {
                        let _ = write!(o, "\"agg\":\"closure\",\"closure\":{}", js(&self.path(*d)));
                    }
                    AggregateKind::Coroutine(d, _) | AggregateKind::CoroutineClosure(d, _) => {
                        let _ = write!(o, "\"agg\":\"coroutine\",\"closure\":{}", js(&self.path(*d)));
                    }
                    AggregateKind::RawPtr(..) => o.push_str("\"agg\":\"rawptr\""),
                }
                o.push_str(",\"ops\":[");
                for (i, op) in ops.iter().enumerate() {
                    if i > 0 {
                        o.push(',');
                    }
                    o.push_str(&self.operand(body, env, op));
                }
                o.push_str("]}");
                o
            }
            Rvalue::CopyForDeref(p) => {
                format!("{{\"k\":\"use\",\"a\":{{\"c\":{}}}}}", self.place(body, p))
            }
            Rvalue::ThreadLocalRef(d) => format!("{{\"k\":\"tls\",\"d\":{}}}", js(&self.path(*d))),
            Rvalue::WrapUnsafeBinder(op, _) => {
                format!("{{\"k\":\"use\",\"a\":{}}}", self.operand(body, env, op))
            }
        }
    }

    fn callee(&self, env: TypingEnv<'tcx>, body: &Body<'tcx>, func: &Operand<'tcx>) -> String {
        let tcx = self.tcx;
        if let Operand::Constant(c) = func {
            if let ty::FnDef(d, args) = c.const_.ty().kind() {
                let mut o = String::from("{");
                let _ = write!(o, "\"path\":{}", js(&self.path(*d)));
                let _ = write!(o, ",\"name\":{}", js(&tcx.item_name(*d).to_string()));
                let _ = write!(o, ",\"krate\":{}", js(&tcx.crate_name(d.krate).to_string()));
                // generic args
                o.push_str(",\"gargs\":[");
                let mut first = true;
                for a in args.iter() {
                    if let Some(t) = a.as_type() {
                        if !first {
                            o.push(',');
                        }
                        first = false;
                        esc(&self.ty(t), &mut o);
                    }
                }
                o.push(']');
                if let Some(tr) = tcx.trait_of_assoc(*d) {
                    let _ = write!(o, ",\"trait\":{}", js(&self.path(tr)));
                    if args.len() > 0 {
                        if let Some(t) = args[0].as_type() {
                            let _ = write!(o, ",\"self\":{}", js(&self.ty(t)));
                        }
                    }
                } else if let Some(imp) = tcx.inherent_impl_of_assoc(*d) {
                    let st = tcx.type_of(imp).instantiate_identity().skip_norm_wip();
                    let _ = write!(o, ",\"self\":{}", js(&self.ty(st)));
                }
                // resolution
                if let Ok(Some(inst)) = Instance::try_resolve(tcx, env, *d, args) {
                    let rd = inst.def_id();
                    if rd != *d {
                        let _ = write!(o, ",\"res\":{}", js(&self.path(rd)));
                    }
                    if let Some(imp) = tcx.impl_of_assoc(rd) {
                        let st = tcx.type_of(imp).instantiate_identity().skip_norm_wip();
                        let _ = write!(o, ",\"res_self\":{}", js(&self.ty(st)));
                    }
                    let _ = write!(o, ",\"res_local\":{}", rd.is_local());
                }
                o.push('}');
                return o;
            }
        }
        format!("{{\"indirect\":{}}}", self.operand(body, env, func))
    }

    fn block(&self, body: &Body<'tcx>, env: TypingEnv<'tcx>, bb: &BasicBlockData<'tcx>) -> String {
        let mut o = String::from("{\"s\":[");
        let mut first = true;
        for st in &bb.statements {
            let s = match &st.kind {
                StatementKind::Assign(b) => {
                    let (p, rv) = &**b;
                    let (_, line, exp) = self.span(st.source_info.span);
                    Some(format!(
                        "{{\"lhs\":{},\"rv\":{},\"line\":{},\"exp\":{}}}",
                        self.place(body, p),
                        self.rvalue(body, env, rv),
                        line,
                        js(&exp)
                    ))
                }
                StatementKind::SetDiscriminant { place, variant_index } => Some(format!(
                    "{{\"setdiscr\":{},\"vidx\":{}}}",
                    self.place(body, place),
                    variant_index.as_usize()
                )),
                _ => None,
            };
            if let Some(s) = s {
                if !first {
                    o.push(',');
                }
                first = false;
                o.push_str(&s);
            }
        }
        o.push_str("],\"t\":");
        let term = bb.terminator();
        let (_, line, exp) = self.span(term.source_info.span);
        let t = match &term.kind {
            TerminatorKind::Goto { target } => format!("{{\"k\":\"goto\",\"target\":{}}}", target.as_usize()),
            TerminatorKind::SwitchInt { discr, targets } => {
                let mut s = format!("{{\"k\":\"switch\",\"d\":{},\"t\":[", self.operand(body, env, discr));
                let mut f = true;
                for (v, t) in targets.iter() {
                    if !f {
                        s.push(',');
                    }
                    f = false;
                    let _ = write!(s, "[{},{}]", js(&v.to_string()), t.as_usize());
                }
                let _ = write!(s, "],\"o\":{}", targets.otherwise().as_usize());
                // discriminant type
                let dty = discr.ty(&body.local_decls, self.tcx);
                let _ = write!(s, ",\"dty\":{}", js(&self.ty(dty)));
                s.push('}');
                s
            }
            TerminatorKind::UnwindResume => "{\"k\":\"resume\"}".to_string(),
            TerminatorKind::UnwindTerminate(_) => "{\"k\":\"terminate\"}".to_string(),
            TerminatorKind::Return => "{\"k\":\"return\"}".to_string(),
            TerminatorKind::Unreachable => "{\"k\":\"unreachable\"}".to_string(),
            TerminatorKind::Drop { place, target, unwind, .. } => format!(
                "{{\"k\":\"drop\",\"p\":{},\"target\":{},\"unwind\":{}}}",
                self.place(body, place),
                target.as_usize(),
                unwind_json(unwind)
            ),
            TerminatorKind::Call { func, args, destination, target, unwind, fn_span, .. } => {
                let mut s = format!("{{\"k\":\"call\",\"f\":{},\"args\":[", self.callee(env, body, func));
                for (i, a) in args.iter().enumerate() {
                    if i > 0 {
                        s.push(',');
                    }
                    s.push_str(&self.operand(body, env, &a.node));
                }
                let _ = write!(s, "],\"dest\":{}", self.place(body, destination));
                match target {
                    Some(t) => {
                        let _ = write!(s, ",\"target\":{}", t.as_usize());
                    }
                    None => s.push_str(",\"target\":null"),
                }
                let _ = write!(s, ",\"unwind\":{}", unwind_json(unwind));
                let (_, fl, _) = self.span(*fn_span);
                let _ = write!(s, ",\"fline\":{}", fl);
                s.push('}');
                s
            }
            TerminatorKind::TailCall { func, args, .. } => {
                let mut s = format!("{{\"k\":\"tailcall\",\"f\":{},\"args\":[", self.callee(env, body, func));
                for (i, a) in args.iter().enumerate() {
                    if i > 0 {
                        s.push(',');
                    }
                    s.push_str(&self.operand(body, env, &a.node));
                }
                s.push_str("]}");
                s
            }
            TerminatorKind::Assert { cond, expected, msg, target, unwind } => {
                let m = format!("{:?}", msg);
                let kind = m.split(|c: char| c == '(' || c == ' ' || c == '{').next().unwrap_or("").to_string();
                format!(
                    "{{\"k\":\"assert\",\"cond\":{},\"expected\":{},\"msg\":{},\"mk\":{},\"target\":{},\"unwind\":{}}}",
                    self.operand(body, env, cond),
                    expected,
                    js(&if m.len() > 160 { m.chars().take(160).collect::<String>() } else { m.clone() }),
                    js(&kind),
                    target.as_usize(),
                    unwind_json(unwind)
                )
            }
            TerminatorKind::FalseEdge { real_target, .. } => {
                format!("{{\"k\":\"goto\",\"target\":{}}}", real_target.as_usize())
            }
            TerminatorKind::FalseUnwind { real_target, .. } => {
                format!("{{\"k\":\"goto\",\"target\":{}}}", real_target.as_usize())
            }
            TerminatorKind::Yield { .. } => "{\"k\":\"yield\"}".to_string(),
            TerminatorKind::CoroutineDrop => "{\"k\":\"codrop\"}".to_string(),
            TerminatorKind::InlineAsm { .. } => "{\"k\":\"asm\"}".to_string(),
        };
        // splice line/exp into terminator object
        let mut t2 = t;
        t2.pop();
        let _ = write!(t2, ",\"line\":{},\"exp\":{}}}", line, js(&exp));
        o.push_str(&t2);
        let _ = write!(o, ",\"cleanup\":{}}}", bb.is_cleanup);
        o
    }

    fn body_json(&self, ldid: LocalDefId) -> Option<(String, String)> {
        let tcx = self.tcx;
        let did = ldid.to_def_id();
        let dk = tcx.def_kind(did);
        let kind = match dk {
            DefKind::Fn => "fn",
            DefKind::AssocFn => "assoc_fn",
            DefKind::Closure => "closure",
            _ if false => {
                return None
            }
            _ => return None,
        };
        if !tcx.is_mir_available(did) {
            return None;
        }
        // coroutine bodies are skipped (none expected in the analysed crates)
        if tcx.is_coroutine(did) {
            return None;
        }
        let body: &Body<'tcx> = tcx.optimized_mir(did);
        let env = TypingEnv::post_analysis(tcx, did);
        let path = self.path(did);
        let mut o = String::from("{");
        let _ = write!(o, "\"path\":{}", js(&path));
        let _ = write!(o, ",\"dp\":{}", js(&tcx.def_path(did).to_string_no_crate_verbose()));
        let _ = write!(o, ",\"kind\":{}", js(kind));
        let _ = write!(o, ",\"crate\":{}", js(&tcx.crate_name(rustc_hir::def_id::LOCAL_CRATE).to_string()));
        let (file, line, exp) = self.span(tcx.def_span(did));
        let _ = write!(o, ",\"file\":{},\"line\":{},\"exp\":{}", js(&file), line, js(&exp));
        if matches!(dk, DefKind::Fn | DefKind::AssocFn) {
            let _ = write!(o, ",\"name\":{}", js(&tcx.item_name(did).to_string()));
            let vis = tcx.visibility(did);
            let _ = write!(o, ",\"pub\":{}", vis.is_public());
            let sig = tcx.fn_sig(did).instantiate_identity().skip_norm_wip().skip_binder();
            o.push_str(",\"inputs\":[");
            for (i, t) in sig.inputs().iter().enumerate() {
                if i > 0 {
                    o.push(',');
                }
                esc(&self.ty(*t), &mut o);
            }
            let _ = write!(o, "],\"output\":{}", js(&self.ty(sig.output())));
        }
        if let Some(imp) = tcx.impl_of_assoc(did) {
            let st = tcx.type_of(imp).instantiate_identity().skip_norm_wip();
            let _ = write!(o, ",\"impl_self\":{}", js(&self.ty(st)));
            if let Some(tr) = tcx.impl_opt_trait_ref(imp) {
                let tr = tr.instantiate_identity().skip_norm_wip();
                let _ = write!(o, ",\"impl_trait\":{}", js(&self.path(tr.def_id)));
                let _ = write!(o, ",\"impl_trait_full\":{}", js(&fix_crate(with_crate_prefix!(with_no_trimmed_paths!(format!("{}", tr))), &self.krate)));
            }
        } else if let Some(tr) = tcx.trait_of_assoc(did) {
            let _ = write!(o, ",\"in_trait\":{}", js(&self.path(tr)));
        }
        if dk == DefKind::Closure {
            let parent = tcx.typeck_root_def_id(did);
            let _ = write!(o, ",\"parent\":{}", js(&self.path(parent)));
        }
        let _ = write!(o, ",\"argc\":{}", body.arg_count);
        o.push_str(",\"locals\":[");
        for (i, d) in body.local_decls.iter().enumerate() {
            if i > 0 {
                o.push(',');
            }
            esc(&self.ty(d.ty), &mut o);
        }
        o.push_str("],\"names\":[");
        let mut first = true;
        for v in &body.var_debug_info {
            if let mir::VarDebugInfoContents::Place(p) = &v.value {
                if !first {
                    o.push(',');
                }
                first = false;
                let _ = write!(o, "[{},{}]", js(&v.name.to_string()), self.place(body, p));
            }
        }
        o.push_str("],\"blocks\":[");
        for (i, bb) in body.basic_blocks.iter().enumerate() {
            if i > 0 {
                o.push(',');
            }
            o.push_str(&self.block(body, env, bb));
        }
        o.push_str("],\"promoted\":[");
        let proms = tcx.promoted_mir(did);
        for (pi, pb) in proms.iter().enumerate() {
            if pi > 0 {
                o.push(',');
            }
            o.push_str("{\"locals\":[");
            for (i, d) in pb.local_decls.iter().enumerate() {
                if i > 0 {
                    o.push(',');
                }
                esc(&self.ty(d.ty), &mut o);
            }
            o.push_str("],\"blocks\":[");
            for (i, bb) in pb.basic_blocks.iter().enumerate() {
                if i > 0 {
                    o.push(',');
                }
                o.push_str(&self.block(pb, env, bb));
            }
            o.push_str("]}");
        }
        o.push_str("]}");
        Some((path, o))
    }

    fn adts_json(&self) -> Vec<String> {
        let tcx = self.tcx;
        let mut res = Vec::new();
        for ldid in tcx.hir_crate_items(()).definitions() {
            let did = ldid.to_def_id();
            match tcx.def_kind(did) {
                DefKind::Struct | DefKind::Enum | DefKind::Union => {
                    let adt = tcx.adt_def(did);
                    let mut o = String::from("{\"adt\":");
                    esc(&self.path(did), &mut o);
                    let _ = write!(o, ",\"kind\":{}", js(&format!("{:?}", adt.adt_kind())));
                    let (file, line, _) = self.span(tcx.def_span(did));
                    let _ = write!(o, ",\"file\":{},\"line\":{}", js(&file), line);
                    o.push_str(",\"variants\":[");
                    let discrs: Vec<(usize, String)> = if adt.is_enum() {
                        adt.discriminants(tcx).map(|(i, d)| (i.as_usize(), d.val.to_string())).collect()
                    } else {
                        vec![]
                    };
                    for (vi, v) in adt.variants().iter().enumerate() {
                        if vi > 0 {
                            o.push(',');
                        }
                        let _ = write!(o, "{{\"name\":{}", js(&v.name.to_string()));
                        if let Some((_, d)) = discrs.iter().find(|(i, _)| *i == vi) {
                            let _ = write!(o, ",\"discr\":{}", js(d));
                        }
                        o.push_str(",\"fields\":[");
                        for (fi, f) in v.fields.iter().enumerate() {
                            if fi > 0 {
                                o.push(',');
                            }
                            let fty = tcx.type_of(f.did).instantiate_identity().skip_norm_wip();
                            let _ = write!(
                                o,
                                "{{\"name\":{},\"ty\":{},\"pub\":{}}}",
                                js(&f.name.to_string()),
                                js(&self.ty(fty)),
                                f.vis.is_public()
                            );
                        }
                        o.push_str("]}");
                    }
                    o.push_str("]}");
                    res.push(o);
                }
                DefKind::Const { .. } | DefKind::AssocConst { .. } => {
                    // evaluated integer constants without generics
                    let generics = tcx.generics_of(did);
                    if generics.count() != 0 || generics.parent_count != 0 {
                        continue;
                    }
                    if tcx.trait_of_assoc(did).is_some() {
                        continue;
                    }
                    let ty = tcx.type_of(did).instantiate_identity().skip_norm_wip();
                    let mut o = String::from("{\"const\":");
                    esc(&self.path(did), &mut o);
                    let _ = write!(o, ",\"ty\":{}", js(&self.ty(ty)));
                    let (file, line, _) = self.span(tcx.def_span(did));
                    let _ = write!(o, ",\"file\":{},\"line\":{}", js(&file), line);
                    if matches!(ty.kind(), ty::Int(_) | ty::Uint(_) | ty::Bool | ty::Char) {
                        if let Ok(cv) = tcx.const_eval_poly(did) {
                            if let ConstValue::Scalar(mir::interpret::Scalar::Int(si)) = cv {
                                let size = si.size();
                                let v: i128 = if let ty::Int(_) = ty.kind() {
                                    si.to_int(size)
                                } else {
                                    si.to_bits(size) as i128
                                };
                                let _ = write!(o, ",\"v\":{}", js(&v.to_string()));
                            }
                        }
                    } else if let ty::Adt(adt, _) = ty.kind() {
                        // single-scalar newtype constants (e.g. Energy)
                        if let Ok(cv) = tcx.const_eval_poly(did) {
                            if let ConstValue::Scalar(mir::interpret::Scalar::Int(si)) = cv {
                                let size = si.size();
                                let _ = write!(o, ",\"v\":{}", js(&si.to_bits(size).to_string()));
                                let _ = adt;
                            }
                        }
                    }
                    o.push('}');
                    res.push(o);
                }
                _ => {}
            }
        }
        res
    }
}

fn unwind_json(u: &mir::UnwindAction) -> String {
    match u {
        mir::UnwindAction::Cleanup(b) => format!("{}", b.as_usize()),
        _ => "null".to_string(),
    }
}

impl Callbacks for Dump {
    fn after_analysis<'tcx>(&mut self, _c: &Compiler, tcx: TyCtxt<'tcx>) -> Compilation {
        let krate = tcx.crate_name(rustc_hir::def_id::LOCAL_CRATE).to_string();
        let cx = Cx { tcx, krate: krate.clone() };
        let mut out = String::new();
        let mut n = 0usize;
        for ldid in tcx.hir_body_owners() {
            if let Some((path, j)) = cx.body_json(ldid) {
                out.push_str("B\t");
                out.push_str(&path.replace('\t', " "));
                out.push('\t');
                out.push_str(&j);
                out.push('\n');
                n += 1;
            }
        }
        for a in cx.adts_json() {
            out.push_str("D\t\t");
            out.push_str(&a);
            out.push('\n');
        }
        let _ = write!(out, "E\t\t{{\"crate\":{},\"bodies\":{}}}\n", js(&krate), n);
        let file = format!("{}/{}.mir.jsonl", self.out_dir, krate);
        let tmp = format!("{}.tmp{}", file, std::process::id());
        std::fs::write(&tmp, out).expect("mirq: cannot write facts");
        std::fs::rename(&tmp, &file).expect("mirq: cannot rename facts");
        Compilation::Continue
    }
}

struct Plain;
impl Callbacks for Plain {}

fn main() {
    let mut args: Vec<String> = std::env::args().collect();
    // wrapper mode: argv[1] is the path of the real rustc
    if args.len() > 1 && (args[1].ends_with("rustc") || args[1].contains("/rustc")) {
        args.remove(1);
    }
    let out_dir = std::env::var("MIRQ_OUT").unwrap_or_default();
    let wanted = std::env::var("MIRQ_CRATES").unwrap_or_default();
    let mut crate_name = String::new();
    let mut i = 0;
    while i < args.len() {
        if args[i] == "--crate-name" && i + 1 < args.len() {
            crate_name = args[i + 1].clone();
        }
        i += 1;
    }
    let is_build_script = crate_name.starts_with("build_script");
    let selected = !out_dir.is_empty()
        && !is_build_script
        && wanted.split(',').any(|w| !w.is_empty() && w == crate_name);
    if selected {
        rustc_driver::run_compiler(&args, &mut Dump { out_dir });
    } else {
        rustc_driver::run_compiler(&args, &mut Plain);
    }
}
