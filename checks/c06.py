"""C06 — transaction and update authorisation is exactly the threshold policy.

Structural clauses decided (see DESIGN.md §4 C06):
  a. accept/reject boundary of verify_data_signature (CMP, ENF, single ACCEPT)
  b. digest binding: the sign hash feeds header and payload; verifiers use that hash
  c. declared payload size derives from the encoded payload
  d. update-key thresholds are enforced by the decoders
"""
from .common import *

META = dict(
    technique="static analysis: enforcement/comparison-polarity/def-use rules over compiler MIR",
    text=("Structural necessary conditions of the threshold policy, decided from MIR on every run: both threshold comparisons "
          "reject with the right orientation, key lookups and signature verification results are branched on with the rejecting "
          "polarity, one accepting return, the signed digest covers header then payload in one hasher and is the value verified. "
          "Not a proof of the behavioural property: cryptographic binding and the energy formulas are not decided."),
)

CB = "concordium_base"
T = CB + "::transactions::"


def lookups_and_verdicts(ck, f):
    """In verify_data_signature and its closures: every key lookup that fails rejects, every signature
    verification that fails rejects.  Iterator forms (`all`, `map_or(false, ..)`, `is_some_and`) are accepted idioms."""
    c = crate("rs", CB)
    bodies = [f] + [Fn(b) for p in c.paths() if p.startswith(f.path + "::{closure") for b in c.get_all(p)]
    n_lookup = n_verify = 0
    for g in bodies:
        for pat, what in ((r"HasAccountAccessStructure::credential_keys$", "credential_keys"), (r"CredentialPublicKeys::get$", "cred_keys.get")):
            for n, (bi, t) in enumerate(g.calls(pat)):
                n_lookup += 1
                r = rules.enforcement(g, bi)
                ok = rules.enforced_ok(r)
                how = r["status"] + ": " + r["detail"]
                if not ok:
                    # Option combinators: the default for None must be `false`
                    dest = t["dest"][0]
                    fw = g.forward({dest})
                    for (mb, mt) in g.calls(r"Option::<T>::(map_or|is_some_and|map_or_else)$"):
                        pl = op_place(mt["args"][0])
                        if pl is not None and pl[0] in fw:
                            if mt["f"]["name"] == "is_some_and":
                                ok, how = True, "is_some_and: an unknown key yields false"
                            elif mt["f"]["name"] == "map_or":
                                k = op_const(mt["args"][1])
                                dflt = const_int(k) if k else None
                                ok = dflt == 0
                                how = "map_or(%s, ..): an unknown key yields %s" % ("false" if dflt == 0 else "TRUE", "rejection" if dflt == 0 else "ACCEPTANCE")
                            r2 = rules.enforcement(g, mb, extra_fail=("bool", 0))
                            ok = ok and rules.enforced_ok(r2)
                ck.ob("ENF", g.path, "%s#%d" % (what, n), ok, how, g.loc(bi))
        for n, (bi, t) in enumerate(g.calls(r"VerifyKey::verify$")):
            n_verify += 1
            r = rules.enforcement(g, bi)
            ck.ob("ENF", g.path, "pk.verify#%d" % n, rules.enforced_ok(r), r["status"] + ": " + r["detail"], g.loc(bi))
        for n, (bi, t) in enumerate(g.calls(r"iter::Iterator::(all|any)$")):
            r = rules.enforcement(g, bi, extra_fail=("bool", 0 if t["f"]["name"] == "all" else 1))
            ck.ob("ENF", g.path, "iterator-%s#%d" % (t["f"]["name"], n), rules.enforced_ok(r), r["status"] + ": " + r["detail"], g.loc(bi))
    # every supplied signature is examined: the signature maps are iterated whole
    TRUNC = r"iter::Iterator::(take|skip|step_by|take_while|skip_while|nth|last|find|find_map|position)$|slice::<impl \[T\]>::(split_at|split_first|split_last|first|last|chunks|get)$|" \
            r"vec::Vec::<.*>::(truncate|drain|split_off)$|BTreeMap::<.*>::(first_key_value|last_key_value|range|pop_first|pop_last)$|iter::Iterator::next$"
    for g in bodies:
        for (bi, t) in g.calls(TRUNC):
            if t["f"]["name"] == "next" and bi in g.reach_from(g.succ(bi)):
                continue        # the `for` loop's own next(): runs until the iterator is exhausted
            o = g.origins(t["args"][0], deep=True)
            if ("arg", 2) in o or ("arg", 3) in o or any(a[0] == "capture" for a in o):
                ck.ob("COV", g.path, "signatures-iterated-whole@%s" % t["f"]["name"], False,
                      "the supplied signatures/keys are cut or searched with %s: signatures outside the selected part are not verified" % t["f"]["name"], g.loc(bi))
    ck.ob("COV", f.path, "signatures-iterated-whole", True, "%d bodies scanned for truncating or selecting combinators on the signature maps" % len(bodies), f.loc(), nontrivial=False)
    ck.floor("ENF", "key lookups in verify_data_signature", n_lookup, 2)
    ck.floor("ENF", "signature verifications in verify_data_signature", n_verify, 1)


def run(ck):
    ck.explanation = ("Decides structural necessary conditions of the threshold policy: every comparison and "
                      "lookup in the signature verifiers is branched on with the rejecting polarity, the only "
                      "accepting return is reached through the loop exits, the signed digest is computed from "
                      "header and payload and is the value handed to the verifier.")
    ck.undecided = ("cryptographic binding (changing any bit fails), the numerical energy formulas, "
                    "value-level equality of hashes.")
    ck.rules_text = "ENF/CMP/RET/COV over MIR of concordium_base::transactions and ::updates"

    f = getfn(ck, "rs", CB, T + "verify_data_signature")
    if f:
        # account threshold vs number of credential signatures: reject when threshold > len
        cmp_rejecting(ck, f, [("call", r"HasAccountAccessStructure::threshold$")],
                      [("call", r"BTreeMap::<K, V, A>::len$"), ("arg", 3)], "Gt", "account-threshold>signatures.len")
        cmp_rejecting(ck, f, [("field", "threshold")],
                      [("call", r"BTreeMap::<K, V, A>::len$")], "Gt", "credential-threshold>cred_sigs.len")
        lookups_and_verdicts(ck, f)
        # exactly one accepting assignment, and it is `true` reached only after the outer loop ended
        acc, rej = f.accept_points()
        ck.ob("RET", f.path, "single-accept", len(acc) == 1, "%d accepting assignments, %d rejecting" % (len(acc), len(rej)), f.loc())
        ck.ob("RET", f.path, "reject-count", len(rej) >= 3, "%d rejecting assignments (floor 3)" % len(rej), f.loc(), nontrivial=False)
        # the data verified is the function's data argument and the signature comes from the map
        for n, (bi, t) in enumerate(f.calls(r"VerifyKey::verify$")):
            o1 = f.origins(t["args"][1], deep=True)
            o2 = f.origins(t["args"][2], deep=True)
            ck.ob("DEFUSE", f.path, "verify.data#%d" % n, ("arg", 2) in o1, "message operand derives from the data argument", f.loc(bi))
            ck.ob("DEFUSE", f.path, "verify.sig#%d" % n, ("arg", 3) in o2, "signature operand derives from the signatures argument", f.loc(bi))

    f = getfn(ck, "rs", CB, T + "verify_signature_transaction_sign_hash")
    if f:
        enf_calls(ck, f, r"transactions::verify_data_signature$", "verify_data_signature")
    f = getfn(ck, "rs", CB, T + "verify_signature_transaction_sign_hash_v1")
    if f:
        enf_calls(ck, f, r"transactions::verify_data_signature$", "sender.verify_data_signature")
        sites = enf_calls(ck, f, r"Option::<T>::map_or$", "sponsor.map_or", extra_fail=("bool", 0))
        for (bi, t) in sites:
            k = op_const(t["args"][1])
            ck.ob("RET", f.path, "sponsor-absent-default", k is not None and const_int(k) == 1,
                  "absent sponsor defaults to true (the property: sponsor signature only required when present)", f.loc(bi))
        clos = getfn(ck, "rs", CB, T + "verify_signature_transaction_sign_hash_v1::{closure#0}")
        if clos:
            enf_calls(ck, clos, r"transactions::verify_data_signature$", "sponsor.verify_data_signature")
            for n, (bi, t) in enumerate(clos.calls(r"transactions::verify_data_signature$")):
                o = clos.origins(t["args"][0], deep=True)
                ck.ob("DEFUSE", clos.path, "sponsor-keys#%d" % n, ("capture", "sponsor_keys") in o,
                      "sponsor signature is checked against the sponsor keys (captured variable sponsor_keys)", clos.loc(bi))

    enf_module_sweep(ck, crate("rs", CB), re.compile(r"concordium_base::(transactions|updates)::"), 1, "transactions/updates")

    # b. digest binding
    for name, nput in (("compute_transaction_sign_hash", 1), ("compute_transaction_sign_hash_v1", 2)):
        f = getfn(ck, "rs", CB, T + name)
        if not f:
            continue
        puts = f.calls(r"serialize::Put::put$|Serial::serial$")
        enc = f.calls(r"PayloadLike::encode_to_buffer$")
        hdr = [(bi, t) for (bi, t) in puts if ("arg", 1) in f.origins(t["args"][1] if len(t["args"]) > 1 else t["args"][0])]
        ck.ob("COV", f.path, "header-hashed", len(hdr) == 1, "header argument fed to the hasher %d time(s)" % len(hdr), f.loc())
        ck.ob("COV", f.path, "payload-hashed", len(enc) == 1 and ("arg", 2) in f.origins(enc[0][1]["args"][0]) if enc else False,
              "payload argument encoded into the hasher", f.loc())
        if hdr and enc:
            ck.ob("DOM", f.path, "header-before-payload", f.dominates(hdr[0][0], enc[0][0]) and hdr[0][0] != enc[0][0],
                  "header is hashed before the payload", f.loc(enc[0][0]))
        # same hasher object: all sink calls take &mut of the same local
        sinks = puts + enc
        hashers = set()
        for (bi, t) in sinks:
            a = t["args"][0] if callee_match(t, r"serialize::Put::put$") else t["args"][-1]
            for at in f.origins(a):
                if at[0] == "call" and "Digest::new" in at[1]:
                    hashers.add(at[2])
        ck.ob("COV", f.path, "one-hasher", len(hashers) == 1, "all parts go to one Sha256 instance (%d found)" % len(hashers), f.loc())
        # the returned hash is the result of that hasher
        o = f.origins(0, deep=True)
        ck.ob("RET", f.path, "hash-result", any(a[0] == "call" and a[1].endswith("Buffer::result") for a in o),
              "returned hash derives from hasher.result()", f.loc())
        if name.endswith("v1"):
            pre = [(bi, t) for (bi, t) in puts if any(a[0] == "const" and "TRANSACTION_HEADER_PREFIX_V1" in a[1] for a in f.origins(t["args"][1], deep=True))]
            ck.ob("COV", f.path, "v1-prefix", len(pre) == 1 and hdr and f.dominates(pre[0][0], hdr[0][0]),
                  "the v1 domain-separation prefix is hashed first", f.loc())

    f = getfn(ck, "rs", CB, T + "sign_transaction")
    if f:
        h = f.calls(r"transactions::compute_transaction_sign_hash$")
        s = f.calls(r"TransactionSigner::sign_transaction_hash$")
        ok = len(h) == 1 and len(s) == 1 and any(a[0] == "call" and a[1].endswith("compute_transaction_sign_hash") for a in f.origins(s[0][1]["args"][1], deep=True))
        ck.ob("DEFUSE", f.path, "signs-the-sign-hash", ok, "the signer receives the hash computed from this header and payload", f.loc())
        if h:
            t = h[0][1]
            ck.ob("DEFUSE", f.path, "hash-of-own-parts", ("arg", 2) in f.origins(t["args"][0]) and ("arg", 3) in f.origins(t["args"][1]),
                  "the hash is computed from the header and payload being packaged", f.loc(h[0][0]))

    # verify_transaction_signature style wrappers: AccountTransaction::verify_transaction_signature
    c = crate("rs", CB)
    wrappers = [p for p in c.paths() if p.endswith("::verify_transaction_signature")]
    ck.floor("ENF", "verify_transaction_signature impls", len(wrappers), 2)
    for p in wrappers:
        f = getfn(ck, "rs", CB, p)
        v = f.calls(r"transactions::verify_signature_transaction_sign_hash(_v1)?$")
        h = f.calls(r"transactions::compute_transaction_sign_hash(_v1)?$")
        ck.ob("DEFUSE", p, "verifies-own-hash", len(v) == 1 and len(h) == 1, "one hash computation and one verification", f.loc())
        if len(v) == 1 and len(h) == 1:
            hidx = 1 if not v[0][1]["f"]["path"].endswith("_v1") else 2
            o = f.origins(v[0][1]["args"][hidx], deep=True)
            ck.ob("DEFUSE", p, "hash-passed", any(a[0] == "call" and "compute_transaction_sign_hash" in a[1] for a in o),
                  "the verified hash is the one computed from this transaction", f.loc(v[0][0]))
            r = rules.enforcement(f, v[0][0])
            ck.ob("ENF", p, "verdict", rules.enforced_ok(r), r["status"] + ": " + r["detail"], f.loc(v[0][0]))
            # v0 hash for v0 transaction, v1 for v1
            ck.ob("TAB", p, "version-agreement", v[0][1]["f"]["path"].endswith("_v1") == h[0][1]["f"]["path"].endswith("_v1"),
                  "hash version equals verifier version", f.loc())

    # the header that is parsed is the header that was signed: undefined feature bits of a v1 header are refused on the value
    # as read (a header whose unknown bits are dropped re-serialises to the signed bytes although different bytes were received)
    from vlib import sweeps as _sw
    hb = [b for pth in crate("rs", CB).paths() if re.search(r"transactions::TransactionHeaderV1 as concordium_base::common::serialize::Deserial>::deserial$", pth) for b in crate("rs", CB).get_all(pth)]
    if ck.anchor(len(hb) == 1, "BITMAP", "TransactionHeaderV1::deserial", "function exists"):
        hf_ = Fn(hb[0])
        bm = _sw.bitmap_locals(hf_)
        ents = [e for e in bm.values() if e["rejecting"]]
        ck.ob("BITMAP", hf_.path, "undefined-header-bits-refused", len(ents) >= 1 and any(any(e.get("raw", [])) for e in ents),
              "unknown feature bits of the v1 header are tested on the raw bitmap and refused", hf_.loc())
    narrowing_len_sweep(ck, crate("rs", "concordium_base"), re.compile(r"concordium_base::transactions::"), re.compile(r"(verify|check)[a-z_0-9]*(::\{closure#\d+\})*$"))
    gated_verification_sweep(ck, crate("rs", "concordium_base"), re.compile(r"concordium_base::transactions::"), floor=3)
    eq_polarity_sweep(ck, crate("rs", "concordium_base"), re.compile(r"concordium_base::transactions::"), re.compile(r"(verify|check)[a-z_0-9]*(::\{closure#\d+\})*$"))
    rejecting_checks_floor(ck, crate("rs", "concordium_base"), re.compile(r"concordium_base::transactions::"), re.compile(r"(verify|verifier|validate|check|extract_commit_message)[a-z_0-9]*(::\{closure#\d+\})*$"), "C06")
    builder_rules(ck)


# energy constants of account transactions (protocol values; frozen from the pinned tree, compared by evaluated value)
TX_COST = {"A": 100, "B": 1, "SIMPLE_TRANSFER": 300, "ENCRYPTED_TRANSFER": 27000, "TRANSFER_TO_ENCRYPTED": 600, "TRANSFER_TO_PUBLIC": 14850,
           "ADD_BAKER": 4050, "UPDATE_BAKER_KEYS": 4050, "REMOVE_BAKER": 300, "UPDATE_BAKER_STAKE": 300, "UPDATE_BAKER_RESTAKE": 300,
           "CONFIGURE_BAKER_WITH_KEYS": 4050, "CONFIGURE_BAKER_WITHOUT_KEYS": 300, "CONFIGURE_DELEGATION": 300, "REGISTER_DATA": 300,
           "UPDATE_CREDENTIALS_BASE": 500, "PLT_OPERATIONS_TRANSACTIONS": 300, "PLT_TRANSFER": 100, "PLT_MINT": 50, "PLT_BURN": 50,
           "PLT_LIST_UPDATE": 50, "PLT_PAUSE": 50}


def builder_rules(ck):
    """constructed transactions: declared payload size, energy and sign digest are the documented functions of the bytes"""
    c = crate("rs", CB)
    T = CB + "::transactions::"
    for kn, val in sorted(TX_COST.items()):
        k = c.consts.get(T + "cost::" + kn)
        v = int(k["v"]) if k and k.get("v") is not None else None
        ck.ob("CONST", T + "cost::" + kn, "protocol-value", v == val, "evaluates to %s (protocol value %d)" % (v, val), "")
    k = c.consts.get(T + "construct::TRANSACTION_HEADER_SIZE")
    ck.ob("CONST", T + "construct::TRANSACTION_HEADER_SIZE", "protocol-value", k is not None and str(k.get("v")) == "60",
          "header size %s = 32 (sender) + 8 (nonce) + 8 (energy) + 4 (payload size) + 8 (expiry)" % (k.get("v") if k else None), "")
    # base cost = B * size + A * number of signatures
    f = getfn(ck, "rs", CB, T + "cost::base_cost")
    if f:
        l = None
        for (bi, t) in f.calls(r"convert::From::from$"):
            if t["dest"][0] == 0:
                l = rules.lin(f, t["args"][0])
        ck.ob("CONST", f.path, "base-cost-formula", l == ({1: 1, 2: 100}, 0),
              "energy = B * transaction_size + A * num_signatures with A = 100, B = 1" if l == ({1: 1, 2: 100}, 0) else "base cost evaluates to the linear form %s over (size, signatures)" % (l,), f.loc())
    # the declared payload size is the size of the encoded payload that is shipped
    f = getfn(ck, "rs", CB, T + "construct::TransactionBuilder::new")
    if f:
        aggs = [(bi, st["rv"]) for bi in sorted(f.reachable()) for st in f.stmts(bi) if st.get("rv", {}).get("k") == "agg" and st["rv"].get("adt", "").endswith("transactions::TransactionHeader")]
        ok = False
        for (bi, rv) in aggs:
            i = rv["fields"].index("payload_size") if "payload_size" in rv.get("fields", []) else None
            if i is not None:
                o = f.origins(rv["ops"][i], deep=True)
                ok = has_call_origin(o, r"EncodedPayload::size$") and has_call_origin(o, r"Payload::encode$|PayloadLike::encode$")
        ck.ob("DEFUSE", f.path, "payload-size-is-size-of-encoding", ok, "header.payload_size = payload.encode().size()" if ok else "the declared payload size is not the size of the encoded payload", f.loc())
    # signing with sufficient keys always verifies: the signer uses the thresholds as COUNTS - it signs with the first
    # `threshold` credentials and, in each, the first `threshold` keys - whatever their indices are (index sets may have
    # gaps; selecting "indices below the threshold" signs with too few credentials on an account whose indices are sparse)
    for pth in sorted(c.paths()):
        if not re.search(r"::AccountKeys as .*(TransactionSigner>::sign_transaction_hash|ExactSizeTransactionSigner>::num_keys)(::.closure#[0-9]+.)*$", pth):
            continue
        for b in c.get_all(pth):
            f = Fn(b)
            takes = [(bi, t) for (bi, t) in f.calls(r"Iterator::take$") if ("field", "threshold") in f.origins(t["args"][1], deep=True)]
            byidx = f.calls(r"BTreeMap::<.*>::range(_mut)?$|BTreeMap<.*>::range(_mut)?$|::split_off$|Iterator::take_while$|Iterator::filter$")
            if not takes and not byidx and "{closure" in pth:
                continue
            ck.ob("DEFUSE", f.path, "threshold-used-as-a-count", len(takes) >= 1 and not byidx,
                  "the first `threshold` entries are selected with take(threshold)" if takes and not byidx else
                  "the signer selects by key value (%s) instead of taking `threshold` many entries: an access structure with gaps in its indices is signed with too few keys" % [t["f"]["name"] for (_, t) in byidx], f.loc(byidx[0][0]) if byidx else f.loc())
    # num_keys() is the number of signatures sign_transaction_hash() produces (the energy of a transaction is computed from it):
    # per signer type, credentials are limited with take(..) in both or in neither, and the per-credential count is the
    # credential's threshold iff the signer takes `threshold` of its keys, its number of keys iff the signer uses them all
    cb_ = crate("rs", CB)
    groups = {}
    for pth in sorted(cb_.paths()):
        m = re.match(r"^<(.*) as concordium_base::transactions::(ExactSizeTransactionSigner|TransactionSigner)>::(num_keys|sign_transaction_hash)((::\{closure#\d+\})*)$", pth)
        if m and not re.search(r"^(&|std::(rc|sync)::)|^[A-Z]$", m.group(1)):
            groups.setdefault(m.group(1), {}).setdefault(m.group(3), []).extend((Fn(b), bool(m.group(4))) for b in cb_.get_all(pth))
    npair = 0
    for ty, g in sorted(groups.items()):
        if not ("num_keys" in g and "sign_transaction_hash" in g):
            continue
        npair += 1
        s_outer = sum(len(f.calls(r"Iterator::take$")) for (f, cl) in g["sign_transaction_hash"] if not cl)
        s_inner = sum(len(f.calls(r"Iterator::take$")) for (f, cl) in g["sign_transaction_hash"] if cl)
        n_outer = sum(len(f.calls(r"Iterator::take$")) for (f, cl) in g["num_keys"] if not cl)
        by_thr = by_len = 0
        for (f, cl) in g["num_keys"]:     # closures of map/sum, or the body itself when it counts in a loop
            o = f.origins(0, deep=True)
            by_thr += ("field", "threshold") in o
            by_len += has_call_origin(o, r"::len$")
        okn = (s_outer > 0) == (n_outer > 0) and ((s_inner > 0 and by_thr >= 1 and by_len == 0) or (s_inner == 0 and by_len >= 1 and by_thr == 0))
        f0 = [f for (f, cl) in g["num_keys"] if not cl][0]
        ck.ob("SIB", f0.path, "declared-signature-count-is-what-the-signer-produces", okn,
              "signer: take on credentials %d / on keys %d; count: take on credentials %d, per credential %s" % (s_outer, s_inner, n_outer, "threshold" if by_thr else "number of keys") if okn else
              "the signer takes %s and %s, but num_keys counts %s per credential%s: the energy computed from it is not the documented function of the signatures actually made"
              % ("`threshold` credentials" if s_outer else "all credentials", "`threshold` keys of each" if s_inner else "all keys of each", "the number of keys" if by_len else ("the threshold" if by_thr else "something else"), "" if (s_outer > 0) == (n_outer > 0) else ", over a different set of credentials"), f0.loc())
    ck.floor("SIB", "signer types implementing both traits", npair, 2)
    # a prepared (v0) transaction is signed over the digest of the header and payload it is emitted with: sign() goes through
    # sign_transaction, which hashes exactly those two values, not through a digest cached at construction time (the fields
    # are public and may have been adjusted - e.g. the energy - before signing)
    f = getfn(ck, "rs", CB, T + "construct::PreAccountTransaction::sign")
    if f:
        st_ = f.calls(r"transactions::sign_transaction$")
        direct = f.calls(r"TransactionSigner::sign_transaction_hash$")
        ok = len(st_) == 1 and not direct
        if ok:
            o1, o2 = f.origins(st_[0][1]["args"][1], deep=False), f.origins(st_[0][1]["args"][2], deep=False)
            ok = ("field", "header") in o1 and ("field", "encoded") in o2
        ck.ob("DEFUSE", f.path, "signs-the-digest-of-what-it-emits", ok,
              "sign() = sign_transaction(signer, self.header, self.encoded): the digest is recomputed from the emitted header and payload" if ok else
              "sign() signs a digest that is not recomputed from the header and payload it emits (cached hash_to_sign): after a field was adjusted the signature does not verify", f.loc())
    # the digest that gets signed is computed after the last change of the header
    n = 0
    for p in sorted(c.paths()):
        if not p.startswith(T + "construct::") or "{closure" in p:
            continue
        for b in c.get_all(p):
            f = Fn(b)
            hs = f.calls(r"transactions::compute_transaction_sign_hash(_v1)?$")
            if not hs:
                continue
            writes = [bi for bi in f.reachable() for st in f.stmts(bi) if "lhs" in st and st["lhs"][1] and any(str(x).endswith(":header") for x in st["lhs"][1]) and len(st["lhs"][1]) >= 2]
            writes += [bi for (bi, t) in f.calls(r".") if t.get("dest") and t["dest"][1] and any(str(x).endswith(":header") for x in t["dest"][1])]
            n += 1
            late = [wb for wb in writes if any(wb in f.reach_from(f.succ(hb)) for (hb, _) in hs)]
            ck.ob("DOM", f.path, "digest-after-last-header-change", not late,
                  "the sign digest is computed after all %d writes to the header" % len(writes) if not late else
                  "a header field is written after (or not before) the sign digest is computed: the stored digest does not cover the final header", f.loc(late[0]) if late else f.loc(hs[0][0]))
    ck.floor("DOM", "builder functions that compute a sign digest", n, 3)
