"""C19 — BLS aggregation, VRF and PS signatures: structural necessary conditions."""
from .common import *

META = dict(
    technique="static analysis: enforcement/return-derivation/effect-freedom/transcript-agreement rules over compiler MIR",
    text=("Structural necessary conditions: every verifier's verdict is the decisive comparison, every precondition test is "
          "enforced with rejecting polarity (duplicates, empty set, zero point, lengths, failed decoding), prover and verifier "
          "hash the same labelled sequence, VRF proving and output hashing reach no randomness source. Unforgeability and "
          "uniqueness are not decided."),
)
from vlib.callgraph import CallGraph, NONDET
from vlib import transcript

CB = "concordium_base"
A = CB + "::aggregate_sig::"


def ret_from(ck, f, pat, what, deep=True):
    o = f.origins(0, deep=deep)
    ok = any(a[0] in ("call", "callres") and re.search(pat, a[1]) for a in o)
    ck.ob("RET", f.path, what, ok, "the verdict derives from " + pat, f.loc())
    return o


def single_bool_accepts(ck, f, n_acc=None):
    acc, rej = f.accept_points()
    return acc, rej


def run(ck):
    ck.explanation = ("Decides that each verifier's verdict is the decisive algebraic comparison (pairing equality, "
                      "challenge equality), that every precondition test (duplicates, empty signer set, zero point, "
                      "length mismatch, failed decoding) is branched on with the rejecting polarity, that prover and "
                      "verifier hash the same labelled sequence, and that VRF proving/hashing reaches no randomness source.")
    ck.undecided = "unforgeability, uniqueness of VRF output, correctness of the group arithmetic."
    ck.rules_text = "ENF/CMP/RET/EFF/transcript sibling agreement over MIR of aggregate_sig, ecvrf, ps_sig, dlog_ed25519"

    f = getfn(ck, "rs", CB, A + "verify_aggregate_sig")
    if f:
        enf_calls(ck, f, r"aggregate_sig::has_duplicates$", "has_duplicates", extra_fail=("bool", 1))
        enf_calls(ck, f, r"\[T\]>::is_empty$|::is_empty$", "is_empty", extra_fail=("bool", 1))
        o = ret_from(ck, f, r"cmp::PartialEq::eq$", "pairing-equality")
        ck.ob("RET", f.path, "pairs-and-signature", ("arg", 1) in o and ("arg", 2) in o and any(a[0] == "call" and a[1].endswith("Pairing::pair") for a in o),
              "the compared values derive from the key/message pairs, the signature and Pairing::pair", f.loc())
        # has_duplicates receives the same slice that is verified
        for (bi, t) in f.calls(r"aggregate_sig::has_duplicates$"):
            ck.ob("DEFUSE", f.path, "has_duplicates.arg", ("arg", 1) in f.origins(t["args"][0]), "duplicates are searched in the verified pairs", f.loc(bi))
    f = getfn(ck, "rs", CB, A + "verify_aggregate_sig_trusted_keys")
    if f:
        enf_calls(ck, f, r"::is_empty$", "is_empty", extra_fail=("bool", 1))
        ret_from(ck, f, r"Pairing::check_pairing_eq$", "pairing-equality")
    f = getfn(ck, "rs", CB, A + "verify_aggregate_sig_hybrid")
    if f:
        ret_from(ck, f, r"cmp::PartialEq::eq$", "pairing-equality")
        ck.note("verify_aggregate_sig_hybrid has neither a duplicate nor an emptiness check (documented precondition); observation, not a violation")
    f = getfn(ck, "rs", CB, A + "has_duplicates")
    if f:
        c0 = crate("rs", CB)
        # accepted idioms for a COMPLETE duplicate search: sort the hashes of all messages, then compare every adjacent pair
        # (index loop, or windows(2) over the whole sorted slice); the sorted vector must not be cut into independently
        # scanned pieces (pairs that straddle a cut would never be compared)
        SORT = r"(par_)?sort(_unstable)?(_by|_by_key)?$"
        PART = r"::(par_)?r?chunks(_exact|_mut|_exact_mut)?$|::split_at(_mut)?$|Iterator::(step_by|take|skip|take_while|skip_while)$|::truncate$|::par_chunk_by$|::chunk_by$"
        srt = f.calls(SORT)
        part = f.calls(PART)
        ck.ob("COV", f.path, "scan-not-partitioned", not part,
              "the sorted hashes are scanned as one sequence" if not part else
              "the sorted hashes are cut into pieces (%s) that are scanned independently: equal neighbours on both sides of a cut are never compared" % [t["f"]["name"] for (_, t) in part], f.loc())
        comps = [c for c in rules.comparisons(f) if c["op"] == "Eq" and c["kind"] == "call"]
        win = [(bi, t) for (bi, t) in f.calls(r"::(par_)?windows$") if any(op_const(a) is not None and const_int(op_const(a)) == 2 for a in t["args"])]
        idiom, ok = None, False
        if comps:
            idiom = "index loop"
            for c in comps:
                for (sb, st) in f.switches():
                    p = op_place(st["d"])
                    if p and p[0] == c["res"]:
                        tt = st["o"]
                        ok = ok or any("lhs" in s2 and s2["lhs"] == [0, []] and const_int(op_const(s2["rv"].get("a", {}))) == 1 for s2 in f.stmts(tt) if s2.get("rv", {}).get("k") == "use" and op_const(s2["rv"]["a"]))
            ok = ok and len(comps) == 1 and bool(srt) and all(f.dominates(srt[0][0], c["bb"]) for c in comps)
        elif win:
            idiom = "windows(2)"
            anyc = f.calls(r"Iterator::any$|ParallelIterator::any$")
            ret_any = has_call_origin(f.origins(0, deep=True), r"Iterator::any$|ParallelIterator::any$")
            eq_in_closure = False
            for (bi, t) in anyc:
                for x in t["args"][1:]:
                    pl = op_place(x)
                    for (b2, si, it) in (f.defs().get(pl[0], []) if pl else []):
                        if si != "t" and it["rv"].get("k") == "agg" and it["rv"].get("agg") == "closure":
                            for cb in c0.get_all(it["rv"]["closure"]):
                                g = Fn(cb)
                                ce = [c for c in rules.comparisons(g) if c["op"] == "Eq"]
                                eq_in_closure = eq_in_closure or (len(ce) == 1 and has_call_origin(g.origins(0, deep=True), r"PartialEq::eq$") or (len(ce) == 1 and ce[0].get("res") is not None))
            ok = bool(srt) and ret_any and eq_in_closure and all(f.dominates(srt[0][0], wb) for (wb, _) in win)
        ck.ob("RET", f.path, "adjacent-equal-returns-true", ok,
              "idiom %s: after sorting, every adjacent pair is compared and an equal pair makes the function return true" % idiom if ok else
              "no complete adjacent-pair comparison recognised (idiom: %s, sorts: %d, equality tests: %d, windows(2): %d)" % (idiom, len(srt), len(comps), len(win)), f.loc())
        # every message takes part: the hashes are mapped over the whole argument
        o = f.origins(srt[0][1]["args"][0], deep=True) if srt else set()
        ck.ob("COV", f.path, "all-messages", ("arg", 1) in o, "the sorted vector derives from all input messages", f.loc())
    f = getfn(ck, "rs", CB, A + "PublicKey::<P>::verify")
    if f:
        o = ret_from(ck, f, r"Pairing::check_pairing_eq$", "pairing-equality")
        for (bi, t) in f.calls(r"Pairing::check_pairing_eq$"):
            srcs = [f.origins(a, deep=True) for a in t["args"]]
            ck.ob("DEFUSE", f.path, "pairing-operands", ("arg", 3) in srcs[0] and ("arg", 2) in srcs[2] and ("arg", 1) in srcs[3]
                  and any(a[0] == "call" and a[1].endswith("hash_to_group") for a in srcs[2]),
                  "e(sig, g2) is compared with e(H(m), pk)", f.loc(bi))
    f = getfn(ck, "rs", CB, A + "PublicKey::<P>::check_proof")
    if f:
        ret_from(ck, f, r"sigma_protocols::common::verify$", "sigma-verify")
        o = f.origins(0, deep=True)
        ck.ob("DEFUSE", f.path, "own-key", ("arg", 1) in o and ("arg", 2) in o and ("arg", 3) in o, "statement is this key; context and proof are the arguments", f.loc())

    # ---- VRF
    V = CB + "::ecvrf::"
    f = getfn(ck, "rs", CB, V + "public::PublicKey::verify")
    if f:
        enf_calls(ck, f, r"PublicKey::hash_to_curve$", "hash_to_curve")
        o = ret_from(ck, f, r"cmp::PartialEq::eq$", "challenge-equality")
        ck.ob("RET", f.path, "challenge-recomputed", any(a[0] == "call" and a[1].endswith("hash_points") for a in o), "the compared challenge is hash_points(..)", f.loc())
        hp = f.calls(r"ecvrf::proof::hash_points$")
        if ck.anchor(len(hp) == 1, "COV", f.path, "hash_points call"):
            arr = hash_points_inputs(f, hp[0])
            ck.ob("COV", f.path, "hash_points-4", arr is not None and len(arr) == 4, "hash_points receives 4 points (H, Gamma, U, V)", f.loc(hp[0][0]))
            if arr and len(arr) == 4:
                o0 = f.origins(arr[0], deep=True)
                o1 = f.origins(arr[1], deep=True)
                ck.ob("COV", f.path, "hash_points-H", any(a[0] == "call" and a[1].endswith("hash_to_curve") for a in o0), "first point derives from hash_to_curve(message)", f.loc(hp[0][0]))
                ck.ob("COV", f.path, "hash_points-Gamma", ("arg", 2) in o1, "second point is the proof's gamma", f.loc(hp[0][0]))
                o23 = f.origins(arr[2], deep=True) | f.origins(arr[3], deep=True)
                ck.ob("COV", f.path, "hash_points-UV", ("arg", 1) in o23 and ("arg", 2) in o23, "U and V derive from key and proof", f.loc(hp[0][0]))
    g = getfn(ck, "rs", CB, V + "secret::ExpandedSecretKey::prove")
    if g:
        hp = g.calls(r"ecvrf::proof::hash_points$")
        if ck.anchor(len(hp) == 1, "COV", g.path, "hash_points call"):
            arr = hash_points_inputs(g, hp[0])
            ck.ob("COV", g.path, "hash_points-4", arr is not None and len(arr) == 4, "prover hashes 4 points like the verifier", g.loc(hp[0][0]))
        o = g.origins(0, deep=True)
        ck.ob("DEFUSE", g.path, "nonce-deterministic", any(a[0] == "call" and a[1].endswith("nonce_generation") for a in o), "the nonce comes from nonce_generation (RFC 8032 style), not from an RNG", g.loc())
    # a VRF public key must not be a point of small order (for such a key a proof with Gamma = identity verifies for every
    # message): decoding a key refuses all eight torsion points, not just the identity
    for pth in [x for x in crate("rs", CB).paths() if re.search(r"ecvrf::public::PublicKey as concordium_base::common::serialize::Deserial>::deserial$|ecvrf::public::PublicKey::verify_key$", x)]:
        kf = Fn(crate("rs", CB).get(pth))
        so = kf.calls(r"is_small_order$")
        weaker = kf.calls(r"is_identity$|IsIdentity::is_identity$")
        ok = len(so) >= 1 and not weaker
        det = "the decoded point is tested with is_small_order"
        if ok and kf.ret_kind() != "bool":
            r = rules.enforcement(kf, so[0][0], extra_fail=("bool", 1))
            ok = rules.enforced_ok(r)
            det += " and a small-order point is refused (%s)" % r["status"]
        ck.ob("CALLEE", pth, "small-order-key-refused", ok, det if ok else
              "the key's point is not tested with is_small_order (found: %s): points of order 2, 4 or 8 are accepted as keys" % [t["f"]["name"] for (_, t) in so + weaker], kf.loc())
    h = getfn(ck, "rs", CB, V + "public::PublicKey::hash_to_curve")
    if h:
        sites = h.calls(r"is_small_order$")
        ck.ob("ENF", h.path, "sites:is_small_order", len(sites) == 1, "%d is_small_order tests" % len(sites), h.loc())
        for (bi, t) in sites:
            r = guarded_accept(h, bi, failv=1)
            ck.ob("ENF", h.path, "small-order-rejected", r[0], r[1], h.loc(bi))
        sites = h.calls(r"CompressedEdwardsY::decompress$")
        for (bi, t) in sites:
            r = guarded_accept(h, bi, failv=0, enum=True)
            ck.ob("ENF", h.path, "decompress-none-rejected", r[0], r[1], h.loc(bi))
        ups = h.calls(r"digest::Update::update$|Digest::update$")
        srcs = set()
        for (bi, t) in ups:
            srcs |= h.origins(t["args"][1], deep=True)
        ck.ob("COV", h.path, "inputs-hashed", ("arg", 1) in srcs and ("arg", 2) in srcs, "public key and message are both fed to the hash", h.loc())
    # ---- determinism
    c = crate("rs", CB)
    cg = CallGraph([c])
    for root in (V + "secret::ExpandedSecretKey::prove", V + "secret::SecretKey::prove", V + "proof::Proof::to_hash",
                 V + "public::PublicKey::hash_to_curve", V + "public::PublicKey::verify", V + "proof::hash_points",
                 V + "secret::ExpandedSecretKey::nonce_generation"):
        if not ck.anchor(root in cg.bodies, "EFF", root, "function exists"):
            continue
        ch = cg.path_to_ext([root], NONDET)
        ck.ob("EFF", root, "no-nondeterminism", ch is None, "no call path to an RNG / clock / environment" if ch is None else "path: " + " -> ".join(ch), "")

    # ---- PS signatures
    P = CB + "::ps_sig::"
    f = getfn(ck, "rs", CB, P + "public::PublicKey::<C>::verify")
    if f:
        enf_calls(ck, f, r"Curve::is_zero_point$", "is_zero_point", extra_fail=("bool", 1))
        cmp_rejecting(ck, f, [("field", "0"), ("arg", 3)], [("field", "y_tildas")], "Gt", "message-longer-than-key")
        ret_from(ck, f, r"Pairing::check_pairing_eq$", "pairing-equality")
        # the pairing equation is e(sig.0, X~ * prod Y~_i^m_i) == e(sig.1, g~) with every operand from where the scheme puts it: the
        # signature's two components, the KEY's x_tilda / y_tildas and the messages, and the KEY's own g_tilda (not a library
        # constant - a key with another generator would reject its own signatures and accept those of a related key)
        for (bi, t) in f.calls(r"Pairing::check_pairing_eq$"):
            oa = [f.origins(x, deep=True) for x in t["args"]]
            okp = (len(oa) == 4 and ("field", "0") in oa[0] and ("arg", 2) in oa[0]
                   and {("field", "x_tilda"), ("field", "y_tildas"), ("arg", 3)} <= oa[1]
                   and ("field", "1") in oa[2] and ("arg", 2) in oa[2]
                   and ("field", "g_tilda") in oa[3] and not has_call_origin(oa[3], r"one_point$|generator$"))
            ck.ob("DEFUSE", f.path, "pairing-operands", okp, "e(sig.0, x_tilda * prod y_tildas^m) against e(sig.1, self.g_tilda)" if okp else
                  "an operand of the pairing equation does not come from where the scheme puts it (4th operand sources: %s)" % sorted(a for a in (oa[3] if len(oa) == 4 else []) if a[0] in ("field", "call")), f.loc(bi))
    f = getfn(ck, "rs", CB, P + "secret::SecretKey::<C>::sign_known_message")
    if f:
        cmp_rejecting(ck, f, [("arg", 2)], [("field", "ys")], "Gt", "message-longer-than-key")
    f = getfn(ck, "rs", CB, P + "signature::Signature::<C>::retrieve")
    if f:
        o = f.origins(0, deep=True)
        ck.ob("DEFUSE", f.path, "unblinds-with-r", ("arg", 2) in o and any(a[0] == "call" and a[1].endswith("minus_point") for a in o),
              "the second component has h^r removed (minus_point) using the retrieval randomness", f.loc())

    nz = zip_length_sweep(ck, c, re.compile(r"concordium_base::(ps_sig|aggregate_sig|ecvrf)"), re.compile(r"(verify|check)[a-z_0-9]*(::\{closure#\d+\})*$"))
    ck.floor("CMP", "key/message zips in signature verification", nz, 1)

    enf_module_sweep(ck, crate("rs", CB), re.compile(r"concordium_base::(aggregate_sig|ecvrf|ps_sig|eddsa_ed25519)::"), 1, "signature primitives")

    # aggregation is the group operation, unconditionally: every return of Signature::aggregate passes through plus_point on both operands
    # (a shortcut for "equal" or "neutral" operands makes the aggregate unfaithful to the signer multiset)
    f = getfn(ck, "rs", CB, A + "Signature::<P>::aggregate")
    if f:
        pp = f.calls(r"::plus_point$")
        rets = [bi for bi in f.reachable() if f.term(bi)["k"] == "return"]
        bypass = sorted(set(rets) & f.reach_from([0], avoid={bi for (bi, _) in pp}))
        o = f.origins(0, deep=True)
        both = ("arg", 1) in o and ("arg", 2) in o
        ck.ob("DOM", f.path, "aggregate-is-unconditional-point-addition", bool(pp) and not bypass and both,
              "every return passes through plus_point of both operands" if (pp and not bypass and both) else
              ("a return is reachable without adding the points: the aggregate of a repeated or neutral signature is not the sum" if bypass or not pp else "the result does not combine both operands"),
              f.loc(bypass[0]) if bypass else f.loc())

    # ---- ed25519 dlog
    D = CB + "::eddsa_ed25519::dlog_ed25519::"
    v = getfn(ck, "rs", CB, D + "verify_dlog_ed25519")
    p = getfn(ck, "rs", CB, D + "prove_dlog_ed25519")
    if v:
        enf_calls(ck, v, r"point_from_public_key$", "point_from_public_key")
        ret_from(ck, v, r"cmp::PartialEq::eq$", "challenge-equality")
    if v and p:
        sv = transcript.seq_key(transcript.sequence(v))
        sp = transcript.seq_key(transcript.sequence(p))
        ck.ob("SIB", D + "prove/verify", "transcripts-agree", sv == sp and len(sv) >= 3, "prover %s / verifier %s" % (sp, sv), v.loc(),
              sample=dict(rule="SIB", prover=sp, verifier=sv))
        ck.ob("SIB", D + "prove/verify", "transcript-reference", sv == [("append_message", "dlog_ed25519"), ("append_message", "randomised_point"), ("split", None)],
              "sequence equals the reference (protocol constant)", v.loc())

    narrowing_len_sweep(ck, crate("rs", "concordium_base"), re.compile(r"concordium_base::(ps_sig|aggregate_sig|ecvrf)"), re.compile(r"(verify|check)[a-z_0-9]*(::\{closure#\d+\})*$"))

    conditional_transcript_sweep(ck, crate("rs", "concordium_base"), re.compile(r"concordium_base::(ps_sig|aggregate_sig|ecvrf|eddsa_ed25519)"), floor=1)
    gated_verification_sweep(ck, crate("rs", "concordium_base"), re.compile(r"concordium_base::(ps_sig|aggregate_sig|ecvrf|eddsa_ed25519)"), floor=3)
    eq_polarity_sweep(ck, crate("rs", "concordium_base"), re.compile(r"concordium_base::(ps_sig|aggregate_sig|ecvrf)"), re.compile(r"(verify|check)[a-z_0-9]*(::\{closure#\d+\})*$"))
    rejecting_checks_floor(ck, crate("rs", "concordium_base"), re.compile(r"concordium_base::(ps_sig|aggregate_sig|ecvrf)"), re.compile(r"(verify|verifier|validate|check|extract_commit_message)[a-z_0-9]*(::\{closure#\d+\})*$"), "C19")


def hash_points_inputs(f, site):
    """operands of the array aggregate passed (by reference / unsizing) to hash_points"""
    bi, t = site
    seen = set()
    work = [op_place(t["args"][0])[0]]
    while work:
        l = work.pop()
        if l in seen:
            continue
        seen.add(l)
        for (b, si, it) in f.defs().get(l, []):
            if si == "t":
                continue
            rv = it["rv"]
            if rv["k"] == "agg" and rv.get("agg") == "array":
                return rv["ops"]
            for x in rules.rv_locals(rv):
                work.append(x)
    return None


def guarded_accept(fn, bi, failv, enum=False):
    """loop form of ENF: after the failing outcome of the call at bi no ACCEPT point is
    reachable without passing the deciding switch again"""
    r = rules.enforcement(fn, bi, extra_fail=(("enum", failv) if enum else ("bool", failv)))
    if rules.enforced_ok(r):
        return True, r["detail"]
    sb = r.get("switch")
    if sb is None:
        return False, r["status"] + ": " + r["detail"]
    st = fn.term(sb)
    ft = None
    for v, tb in st["t"]:
        if v == str(failv):
            ft = tb
    if ft is None:
        ft = st["o"]
    acc, _ = fn.accept_points()
    reach = fn.reach_from([ft], avoid={sb})
    bad = [a for a in acc if a in reach]
    return (not bad), ("loop form: failing value %d leads back to the test before any accept" % failv if not bad
                       else "accept point bb%s reachable from failing branch without re-test" % bad)
