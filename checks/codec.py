"""Shared codec-family checks (used by C05, C16, C10, C17)."""
from .common import *
from vlib import sym, sweeps
from vlib.callgraph import CallGraph


def pairs(c, wtrait, rtrait, wname="serial", rname="deserial"):
    ws, rs = {}, {}
    for p in c.paths():
        for b in c.get_all(p):
            if b.get("name") == wname and re.search(wtrait, b.get("impl_trait", "")):
                ws[b["impl_self"]] = b
            if b.get("name") == rname and re.search(rtrait, b.get("impl_trait", "")):
                rs[b["impl_self"]] = b
    return ws, rs


def sym_sweep(ck, c, ws, rs, floor_struct, floor_enum, rule="SYM", exceptions=None):
    exceptions = exceptions or {}
    wi = {sym.strip_lt(k): v for k, v in ws.items()}
    ri = {sym.strip_lt(k): v for k, v in rs.items()}
    nm = ne = nu = 0
    unsupported = []
    for ty in sorted(set(ws) & set(rs)):
        w, r = Fn(ws[ty]), Fn(rs[ty])
        v, d = sym.compare_struct(w, r, wi, ri)
        if v == "MATCH":
            nm += 1
            ck.ob(rule, ty, "pair", True, d, w.loc())
            continue
        if v == "MISMATCH":
            exc = exceptions.get(ty)
            ck.ob(rule, ty, "pair", exc is not None, ("documented exception: " + exc) if exc else d, r.loc())
            continue
        base = ty.split("<")[0]
        adt = None
        for cc in ([c] if not isinstance(c, list) else c):
            adt = adt or cc.adts.get(base)
        res = sym.compare_enum(w, r, base, None, wi, ri) if adt is not None and adt["kind"] == "Enum" else None
        if res is None:
            nu += 1
            unsupported.append(ty)
            continue
        for (vv, vi, dd) in res:
            vn = adt["variants"][vi]["name"] if vi < len(adt["variants"]) else str(vi)
            if vv == "MATCH":
                ne += 1
                ck.ob(rule, ty, "variant:" + vn, True, dd, w.loc())
            elif vv == "MISMATCH":
                exc = exceptions.get(ty + "::" + vn)
                ck.ob(rule, ty, "variant:" + vn, exc is not None, ("documented exception: " + exc) if exc else dd, r.loc())
            else:
                nu += 1
                unsupported.append(ty + "::" + vn)
    ck.floor(rule, "struct pairs with agreeing codec steps", nm, floor_struct)
    ck.floor(rule, "enum variants with agreeing tag, constructor and payload", ne, floor_enum)
    ck.extra.setdefault("sym_unsupported", []).extend(unsupported[:80])
    ck.note("%d pairs/variants outside the SYM abstraction (listed under sym_unsupported), not decided" % nu)


def tag_totality(ck, readers, floor, rule="TAB"):
    nt = 0
    for ty, b in sorted(readers.items()):
        f = Fn(b)
        for (sb, st, rd) in sweeps.tag_switches(f):
            nt += 1
            rr = f.reject_region()
            ck.ob(rule, f.path, "tag-totality@bb%d" % sb, st["o"] in rr,
                  "unknown values of the input-read integer (accepted: %s) lead to a rejecting return" % [v for v, _ in st["t"]][:12]
                  if st["o"] in rr else "unknown tag values are ACCEPTED (default arm bb%d does not reject)" % st["o"], f.loc(sb))
    ck.floor(rule, "input-driven tag switches", nt, floor)


def strict_order(ck, ws, cname, path):
    """an ordered-collection decoder rejects unless each new key is strictly greater than the previous key.
    'previous' must be the look-ahead element (Option::take) or the maximum of the output (last / last_key_value)."""
    f = getfn(ck, ws, cname, path)
    if not f:
        return
    PREV = r"Option::<T>::take$|BTreeSet::<T, A>::last$|BTreeMap::<K, V, A>::(last_key_value|last_entry)$"
    NOTPREV = r"BTree(Set|Map)::<.*>::(first|first_key_value|first_entry|iter|get|range)$"
    ok = False
    detail = "no comparison between the freshly read key and the previous key"
    rr = f.reject_region()
    for cx in rules.comparisons(f):
        if cx["kind"] != "call":
            continue
        oa = f.origins(cx["a"], deep=True)
        ob = f.origins(cx["b"], deep=True)
        fresh_a = has_call_origin(oa, r"Get::get$|Deserial::deserial$") and not has_call_origin(oa, PREV + "|" + NOTPREV)
        fresh_b = has_call_origin(ob, r"Get::get$|Deserial::deserial$") and not has_call_origin(ob, PREV + "|" + NOTPREV)
        if fresh_a == fresh_b:
            continue
        prev = ob if fresh_a else oa
        br = rules.cmp_branches(f, cx)
        if br is None:
            continue
        sb, t_t, f_t = br
        # relation, oriented as  new OP prev
        op = cx["op"] if fresh_a else rules.FLIP[cx["op"]]
        # which branch rejects?
        if t_t in rr and f_t not in rr:
            rej_rel = op
        elif f_t in rr and t_t not in rr:
            rej_rel = rules.NEG[op]
        else:
            detail = "the key comparison at %s does not lead to rejection" % f.loc(cx["bb"])
            continue
        if rej_rel != "Le":
            detail = "rejects when new %s previous (must reject exactly when new <= previous)" % rej_rel
            continue
        if not has_call_origin(prev, PREV) or has_call_origin(prev, NOTPREV):
            detail = "the key is compared with %s, which is not the previous (largest so far) key" % sorted(set(a[1].split("::")[-1] for a in prev if a[0] == "call"))[:4]
            continue
        ins = f.calls(r"BTree(Map|Set)::<.*>::insert$")
        rej_t = t_t if t_t in rr else f_t
        if ins and all(bi not in f.reach_from([rej_t], avoid={sb}) for (bi, _) in ins):
            ok = True
            detail = "rejects exactly when new key <= previous key (previous = look-ahead element or maximum of the output)"
    ck.ob("CMP", f.path, "strictly-increasing-keys", ok, detail, f.loc())


def alloc_err_sweep(ck, cg, roots, bounded_types=(), floor=1, err_exceptions=None, alloc_exceptions=None, scope_pred=None):
    err_exceptions = err_exceptions or {}
    alloc_exceptions = alloc_exceptions or {}
    reach = cg.reach(roots)
    ck.extra["decode_reachable_functions"] = len(reach)
    na = 0
    param_fns = {}
    for p in sorted(reach):
        if scope_pred is not None and not scope_pred(p):
            continue
        for b in cg.bodies[p]:
            f = Fn(b)
            k = 0
            for (bi, t) in f.calls(sweeps.ALLOC):
                na += 1
                cls, d = sweeps.classify_size(f, bi, t, bounded_types=bounded_types)
                key = "alloc:%s#%d" % (t["f"]["path"].split("::")[-1], k)
                k += 1
                if cls == "param":
                    param_fns[p] = (f, bi, t)
                    ck.ob("ALLOC", p, key, True, d + " (obligation moves to the call sites)", f.loc(bi), nontrivial=False)
                elif (p, key) in alloc_exceptions or p in alloc_exceptions:
                    ck.ob("ALLOC", p, key, True, "documented exception: " + alloc_exceptions.get((p, key), alloc_exceptions.get(p)), f.loc(bi), nontrivial=False)
                else:
                    ck.ob("ALLOC", p, key, cls not in ("unbounded", "unknown"), cls + ": " + d, f.loc(bi))
    ck.floor("ALLOC", "allocation sites in decode-reachable code", na, floor)
    for p, (pf, pbi, pt) in sorted(param_fns.items()):
        argidx = [a[1] for a in pf.origins(sweeps.size_operand(pt)) if a[0] == "arg"][0]
        ncall = 0
        for q in sorted(reach):
            for b in cg.bodies[q]:
                f = Fn(b)
                for (bi, t) in f.calls(re.compile(re.escape(p) + "$")):
                    ncall += 1
                    fake = {"f": {"path": "x::with_capacity"}, "args": [t["args"][argidx - 1]], "dest": t["dest"]}
                    cls, d = sweeps.classify_size(f, bi, fake, bounded_types=bounded_types)
                    if cls == "param":
                        # one more level: callers of q
                        ck.ob("ALLOC", q, "arg-of:%s@bb%d" % (p.split("::")[-1], bi), q in alloc_exceptions,
                              "length passed to %s is itself a parameter (%s)" % (p.split("::")[-1], alloc_exceptions.get(q, "no summary for the caller")), f.loc(bi))
                        continue
                    ck.ob("ALLOC", q, "arg-of:%s@bb%d" % (p.split("::")[-1], bi), cls not in ("unbounded", "unknown"),
                          "length passed to %s: %s: %s" % (p.split("::")[-1], cls, d), f.loc(bi))
        ck.note("%s: %d decode-reachable call sites checked" % (p.split("::")[-1], ncall))
    UNW = re.compile(r"(Option::<T>|Result::<T, E>)::(unwrap|expect|unwrap_unchecked)$")
    nu = 0
    for p in sorted(reach):
        if scope_pred is not None and not scope_pred(p):
            continue
        for b in cg.bodies[p]:
            f = Fn(b)
            for (bi, t) in f.calls(UNW):
                nu += 1
                o = f.origins(t["args"][0])
                rd = [a for a in o if a[0] in ("call", "outparam") and sweeps.READ.search(a[1])]
                if rd:
                    exc = err_exceptions.get(p)
                    ck.ob("ERR", p, "unwrap-on-input@bb%d" % bi, exc is not None, ("documented exception: " + exc) if exc else
                          "unwrap/expect on a value derived from %s" % [a[1].split("::")[-1] for a in rd], f.loc(bi))
    ck.extra["unwrap_sites_scanned"] = nu
    ck.ob("ERR", "-", "unwrap-sweep", True, "%d unwrap/expect sites in decode-reachable code scanned for input-derived receivers" % nu, "", nontrivial=False)
    return reach


def _array_len_of(f, op, depth=0):
    """N if the operand is a constant N or the length of a local fixed-size array `[T; N]`"""
    k = op_const(op)
    if k is not None:
        return const_int(k)
    for a in f.origins(op, deep=True):
        if a[0] == "call" and len(a) > 2 and re.search(r"::len$", a[1]):
            t = f.term(a[2])
            for x in f.origins(t["args"][0], deep=True):
                pass
            # the receiver: follow refs/unsize casts to a local of array type
            work, seen = [op_place(t["args"][0])], set()
            while work:
                q = work.pop()
                if q is None or q[0] in seen:
                    continue
                seen.add(q[0])
                m = re.match(r"^(?:&(?:mut )?)?\[.*; (\d+)\]$", f.locals[q[0]])
                if m:
                    return int(m.group(1))
                for (b2, si, it) in f.defs().get(q[0], []):
                    if si != "t":
                        rv = it["rv"]
                        work.append(rv.get("p") if rv.get("k") == "ref" else op_place(rv.get("a")) if rv.get("k") in ("use", "cast") else None)
    return None


TYPE_MAX = {"u8": 255, "u16": 65535}


def array_range_sweep(ck, c, scope, exceptions=None, rule="BOUNDS", floor=1):
    """Decoding is total: a range taken of a fixed-size array `[T; N]` with a bound that is not a constant must be dominated
    by an enforced comparison (or a `min`) that keeps the bound inside the array - `..=e` needs e <= N-1, `..e` needs e <= N."""
    exceptions = exceptions or {}
    n = 0
    for p in sorted(c.paths()):
        if not scope.search(p) or re.search(r"::tests?::|::test_", p):
            continue
        for b in c.get_all(p):
            f = Fn(b)
            for k, (bi, t) in enumerate(f.calls(r"ops::Index::index$|ops::IndexMut::index_mut$")):
                m = re.match(r"^\[.*; (\d+)\]$", t["f"].get("self", "") or "")
                if not m:
                    continue
                N = int(m.group(1))
                rb = rules.range_bounds(f, t["args"][1])
                need = []
                if rb is not None and rb[0] in ("range", "to"):
                    need = [(rb[2], N, "end")]
                elif rb is not None and rb[0] == "from":
                    need = [(rb[1], N, "start")]
                elif rb is None:
                    r0 = rules.root_local(f, t["args"][1])
                    for (b2, si, it) in (f.defs().get(r0[0], []) if r0 else []):
                        if si == "t" and re.search(r"RangeInclusive::<.*>::new$|RangeInclusive<.*>::new$", it["f"].get("path", "")):
                            need = [(it["args"][1], N - 1, "inclusive end")]
                if not need:
                    continue
                op, limit, what = need[0]
                if op_const(op) is not None:
                    continue        # constant ranges are checked by the compiler
                n += 1
                key = "%s#%d" % (p, k)
                if key in exceptions:
                    ck.ob(rule, p, "array-range-in-bounds#%d" % k, True, "documented exception: " + exceptions[key], f.loc(bi), nontrivial=False)
                    continue
                le = rules.lin(f, op)
                ok, why = False, "bound is not a linear expression of one value"
                if le is not None and not le[0]:
                    ok, why = le[1] <= limit, "the %s is the constant %d, the array admits %d" % (what, le[1], limit)
                elif le is not None and len(le[0]) == 1 and list(le[0].values()) == [1]:
                    x, cst = list(le[0])[0], le[1]
                    ub = TYPE_MAX.get(f.locals[x])
                    why = "no dominating refusal bounds the value"
                    # min(value, K)
                    for (b2, si, it) in f.defs().get(x, []):
                        if si == "t" and re.search(r"cmp::min$|Ord::min$", it["f"].get("path", "")):
                            ks = [_array_len_of(f, a) for a in it["args"]]
                            ks = [v for v in ks if v is not None]
                            if ks:
                                ub = min(ks) if ub is None else min(ub, min(ks))
                    for cx in rules.comparisons(f):
                        if cx["kind"] != "bin" or not f.dominates(cx["bb"], bi):
                            continue
                        info = {}
                        rel, d = rules.cmp_rejects(f, cx, info)
                        if rel is None or "pass_target" not in info or not f.dominates(info["pass_target"], bi):
                            continue
                        la, lb = rules.lin(f, cx["a"]), rules.lin(f, cx["b"])
                        side = None
                        if la is not None and la[0] == {x: 1}:
                            side, other, off = "a", cx["b"], la[1]
                        elif lb is not None and lb[0] == {x: 1}:
                            side, other, off = "b", cx["a"], lb[1]
                        if side is None:
                            continue
                        K = _array_len_of(f, other)
                        if K is None:
                            continue
                        if side == "b":
                            rel = rules.FLIP[rel]
                        # refuses when x + off `rel` K
                        if rel == "Gt":
                            u = K - off
                        elif rel == "Ge":
                            u = K - off - 1
                        else:
                            continue
                        ub = u if ub is None else min(ub, u)
                    if ub is not None:
                        ok = ub + cst <= limit
                        why = "the %s is at most %d, the array admits %d" % (what, ub + cst, limit)
                ck.ob(rule, p, "array-range-in-bounds#%d" % k, ok,
                      why if ok else "range %s of a %d-element array is not kept in bounds (%s): a crafted length panics the decoder" % (what, N, why), f.loc(bi))
    ck.floor(rule, "non-constant ranges of fixed-size arrays in decoders", n, floor)
    return n
