"""C11 — range and set (non-)membership proofs: structural necessary conditions."""
from .common import *
from vlib import transcript
from vlib.callgraph import CallGraph, NONDET

META = dict(
    technique="static analysis: enforcement/comparison-polarity/transcript-agreement/effect-freedom rules over compiler MIR",
    text=("Structural necessary conditions: every bulletproof verifier rejects on too few generators (orientation checked), "
          "on a failing polynomial-identity test, a failing inversion and a failing inner-product argument; the derived "
          "verifiers (a<=b, v in [a,b)) return the verdict of the underlying verification on derived commitments with the "
          "fixed bit width; prover and verifier feed the same labelled sequence to the transcript and it equals the frozen "
          "protocol reference; every public input of a verifier reaches the transcript or the final equations; verifiers "
          "reach no randomness. That proofs are accepted exactly for true statements is algebra and is not decided."),
)

CB = "concordium_base"
B = CB + "::bulletproofs::"

REF = {
    "range": ['append_message:G', 'append_message:H', 'append_message:v_keys', 'append_message:n', 'append_message:Vj',
              'append_message:A', 'append_message:S', 'extract_challenge_scalar:y', 'extract_challenge_scalar:z',
              'append_message:T1', 'append_message:T2', 'extract_challenge_scalar:x', 'append_message:tx',
              'append_message:tx_tilde', 'append_message:e_tilde', 'extract_challenge_scalar:w'],
    "smp": ['append_label:SetMembershipProof', 'append_message:G', 'append_message:H', 'append_message:v_keys',
            'append_message:V', 'append_message:theSet', 'append_message:A', 'append_message:S',
            'extract_challenge_scalar:y', 'extract_challenge_scalar:z', 'append_message:T1', 'append_message:T2',
            'extract_challenge_scalar:x', 'append_message:tx', 'append_message:tx_tilde', 'append_message:e_tilde',
            'extract_challenge_scalar:w'],
    "ip": ['append_message:Lj', 'append_message:Rj', 'extract_challenge_scalar:uj', 'append_final_prover_message:a',
           'append_final_prover_message:b'],
}
REF["snmp"] = ['append_label:SetNonMembershipProof'] + REF["smp"][1:]
# transcript entries that are NOT made on every accepting path, by protocol: the Version2 additions (generators, commitment
# key, bit width) sit behind the version test, the value commitments of an aggregated range proof inside the loop over them.
# Everything else - in particular the commitment(s) the statement is about and all prover messages - is bound unconditionally.
CONDITIONAL_OK = {"range": {"G", "H", "v_keys", "n", "Vj"}, "smp": {"G", "H", "v_keys"}, "snmp": {"G", "H", "v_keys"}}


def labels(fn):
    return ["%s:%s" % (m, l) for (m, l, _, _) in transcript.sequence(fn)]


def verifier(ck, path, prover, kind, ip_pat, nparams, skip_params=()):
    f = getfn(ck, "rs", CB, path)
    p = getfn(ck, "rs", CB, prover)
    if not f:
        return
    cmp_rejecting(ck, f, [("field", "G_H"), ("call", r"::len$")], [], "Lt", "too-few-generators")
    sites = f.calls(r"Curve::is_zero_point$")
    ck.ob("ENF", f.path, "sites:is_zero_point", len(sites) == 1, "%d polynomial-identity tests" % len(sites), f.loc())
    for (bi, t) in sites:
        r = rules.enforcement(f, bi)
        ck.ob("ENF", f.path, "identity-test", rules.enforced_ok(r), r["status"] + ": " + r["detail"], f.loc(bi))
    enf_calls(ck, f, r"Field::inverse$", "y.inverse")
    enf_calls(ck, f, ip_pat, "inner-product verification")
    acc, rej = f.accept_points()
    ck.ob("RET", f.path, "single-accept", len(acc) == 1, "%d accepting returns, %d rejecting" % (len(acc), len(rej)), f.loc())
    # transcript agreement
    lv = labels(f)
    ck.ob("SIB", f.path, "transcript-reference", lv == REF[kind], "verifier sequence %s" % lv, f.loc(), sample=dict(rule="SIB", function=f.path, transcript=lv))
    if p:
        lp = labels(p)
        ck.ob("SIB", f.path, "prover-agrees", lp == lv, "prover sequence equals verifier sequence" if lp == lv else "prover %s" % lp, p.loc())
    for g in [f] + ([p] if p else []):
        acc_g, _ = g.accept_points()
        cond = sorted(set(l for (m, l, _, bi) in transcript.sequence(g) if not all(g.dominates(bi, a) for a in acc_g)))
        extra = [l for l in cond if l not in CONDITIONAL_OK.get(kind, set())]
        ck.ob("DOM", g.path, "transcript-entries-unconditional", not extra,
              "only %s are version-gated or looped; every other entry is made on every accepting path" % sorted(CONDITIONAL_OK.get(kind, set())) if not extra else
              "transcript entries %s are made on some paths only: on the other paths the challenges do not depend on them" % extra, g.loc())
    # every public input reaches the transcript or the equations
    srcs = set()
    for (bi, t) in f.calls(r"random_oracle::.*::append_(message|label|messages)$|curve_arithmetic::multiexp$|" + ip_pat + r"|Curve::(mul_by_scalar|plus_point|minus_point)$"):
        for a in t["args"]:
            srcs |= f.origins(a, deep=True)
    for i in range(1, nparams + 1):
        if i in skip_params:
            continue
        ck.ob("COV", f.path, "param%d-used" % i, ("arg", i) in srcs, "parameter %d (%s) reaches the transcript or the verification equations" % (i, f.b["inputs"][i - 1][:60]), f.loc())


def run(ck):
    ck.explanation = ("Decides enforcement of each verification equation and precondition in the bulletproof verifiers, "
                      "prover/verifier transcript agreement against a frozen reference, the wiring of the derived verifiers, "
                      "coverage of public inputs and effect freedom of verifiers.")
    ck.undecided = "that proofs are accepted exactly for true statements (algebra), boundary values, zero-knowledge."
    ck.rules_text = "CMP/ENF/RET/SIB/COV/EFF over MIR of concordium_base::bulletproofs"

    verifier(ck, B + "range_proof::verify_efficient", B + "range_proof::prove", "range", r"inner_product_proof::verify_inner_product_with_scalars$", 7, skip_params=(1,))
    verifier(ck, B + "set_membership_proof::verify", B + "set_membership_proof::prove", "smp", r"inner_product_proof::verify_inner_product_with_scalars$", 7, skip_params=(1,))
    # the prover's indicator vector has EXACTLY one 1: in a_L_a_R the bit is set - and the "found" flag raised - only while the
    # flag is still false. The set is padded to a power of two by repeating its last element, so without that guard a proof for
    # the last element of a padded set carries several 1s and the verifier (rightly) refuses it: a true statement is not provable
    af = getfn(ck, "rs", CB, B + "set_membership_proof::a_L_a_R")
    if af:
        flags = {}
        for bi in sorted(af.reachable()):
            for st in af.stmts(bi):
                rv = st.get("rv", {})
                k = op_const(rv.get("a")) if rv.get("k") == "use" else None
                if k is not None and k.get("ty") == "bool" and "lhs" in st and not st["lhs"][1]:
                    flags.setdefault(st["lhs"][0], {}).setdefault(const_int(k), []).append(bi)
        raised = [(l, b1) for l, d in flags.items() if 0 in d and 1 in d for b1 in d[1] if any(af.dominates(b0, b1) for b0 in d[0]) and any(b1 in lp for lp in natural_loops(af))]
        okf = False
        for (l, b1) in raised:
            for (kind, names, val) in rules.conditions_at(af, b1):
                if kind == "bool" and names <= frozenset({"lit0", "lit1"}) and val is False:
                    okf = True
        ck.ob("DOM", af.path, "indicator-has-a-single-one", bool(raised) and okf,
              "the indicator bit is set only while the found flag is still false" if raised and okf else
              "the indicator bit is set for every position equal to the value (no test of the found flag on that path): with the set padded by repeating its last element the proof for that element has several 1s and does not verify", af.loc(raised[0][1]) if raised else af.loc())
    verifier(ck, B + "set_non_membership_proof::verify", B + "set_non_membership_proof::prove", "snmp", r"inner_product_proof::verify_inner_product_with_scalars$", 7, skip_params=(1,))

    f = getfn(ck, "rs", CB, B + "range_proof::verify_efficient")
    if f:
        # nm = n * m with m = commitments.len()
        found = rules.find_cmp(f, [("field", "G_H")], [("arg", 3), ("arg", 4), ("bin", "MulWithOverflow")])
        ck.ob("CMP", f.path, "generators-vs-n*m", any(x[1] == "Lt" for x in found), "G_H.len() < n*m rejects (n and the number of commitments both feed the bound)", f.loc())

    # inner product: prover/verifier agreement
    ipp = getfn(ck, "rs", CB, B + "inner_product_proof::prove_inner_product_with_scalars")
    ipv = getfn(ck, "rs", CB, B + "inner_product_proof::verify_scalars")
    if ipp and ipv:
        lp, lv = labels(ipp), labels(ipv)
        ck.ob("SIB", ipv.path, "transcript-reference", lv == REF["ip"], "verifier sequence %s" % lv, ipv.loc())
        ck.ob("SIB", ipv.path, "prover-agrees", lp == lv, "prover %s" % lp, ipp.loc())
        enf_calls(ck, ipv, r"Field::inverse$", "u_j.inverse", floor=0)
    if ipv:
        # the number of rounds is tied to the vector length: n = 2^k with k = lr_vec.len(). Without this test a proof for
        # n = 0 (empty set) is checked against misaligned bases/exponents that multiexp silently zip-truncates, and a proof
        # with too few rounds indexes u_sq below zero
        tied = []
        POW = r"checked_shl$|::pow$|::checked_pow$|trailing_zeros$|::ilog2$|is_power_of_two$|::shl$"
        cl_pow = False
        c0 = crate("rs", CB)
        for cp in [p2 for p2 in c0.paths() if p2.startswith(ipv.path + "::{closure")]:
            for cb in c0.get_all(cp):
                gcl = Fn(cb)
                if gcl.calls(POW) or any(st.get("rv", {}).get("k") == "bin" and st["rv"]["op"].startswith("Shl") for bi in gcl.reachable() for st in gcl.stmts(bi)):
                    cl_pow = True
        for cx in rules.comparisons(ipv):
            rel, d = rules.cmp_rejects(ipv, cx)
            o = ipv.origins(cx["a"], deep=True) | ipv.origins(cx["b"], deep=True)
            power = any(a[0] == "bin" and a[1].startswith("Shl") for a in o) or has_call_origin(o, POW) or (cl_pow and has_call_origin(o, r"Option::<T>::(and_then|map)$"))
            if rel == "Ne" and ("arg", 2) in o and ("field", "lr_vec") in o and power:
                tied.append(cx)
        ck.ob("CMP", ipv.path, "rounds-tied-to-vector-length", len(tied) >= 1,
              "rejects unless n == 2^(number of (L, R) pairs)" if tied else
              "no enforced relation between n and the number of (L, R) pairs: for n = 0 (empty set) the final equation is evaluated on misaligned, zip-truncated bases and exponents and can be satisfied by a forger; too few pairs index u_sq out of range", ipv.loc())
    g = getfn(ck, "rs", CB, B + "inner_product_proof::verify_inner_product_with_scalars")
    if g:
        enf_calls(ck, g, r"inner_product_proof::verify_scalars$", "verify_scalars")
        o = g.origins(0, deep=True)
        ck.ob("RET", g.path, "verdict", has_call_origin(o, r"Curve::is_zero_point$"), "the verdict is the final is_zero_point test", g.loc())
    g = getfn(ck, "rs", CB, B + "inner_product_proof::verify_inner_product")
    if g:
        enf_calls(ck, g, r"inner_product_proof::verify_inner_product_with_scalars$", "with_scalars")

    # derived verifiers
    f = getfn(ck, "rs", CB, B + "range_proof::verify_less_than_or_equal")
    if f:
        sites = enf_calls(ck, f, r"range_proof::verify_efficient$", "verify_efficient")
        for (bi, t) in sites:
            arr = array_ops(f, t["args"][3])
            ok = arr is not None and len(arr) == 2
            ck.ob("DEFUSE", f.path, "two-commitments", ok, "verify_efficient receives [b-a, a]", f.loc(bi))
            if ok:
                o0 = f.origins(arr[0], deep=True)
                o1 = f.origins(arr[1], deep=True)
                ck.ob("DEFUSE", f.path, "difference-b-minus-a", ("arg", 3) in o0 and ("arg", 4) in o0 and has_call_origin(o0, r"Curve::minus_point$"), "first commitment is commitment_b - commitment_a", f.loc(bi))
                ck.ob("DEFUSE", f.path, "a-itself", ("arg", 3) in o1 and ("arg", 4) not in o1, "second commitment is commitment_a", f.loc(bi))
            for (mb, mt) in f.calls(r"Curve::minus_point$"):
                oa = f.origins(mt["args"][0], deep=True)
                ob = f.origins(mt["args"][1], deep=True)
                ck.ob("DEFUSE", f.path, "minus-orientation", ("arg", 4) in oa and ("arg", 3) in ob, "b.minus_point(a), not a.minus_point(b)", f.loc(mb))
            ck.ob("DEFUSE", f.path, "n-forwarded", ("arg", 2) in f.origins(t["args"][2]), "bit width n is forwarded", f.loc(bi))
    f = getfn(ck, "rs", CB, B + "range_proof::verify_in_range")
    if f:
        sites = enf_calls(ck, f, r"range_proof::verify_efficient$", "verify_efficient")
        for (bi, t) in sites:
            k = op_const(t["args"][2])
            ck.ob("CONST", f.path, "64-bits", k is not None and const_int(k) == 64, "range is proved at 64 bits", f.loc(bi))
            arr = array_ops(f, t["args"][3])
            ok = arr is not None and len(arr) == 2
            ck.ob("DEFUSE", f.path, "two-commitments", ok, "verify_efficient receives [v-b+2^n, v-a]", f.loc(bi))
            if ok:
                o0 = f.origins(arr[0], deep=True)
                o1 = f.origins(arr[1], deep=True)
                ck.ob("DEFUSE", f.path, "upper-bound-term", ("arg", 6) in o0 and ("arg", 7) in o0 and ("lit", 64) in o0 and ("arg", 5) not in o0, "first commitment combines c, b and 2^64", f.loc(bi))
                ck.ob("DEFUSE", f.path, "lower-bound-term", ("arg", 5) in o1 and ("arg", 7) in o1 and ("arg", 6) not in o1, "second commitment combines c and a", f.loc(bi))

    enf_module_sweep(ck, crate("rs", CB), re.compile(r"concordium_base::bulletproofs::"), 1, "bulletproofs")

    # every component of a proof is consumed whole: verifiers neither truncate a vector that is part of the proof nor
    # accept a longer one (a surplus element that is ignored is a component that can be altered freely)
    c = crate("rs", CB)
    TRUNC = re.compile(r"ops::Index::index$|ops::IndexMut::index_mut$|slice::<impl \[T\]>::(get|split_at|split_first|split_last|first|last|chunks|windows|iter)$|"
                       r"iter::Iterator::(take|skip|step_by|take_while|skip_while)$|vec::Vec::<.*>::(truncate|drain|split_off)$")
    nv = ncmp = 0
    for pth in sorted(c.paths()):
        if not re.search(r"concordium_base::bulletproofs::(range_proof|inner_product_proof|set_membership_proof|set_non_membership_proof)::verify[a-z_]*$", pth):
            continue
        for b in c.get_all(pth):
            g = Fn(b)
            pargs = [i + 1 for i, ty in enumerate(g.b["inputs"]) if re.search(r"Proof<", ty)]
            if not pargs:
                continue
            nv += 1
            for (bi, t) in g.calls(TRUNC):
                ff = t["f"]
                if ff["name"] in ("index", "index_mut"):
                    it = " ".join(ff.get("gargs") or []) + " " + (ff.get("res") or "")
                    if "Range" not in it:
                        continue        # single element access
                elif ff["name"] in ("iter",):
                    continue
                o = g.origins(t["args"][0], deep=True)
                if any(("arg", i) in o for i in pargs) and any(a[0] == "field" for a in o) and not any(a[0] == "call" and a[1].endswith("verify_scalars") for a in o):
                    ck.ob("COV", pth, "proof-component-truncated@%s" % ff["name"], False,
                          "a vector that is part of the proof is cut with %s before use: the remaining elements are not verified and can be altered or appended freely" % ff["name"], g.loc(bi))
            # a one-sided bound is harmless next to an exact test of the same length (e.g. an overflow guard before `1 << k`)
            exact_elsewhere = False
            for cx in rules.comparisons(g):
                rel0, _d0 = rules.cmp_rejects(g, cx)
                o0 = g.origins(cx["a"], deep=True) | g.origins(cx["b"], deep=True)
                if rel0 == "Ne" and any(a[0] == "call" and a[1].endswith("::len") for a in o0) and any(("arg", i) in o0 for i in pargs):
                    exact_elsewhere = True
            for cx in rules.comparisons(g):
                oa = g.origins(cx["a"], deep=True)
                ob = g.origins(cx["b"], deep=True)
                for (x, y) in ((oa, ob), (ob, oa)):
                    if sum(1 for a in x if a[0] == "call" and a[1].endswith("::len")) == 1 and any(("arg", i) in x for i in pargs) and not any(a[0] == "bin" for a in x):
                        rel, d = rules.cmp_rejects(g, cx)
                        if rel is None:
                            continue
                        ncmp += 1
                        if rel != "Ne" and exact_elsewhere:
                            ck.ob("CMP", pth, "proof-length-exact@bb%d" % cx["bb"], True, "one-sided bound next to an exact test of the same length", g.loc(cx["bb"]), nontrivial=False)
                            continue
                        ck.ob("CMP", pth, "proof-length-exact@bb%d" % cx["bb"], rel == "Ne",
                              "the length of a proof vector is compared for equality (rejects when Ne)" if rel == "Ne" else
                              "the length of a proof vector is only bounded (rejects when %s): a proof with surplus elements is not rejected here" % rel, g.loc(cx["bb"]))
    ck.floor("COV", "bulletproof verifier functions taking a proof", nv, 5)
    ck.ob("COV", "bulletproofs verifiers", "no-proof-truncation", True, "%d verifier functions scanned for truncating accesses to proof vectors; %d rejecting proof-length comparisons" % (nv, ncmp), "", nontrivial=False)
    nz = zip_length_sweep(ck, c, re.compile(r"concordium_base::bulletproofs::"), re.compile(r"verify[a-z_0-9]*(::\{closure#\d+\})*$"), disjoint_args=True)
    ck.ob("CMP", "bulletproofs verifiers", "zip-sites", True, "%d zips of independently supplied sequences in verifiers" % nz, "", nontrivial=False)

    # effect freedom of verifiers
    cg = CallGraph([c])
    for root in (B + "range_proof::verify_efficient", B + "range_proof::verify_less_than_or_equal", B + "range_proof::verify_in_range",
                 B + "set_membership_proof::verify", B + "set_non_membership_proof::verify", B + "inner_product_proof::verify_inner_product"):
        if ck.anchor(root in cg.bodies, "EFF", root, "function exists"):
            ch = cg.path_to_ext([root], NONDET)
            ck.ob("EFF", root, "no-nondeterminism", ch is None, "no call path to RNG/clock/env" if ch is None else " -> ".join(ch), "")

    narrowing_len_sweep(ck, crate("rs", "concordium_base"), re.compile(r"concordium_base::bulletproofs::"), re.compile(r"verify[a-z_0-9]*(::\{closure#\d+\})*$"))

    geometric_weight_sweep(ck, crate("rs", "concordium_base"), re.compile(r"concordium_base::bulletproofs::"), floor=5)
    eq_polarity_sweep(ck, crate("rs", "concordium_base"), re.compile(r"concordium_base::bulletproofs::"), re.compile(r"verify[a-z_0-9]*(::\{closure#\d+\})*$"))
    rejecting_checks_floor(ck, crate("rs", "concordium_base"), re.compile(r"concordium_base::bulletproofs::"), re.compile(r"(verify|verifier|validate|check|extract_commit_message)[a-z_0-9]*(::\{closure#\d+\})*$"), "C11")


def array_ops(f, op):
    seen = set()
    p = op_place(op)
    if p is None:
        return None
    work = [p[0]]
    while work:
        l = work.pop()
        if l in seen:
            continue
        seen.add(l)
        for (b, si, it) in f.defs().get(l, []):
            if si == "t":
                continue
            rv = it["rv"]
            if rv["k"] == "agg" and rv.get("agg") == "array":
                return rv["ops"]
            for x in rules.rv_locals(rv):
                work.append(x)
    return None
