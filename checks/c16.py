"""C16 — contract-side serialisation and value types (structural part)."""
from .common import *
from .codec import *

META = dict(
    technique="static analysis: codec-token symmetry, tag-totality, comparison-polarity, bounded-allocation, who-may-call and no-overflow-assert rules over compiler MIR",
    text=("Structural necessary conditions: for every Serial/Deserial pair of concordium-contracts-common the ordered codec steps "
          "agree between writer and reader (per enum variant: tag, constructor, payload); unknown tags reject; ordered maps and sets "
          "reject unless keys strictly increase and the unchecked variants are reachable only from the schema/context-directed "
          "decoders; pre-allocations in decode-reachable code are bounded; no unwrap on input-derived values; the checked "
          "arithmetic of Amount, Duration and Timestamp goes through the integer checked_* primitives and contains no overflow "
          "assertion, wrapping or saturating operation. Print/parse inversion and grammar exactness of textual forms are NOT decided."),
)

CC = "concordium_contracts_common"
SYM_EXC = {
    "std::string::String": "Serial writes str (u32 length + bytes); Deserial reads Vec<u8> (u32 length + bytes) and validates UTF-8: same wire shape",
}
ALLOC_EXC = {
    "<concordium_contracts_common::OwnedPolicy as concordium_contracts_common::Deserial>::deserial":
        "capacity is a u16 read (<= 65535 entries of 33 bytes, about 2 MiB): inside the stated ceiling",
}


def run(ck):
    ck.explanation = ("Decides writer/reader agreement of codec steps for every Serial/Deserial pair of the contract-side library, "
                      "tag totality, strict ordering of ordered collections, bounded pre-allocation, and that checked arithmetic "
                      "cannot panic or wrap.")
    ck.undecided = "value-level round trips; parse(print(v)) == v for textual forms; exact grammar of names; ExchangeRates conversions."
    ck.rules_text = "SYM/TAB/CMP/ALLOC/ERR/WHO/CALLEE over MIR of concordium_contracts_common"
    c = crate("rs", CC)
    ws, rs = pairs(c, r"concordium_contracts_common::(traits::)?Serial$", r"concordium_contracts_common::(traits::)?Deserial$")
    npairs = len(set(ws) & set(rs))
    ck.floor("SYM", "Serial/Deserial pairs", npairs, 60)
    sym_sweep(ck, c, ws, rs, 40, 10, exceptions=SYM_EXC)
    tag_totality(ck, rs, 8)
    for name in ("deserial_map_no_length", "deserial_set_no_length"):
        strict_order(ck, "rs", CC, CC + "::impls::" + name)
    # the unchecked variants are used only by the context/schema-directed decoders
    cg = CallGraph([c])
    for name in ("deserial_map_no_length_no_order_check", "deserial_set_no_length_no_order_check"):
        cal = cg.callers(re.compile(r"impls::" + name + "$"))
        ck.ob("WHO", CC + "::impls::" + name, "has-callers", len(cal) >= 1, "%d callers" % len(cal), "", nontrivial=False)
        for x in sorted(cal):
            ok = bool(re.search(r"DeserialCtx.*::deserial_ctx$|concordium_contracts_common::schema::", x))
            ck.ob("WHO", CC + "::impls::" + name, "caller:" + x, ok,
                  "order-unchecked decoding is confined to the schema/context-directed decoders" if ok else
                  "an ordered collection is decoded WITHOUT the strict-order check: unordered input is accepted", "")
    roots = [p for p in cg.bodies if p.endswith("::deserial") and re.search(r"concordium_contracts_common::(traits::)?Deserial", p)]
    alloc_err_sweep(ck, cg, roots, floor=2, alloc_exceptions=ALLOC_EXC, scope_pred=lambda p: "schema_json" not in p)

    # checked arithmetic
    n = 0
    for p in sorted(c.paths()):
        m = re.match(r"^concordium_contracts_common::(types::)?(Amount|Duration|Timestamp)::(checked_[a-z_]+)$", p)
        if not m:
            continue
        f = Fn(c.get(p))
        n += 1
        asserts = [bi for bi in f.reachable() if f.term(bi)["k"] == "assert" and "Overflow" in f.term(bi).get("mk", "") + f.term(bi).get("msg", "")]
        ck.ob("CALLEE", p, "no-overflow-assert", not asserts, "no arithmetic overflow assertion (would panic in debug, wrap in release)", f.loc())
        bad = f.calls(r"::(wrapping_|saturating_|overflowing_|unchecked_)[a-z_]+$")
        ck.ob("CALLEE", p, "no-wrapping", not bad, "no wrapping/saturating/unchecked integer operation", f.loc())
        prim = f.calls(r"num::<impl u64>::checked_[a-z_]+$|::checked_(add|sub|mul|div|rem)$")
        o = f.origins(0, deep=True)
        ck.ob("CALLEE", p, "uses-checked-primitive", len(prim) >= 1 and has_call_origin(o, r"checked_(add|sub|mul|div|rem)$"), "the result derives from an integer checked_* primitive", f.loc())
        # raw arithmetic on the operands is absent
        raw = [s for bi in f.reachable() for s in f.stmts(bi) if s.get("rv", {}).get("k") == "bin" and re.match(r"^(Add|Sub|Mul)", s["rv"]["op"])]
        ck.ob("CALLEE", p, "no-raw-arithmetic", not raw, "no unchecked +,-,* on the operands", f.loc())
    ck.floor("CALLEE", "checked_* functions on Amount/Duration/Timestamp", n, 6)

    # textual forms: a receive name is printed as <contract>.<entrypoint>; contract names cannot contain '.', entrypoint
    # names can, so the parser must cut at the FIRST dot. Duration parsing cuts each token at the first non-digit.
    FWD = r"str::<impl str>::(splitn|split_once|find|split|split_terminator|split_inclusive)$"
    REV = r"str::<impl str>::(rsplitn|rsplit_once|rfind|rsplit|rsplit_terminator|rmatches|rmatch_indices)$"
    for path, sep, what in ((CC + "::types::ReceiveName::<'a>::get_name_parts", 46, "contract/entrypoint separator '.'"),
                            ("<" + CC + "::types::Duration as std::str::FromStr>::from_str", None, "number/unit boundary")):
        f = getfn(ck, "rs", CC, path)
        if not f:
            continue
        fw, rv = f.calls(FWD), f.calls(REV)
        ok = len(fw) >= 1 and not rv
        if ok and sep is not None:
            ok = any(any(op_const(a) is not None and op_const(a).get("ty") == "char" and const_int(op_const(a)) == sep for a in t["args"]) for (_, t) in fw)
            for (_, t) in fw:
                if t["f"]["name"] == "splitn":
                    ok = ok and any(op_const(a) is not None and op_const(a).get("ty") == "usize" and const_int(op_const(a)) == 2 for a in t["args"])
        ck.ob("CALLEE", path, "cuts-at-first-separator", ok,
              "%s is located from the left (%s)" % (what, [t["f"]["name"] for (_, t) in fw]) if ok else
              "%s is not located from the left with the expected separator (forward: %s, reverse: %s): names whose later part contains the separator are split wrongly"
              % (what, [t["f"]["name"] for (_, t) in fw], [t["f"]["name"] for (_, t) in rv]), f.loc())
