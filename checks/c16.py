"""C16 — contract-side serialisation and value types (structural part)."""
from .common import *
from .codec import *

META = dict(
    technique="static analysis: codec-token symmetry, tag-totality, comparison-polarity, bounded-allocation, who-may-call and no-overflow-assert rules over compiler MIR",
    text=("Structural necessary conditions: for every Serial/Deserial pair of concordium-contracts-common the ordered codec steps "
          "agree between writer and reader (per enum variant: tag, constructor, payload); unknown tags reject; ordered maps and sets "
          "reject unless keys strictly increase and the unchecked variants are reachable only from the schema/context-directed "
          "decoders; pre-allocations in decode-reachable code are bounded; no unwrap on input-derived values; the checked "
          "arithmetic of Amount, Duration and Timestamp goes through the integer checked_* primitives and contains no overflow "
          "assertion, wrapping or saturating operation. Print/parse inversion and grammar exactness of textual forms are NOT decided."),
)

CC = "concordium_contracts_common"
SYM_EXC = {
    "std::string::String": "Serial writes str (u32 length + bytes); Deserial reads Vec<u8> (u32 length + bytes) and validates UTF-8: same wire shape",
}
ALLOC_EXC = {
    "<concordium_contracts_common::OwnedPolicy as concordium_contracts_common::Deserial>::deserial":
        "capacity is a u16 read (<= 65535 entries of 33 bytes, about 2 MiB): inside the stated ceiling",
}


from vlib import sym


def run(ck):
    ck.explanation = ("Decides writer/reader agreement of codec steps for every Serial/Deserial pair of the contract-side library, "
                      "tag totality, strict ordering of ordered collections, bounded pre-allocation, and that checked arithmetic "
                      "cannot panic or wrap.")
    ck.undecided = "value-level round trips; parse(print(v)) == v for textual forms; exact grammar of names; ExchangeRates conversions."
    ck.rules_text = "SYM/TAB/CMP/ALLOC/ERR/WHO/CALLEE over MIR of concordium_contracts_common"
    c = crate("rs", CC)
    ws, rs = pairs(c, r"concordium_contracts_common::(traits::)?Serial$", r"concordium_contracts_common::(traits::)?Deserial$")
    npairs = len(set(ws) & set(rs))
    ck.floor("SYM", "Serial/Deserial pairs", npairs, 60)
    sym_sweep(ck, c, ws, rs, 40, 10, exceptions=SYM_EXC)
    tag_totality(ck, rs, 8)
    # schema-directed (length-prefixed) forms and the element helpers they share with the plain forms
    nctx = 0
    cw, cr = pairs(c, r"SerialCtx$", r"DeserialCtx$", "serial_ctx", "deserial_ctx")
    for ty in sorted(set(cw) & set(cr)):
        w, r = Fn(cw[ty]), Fn(cr[ty])

        def norm(f, side):
            out = []
            for t in sym.tokens(f, side):
                k = sym.canon(t)[0]
                k = ("LEN",) if k[0] == "X" and k[1] in ("serial_length", "deserial_length") else k
                if not out or out[-1] != k:
                    out.append(k)
            return out
        tw, tr = norm(w, "w"), norm(r, "r")
        if any(k[0] == "X" for k in tw):
            continue        # the writer delegates to the slice form; nothing to compare at this level
        nctx += 1
        ck.ob("SYM", ty, "ctx-pair", tw == tr, "length prefix, then the shared element helper: %s" % tw if tw == tr else "writer %s / reader %s" % (tw, tr), w.loc())
    ck.floor("SYM", "SerialCtx/DeserialCtx collection pairs", nctx, 4)
    nh = 0
    for nm in ("vector", "map", "hashmap", "set", "hashset"):
        wb, rb = c.get_all(CC + "::impls::serial_%s_no_length" % nm), c.get_all(CC + "::impls::deserial_%s_no_length" % nm)
        if not ck.anchor(len(wb) == 1 and len(rb) == 1, "SYM", nm + "_no_length", "helper pair exists"):
            continue
        w, r = Fn(wb[0]), Fn(rb[0])
        tw, tr = [sym.canon(t)[0] for t in sym.tokens(w, "w")], [sym.canon(t)[0] for t in sym.tokens(r, "r")]
        nh += 1
        ck.ob("SYM", CC + "::impls::*_%s_no_length" % nm, "helper-pair", tw == tr and len(tw) >= 1,
              "per element the writer writes and the reader reads %s" % tw if tw == tr and tw else "writer writes %s per element, reader reads %s" % (tw, tr), w.loc())
    ck.floor("SYM", "element helper pairs", nh, 5)
    for name in ("deserial_map_no_length", "deserial_set_no_length"):
        strict_order(ck, "rs", CC, CC + "::impls::" + name)
    # the unchecked variants are used only by the context/schema-directed decoders
    cg = CallGraph([c])
    for name in ("deserial_map_no_length_no_order_check", "deserial_set_no_length_no_order_check"):
        cal = cg.callers(re.compile(r"impls::" + name + "$"))
        ck.ob("WHO", CC + "::impls::" + name, "has-callers", len(cal) >= 1, "%d callers" % len(cal), "", nontrivial=False)
        for x in sorted(cal):
            ok = bool(re.search(r"DeserialCtx.*::deserial_ctx$|concordium_contracts_common::schema::", x))
            ck.ob("WHO", CC + "::impls::" + name, "caller:" + x, ok,
                  "order-unchecked decoding is confined to the schema/context-directed decoders" if ok else
                  "an ordered collection is decoded WITHOUT the strict-order check: unordered input is accepted", "")
    roots = [p for p in cg.bodies if p.endswith("::deserial") and re.search(r"concordium_contracts_common::(traits::)?Deserial", p)]
    alloc_err_sweep(ck, cg, roots, floor=2, alloc_exceptions=ALLOC_EXC, scope_pred=lambda p: "schema_json" not in p)

    # checked arithmetic
    n = 0
    for p in sorted(c.paths()):
        m = re.match(r"^concordium_contracts_common::(types::)?(Amount|Duration|Timestamp)::(checked_[a-z_]+)$", p)
        if not m:
            continue
        f = Fn(c.get(p))
        n += 1
        asserts = [bi for bi in f.reachable() if f.term(bi)["k"] == "assert" and "Overflow" in f.term(bi).get("mk", "") + f.term(bi).get("msg", "")]
        ck.ob("CALLEE", p, "no-overflow-assert", not asserts, "no arithmetic overflow assertion (would panic in debug, wrap in release)", f.loc())
        bad = f.calls(r"::(wrapping_|saturating_|overflowing_|unchecked_)[a-z_]+$")
        ck.ob("CALLEE", p, "no-wrapping", not bad, "no wrapping/saturating/unchecked integer operation", f.loc())
        prim = f.calls(r"num::<impl u64>::checked_[a-z_]+$|::checked_(add|sub|mul|div|rem)$")
        o = f.origins(0, deep=True)
        ck.ob("CALLEE", p, "uses-checked-primitive", len(prim) >= 1 and has_call_origin(o, r"checked_(add|sub|mul|div|rem)$"), "the result derives from an integer checked_* primitive", f.loc())
        # raw arithmetic on the operands is absent
        raw = [s for bi in f.reachable() for s in f.stmts(bi) if s.get("rv", {}).get("k") == "bin" and re.match(r"^(Add|Sub|Mul)", s["rv"]["op"])]
        ck.ob("CALLEE", p, "no-raw-arithmetic", not raw, "no unchecked +,-,* on the operands", f.loc())
    ck.floor("CALLEE", "checked_* functions on Amount/Duration/Timestamp", n, 6)

    # textual forms: a receive name is printed as <contract>.<entrypoint>; contract names cannot contain '.', entrypoint
    # names can, so the parser must cut at the FIRST dot. Duration parsing cuts each token at the first non-digit.
    FWD = r"str::<impl str>::(splitn|split_once|find|split|split_terminator|split_inclusive)$"
    REV = r"str::<impl str>::(rsplitn|rsplit_once|rfind|rsplit|rsplit_terminator|rmatches|rmatch_indices)$"
    for path, sep, what in ((CC + "::types::ReceiveName::<'a>::get_name_parts", 46, "contract/entrypoint separator '.'"),
                            ("<" + CC + "::types::Duration as std::str::FromStr>::from_str", None, "number/unit boundary")):
        f = getfn(ck, "rs", CC, path)
        if not f:
            continue
        fw, rv = f.calls(FWD), f.calls(REV)
        ok = len(fw) >= 1 and not rv
        if ok and sep is not None:
            ok = any(any(op_const(a) is not None and op_const(a).get("ty") == "char" and const_int(op_const(a)) == sep for a in t["args"]) for (_, t) in fw)
            for (_, t) in fw:
                if t["f"]["name"] == "splitn":
                    ok = ok and any(op_const(a) is not None and op_const(a).get("ty") == "usize" and const_int(op_const(a)) == 2 for a in t["args"])
        ck.ob("CALLEE", path, "cuts-at-first-separator", ok,
              "%s is located from the left (%s)" % (what, [t["f"]["name"] for (_, t) in fw]) if ok else
              "%s is not located from the left with the expected separator (forward: %s, reverse: %s): names whose later part contains the separator are split wrongly"
              % (what, [t["f"]["name"] for (_, t) in fw], [t["f"]["name"] for (_, t) in rv]), f.loc())
    name_grammar_rules(ck)
    # Timestamp / Duration text forms: the numeric part is parsed at the width of the stored value (u64 milliseconds): parsing
    # through a narrower or signed type refuses values the type can hold and print
    for tyname in ("Timestamp", "Duration"):
        g = getfn(ck, "rs", CC, "<" + CC + "::types::" + tyname + " as std::str::FromStr>::from_str")
        if not g:
            continue
        # parse::<T>() carries the target as its last generic argument, <T as FromStr>::from_str / T::from_str_radix as the Self type
        ps_ = [(bi, (t["f"].get("gargs") or [""])[-1]) for (bi, t) in g.calls(r"str::<impl str>::parse$")]
        ps_ += [(bi, (t["f"].get("gargs") or [""])[0]) for (bi, t) in g.calls(r"^std::str::FromStr::from_str$")]
        ps_ += [(bi, m_.group(1) or m_.group(2)) for (bi, t) in g.calls(r"from_str_radix$") for m_ in [re.search(r"<impl (\w+)>::from_str_radix$|num::(\w+)::from_str_radix$", t["f"].get("path") or "")] if m_]
        okp = len(ps_) >= 1 and all(ty_ == "u64" for (_, ty_) in ps_)
        ck.ob("CALLEE", g.path, "numeric-part-parsed-as-u64", okp, "the number is parsed as u64, the width of the stored milliseconds" if okp else
              "the numeric part is parsed as %s: values the type holds (and prints) do not parse back" % sorted(set(ty_ for (_, ty_) in ps_)), g.loc(ps_[0][0]) if ps_ else g.loc())
    # Amount text form: every representable amount parses back. Digits are accumulated with checked_mul(10) / checked_add(d)
    # only - a hand-written overflow guard in front of a raw `acc * 10 + d` refuses (or wraps for) values next to u64::MAX
    AP = "<" + CC + "::types::Amount as std::str::FromStr>::from_str"
    bodies = [Fn(b) for p0 in sorted(crate("rs", CC).paths()) if p0 == AP or p0.startswith(AP + "::") for b in crate("rs", CC).get_all(p0)]
    if ck.anchor(len(bodies) >= 1, "CALLEE", AP, "Amount::from_str"):
        rawmul = [(g.path, st["line"]) for g in bodies for bi in g.reachable() for st in g.stmts(bi) if st.get("rv", {}).get("k") == "bin" and st["rv"]["op"].startswith("Mul")]
        cm = sum(len(g.calls(r"::checked_mul$")) for g in bodies)
        ca = sum(len(g.calls(r"::checked_add$")) for g in bodies)
        ck.ob("CALLEE", AP, "digits-accumulated-with-checked-arithmetic", not rawmul and cm >= 2 and ca >= 2,
              "no raw multiplication; %d checked_mul and %d checked_add" % (cm, ca) if not rawmul and cm >= 2 and ca >= 2 else
              "the amount parser multiplies without checked_mul (%s) or lacks the checked steps (checked_mul %d, checked_add %d): amounts next to u64::MAX are refused or wrap" % (rawmul[:2], cm, ca), bodies[0].loc())
    # decoding arbitrary bytes is total: input-driven ranges of fixed-size buffers stay inside them
    from .codec import array_range_sweep
    array_range_sweep(ck, crate("rs", CC), re.compile(r"Deserial.*::deserial$|::deserial_[a-z_]+$|FromStr>::from_str$"), floor=3, exceptions={
        CC + "::schema_json::deserial_string#1": "`&buf[..new]` where `new` is the count returned by `read(&mut buf[..to_read])`: at most `to_read` <= 64 by the contract of Read (the request itself, site #0, is proved)",
    })


# the documented grammar of the three name validators (doc comments of types.rs): which predicate must hold (True) or must not
# hold (False) on the accepting path, and the relation of the length to MAX_FUNC_NAME_SIZE under which the name is refused
NAME_GRAMMAR = {
    "::types::ContractName::<'a>::is_valid_contract_name": ({"starts_with": True, "contains": False, "all": True}, "Gt",
                                                            "at most MAX_FUNC_NAME_SIZE bytes, starts with init_, no '.', ascii alphanumeric or punctuation"),
    "::types::ReceiveName::<'a>::is_valid_receive_name": ({"contains": True, "all": True}, "Gt",
                                                          "at most MAX_FUNC_NAME_SIZE bytes, contains a '.', ascii alphanumeric or punctuation"),
    "::types::is_valid_entrypoint_name": ({"all": True}, "Ge", "fewer than MAX_FUNC_NAME_SIZE bytes, ascii alphanumeric or punctuation"),
}


def name_grammar_rules(ck):
    c = crate("rs", CC)
    # the length limit of names is decided by the three validators. Any OTHER comparison with MAX_FUNC_NAME_SIZE (an early
    # refusal in a decoder, a shared helper) may refuse only what every validator it feeds refuses: `len > MAX` is refused by all
    # three, `len >= MAX` only by the entrypoint validator - used in front of contract or receive names it refuses the valid
    # 100-byte names (they still encode, and no longer decode)
    nother = 0
    for p0 in sorted(c.paths()):
        if re.search(r"::tests?::", p0) or any(p0.endswith(sfx) for sfx in NAME_GRAMMAR):
            continue
        for b in c.get_all(p0):
            f = Fn(b)
            for cx in rules.comparisons(f):
                for side in ("a", "b"):
                    if not any(a[0] == "const" and a[1].endswith("constants::MAX_FUNC_NAME_SIZE") for a in f.origins(cx[side])):
                        continue
                    rel, d = rules.cmp_rejects(f, cx)
                    if rel is not None and side == "a":
                        rel = rules.FLIP[rel]
                    nother += 1
                    okr = rel == "Gt" or (rel == "Ge" and re.search(r"[Ee]ntrypoint", p0) is not None) or rel is None
                    ck.ob("CMP", p0, "length-refusal-no-stricter-than-the-validators", okr,
                          "refuses when len %s MAX_FUNC_NAME_SIZE: nothing a validator accepts" % rel if okr else
                          "refuses when len %s MAX_FUNC_NAME_SIZE outside the validators: contract and receive names of exactly MAX_FUNC_NAME_SIZE bytes are valid (and are written), but are refused here" % rel, f.loc(cx["bb"]))
    ck.note("%d comparisons with MAX_FUNC_NAME_SIZE outside the three validators" % nother)
    for suffix, (preds, lenrel, doc) in sorted(NAME_GRAMMAR.items()):
        f = getfn(ck, "rs", CC, CC + suffix)
        if not f:
            continue
        acc, _ = f.accept_points()
        conds = {}
        for a in acc:
            for (kind, names, val) in rules.conditions_at(f, a):
                if kind.startswith("call:"):
                    conds.setdefault(kind[5:], set()).add(val)
        for pn, want in sorted(preds.items()):
            got = conds.get(pn)
            ck.ob("CMP", f.path, "grammar:%s" % pn, got == {want},
                  "accepts only when %s(..) is %s (%s)" % (pn, want, doc) if got == {want} else
                  "the accepting path requires %s(..) to be %s, the documented grammar requires %s (%s)" % (pn, sorted(got) if got else "untested", want, doc), f.loc())
        # the length limit
        n = 0
        for cx in rules.comparisons(f):
            for side in ("a", "b"):
                o = f.origins(cx[side])
                if not any(a[0] == "const" and a[1].endswith("constants::MAX_FUNC_NAME_SIZE") for a in o):
                    continue
                rel, d = rules.cmp_rejects(f, cx)
                if rel is not None and side == "a":
                    rel = rules.FLIP[rel]
                n += 1
                ck.ob("CMP", f.path, "grammar:length", rel == lenrel,
                      "refuses exactly when len %s MAX_FUNC_NAME_SIZE (%s)" % ({"Gt": ">", "Ge": ">="}[lenrel], doc) if rel == lenrel else
                      "refuses when len %s MAX_FUNC_NAME_SIZE, the documented grammar refuses when len %s it (%s)" % (rel, lenrel, doc), f.loc(cx["bb"]))
        ck.ob("CMP", f.path, "grammar:length-tested", n == 1, "%d comparison(s) with MAX_FUNC_NAME_SIZE" % n, f.loc(), nontrivial=False)
        # the character class: the closure handed to `all` answers with is_ascii_alphanumeric / is_ascii_punctuation, unnegated
        for q in sorted(c.paths()):
            if not q.startswith(f.path + "::{closure#"):
                continue
            g = Fn(c.get_all(q)[0])
            cl = sorted(set(t["f"]["path"].split("::")[-1] for (_, t) in g.calls(r"is_ascii_[a-z]+$")))
            if not cl:
                continue
            o = g.origins(0, deep=True)
            neg = any(a[0] == "un" and a[1] == "Not" for a in o)
            # `a || b` answers the constant true when a holds and b otherwise; `a && b` would answer the constant false
            lits = set(a[1] for a in o if a[0] == "lit")
            ok = cl == ["is_ascii_alphanumeric", "is_ascii_punctuation"] and not neg and lits <= {1}
            ck.ob("CMP", q, "grammar:character-class", ok,
                  "characters are accepted iff ascii alphanumeric or ascii punctuation" if ok else "character class is %s%s%s, documented: is_ascii_alphanumeric || is_ascii_punctuation" % (cl, " (negated)" if neg else "", " combined so that a constant false is answered (conjunction)" if not lits <= {1} else ""), g.loc())
