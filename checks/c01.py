"""C01 — compiled Wasm execution conforms to Wasm semantics (structural part)."""
import json, os
from .common import *
from vlib import sym
from vlib.transcript import rpo
from vlib.mir import rv_locals

META = dict(
    technique="static analysis: exhaustive opcode dispatch, compiler/interpreter immediate-layout agreement, numeric-operator table against the Wasm specification, no-panic arithmetic over compiler MIR",
    text=("Structural necessary conditions: the validator, the compiler and the interpreter dispatch on every (internal) opcode "
          "explicitly; for the 92 instructions compiled 1:1 the compiler emits the internal opcode of the same name followed by "
          "exactly the immediates and register operands (kind, width, order) the interpreter's arm reads; every integer arithmetic, "
          "comparison, shift, rotate and conversion arm of the interpreter uses the operand-width helper and the Rust primitive whose "
          "value and partiality coincide with the specified operator (signedness via reinterpretation, shift counts modulo the width), "
          "and contains no arithmetic that can panic. Correctness of the stack-to-register compilation (lazy locals, block results, "
          "back-patching) and value-level equality of results/memory/traps on all programs are NOT decided."),
)

W = "concordium_wasm"
SPEC = os.path.join(os.path.dirname(os.path.dirname(os.path.abspath(__file__))), "spec", "wasm_numeric.json")
RUNCFG = W + "::machine::<impl concordium_wasm::artifact::Artifact<I, R>>::run_config"
WPRIM = {"push_u16": "u16", "push_u32": "u32", "push_i32": "i32"}
RPRIM = {"get_u16": "u16", "get_u32": "u32", "get_i32": "i32", "get_local": "src", "get_local_mut": "dst"}
SEM_BIN = {"Eq", "Ne", "Lt", "Le", "Gt", "Ge"}
OTHER_BIN = {"BitAnd", "BitOr", "BitXor", "Shl", "Shr", "Rem", "ShlUnchecked", "ShrUnchecked"}


def enum_switch(f, minarms):
    for (sb, st) in f.switches():
        if len(st["t"]) >= minarms and any(x.get("rv", {}).get("k") == "discr" for x in f.stmts(sb)):
            return sb, st
    return None


def opname(f, op):
    k = op_const(op)
    if k and "InternalOpcode::" in k.get("s", ""):
        return k["s"].split("::")[-1]
    cv = [a[1] for a in f.origins(op) if a[0] in ("cval", "agg") and "InternalOpcode::" in a[1]]
    return cv[0].split("::")[-1] if len(cv) == 1 else None


def wseq(c, f, region, depth=0):
    out = []
    for bi in rpo(f):
        if region is not None and bi not in region:
            continue
        t = f.term(bi)
        if t["k"] != "call" or "path" not in t["f"]:
            continue
        p = t["f"]["path"]
        nm = p.split("::")[-1]
        if re.search(r"artifact::Instructions::push$", p):
            out.append("OP:" + (opname(f, t["args"][1]) or "?"))
        elif re.search(r"artifact::Instructions::(push_u16|push_u32|push_i32)$", p):
            out.append(WPRIM[nm])
        elif re.search(r"artifact::BackPatch::push_loc$", p):
            out.append("src")
        elif re.search(r"artifact::BackPatch::push_consume$", p):
            out.append("src")
        elif re.search(r"artifact::BackPatch::push_provide$", p):
            out.append("dst")
        elif re.search(r"artifact::BackPatch::(push_binary|push_unary|push_ternary|push_mem_load|push_mem_store|push_br_if_jump|push_br_jump|push_br_table_jump|insert_jump_location)$", p) and depth < 3:
            g = Fn(c.get(p))
            sub = wseq(c, g, None, depth + 1)
            o = opname(f, t["args"][1]) if len(t["args"]) > 1 else None
            sub = [("OP:" + o if (x == "OP:?" and o) else x) for x in sub]
            simple = not sym.has_loop(g) and sym.branches(g) == 0
            out += sub if simple else ["<" + nm + ">"]
    return out


def rseq(c, f, region, depth=0):
    out = []
    for bi in rpo(f):
        if region is not None and bi not in region:
            continue
        t = f.term(bi)
        if t["k"] != "call" or "path" not in t["f"]:
            continue
        p = t["f"]["path"]
        nm = p.split("::")[-1]
        if re.search(r"machine::(get_u16|get_u32|get_i32|get_local|get_local_mut)$", p):
            out.append(RPRIM[nm])
        elif re.search(r"machine::(unary_i32|unary_i64|binary_i32|binary_i64|binary_i64_test|binary_i32_partial|binary_i64_partial|memory_load|memory_store)$", p) and depth < 2:
            out += rseq(c, Fn(c.get(p)), None, depth + 1)
    return out


def closure_sig(c, path, acc):
    for b in c.get_all(path):
        g = Fn(b)
        for bi in sorted(g.reachable()):
            for s in g.stmts(bi):
                rv = s.get("rv", {})
                if rv.get("k") == "bin":
                    acc["bin"].append((rv["op"], rv))
                if rv.get("k") == "cast" and rv["ck"] == "IntToInt":
                    acc["tok"].append("cast:" + rv["ty"])
                if rv.get("k") == "agg" and rv.get("agg") == "closure":
                    closure_sig(c, rv["closure"], acc)
            t = g.term(bi)
            if t["k"] == "call" and "path" in t["f"]:
                p = t["f"]["path"]
                m = re.search(r"num::<impl (\w+)>::(\w+)$", p)
                if m:
                    acc["tok"].append("call:%s::%s" % (m.group(1), m.group(2)))
                elif re.search(r"Option::<T>::(map|or|unwrap_or|and_then|filter|or_else)$", p):
                    acc["tok"].append("call:Option::" + p.split("::")[-1])
                else:
                    acc["tok"].append("call:" + p.split("::")[-1])
            if t["k"] == "assert":
                acc["asserts"].append((t["mk"], t.get("msg", "")))


def arm_signature(c, f, region, comparison):
    acc = dict(tok=[], bin=[], asserts=[])
    helpers = []
    for b in sorted(region):
        for s in f.stmts(b):
            rv = s.get("rv", {})
            if rv.get("k") == "agg" and rv.get("agg") == "closure":
                closure_sig(c, rv["closure"], acc)
            if rv.get("k") == "cast" and rv["ck"] == "IntToInt":
                acc["tok"].append("cast:" + rv["ty"])
        t = f.term(b)
        if t["k"] == "call" and re.search(r"machine::(unary|binary)\w*$", t["f"].get("path", "")):
            helpers.append(t["f"]["path"].split("::")[-1])
    toks = list(acc["tok"])
    mods = []
    for op, rv in acc["bin"]:
        if comparison and op in SEM_BIN:
            toks.append("bin:" + op)
        elif not comparison and op in OTHER_BIN:
            toks.append("bin:" + op.replace("Unchecked", ""))
            if op == "Rem":
                k = op_const(rv["b"])
                mods.append(const_int(k) if k else None)
    return helpers, sorted(toks), acc["asserts"], mods


def run(ck):
    ck.explanation = ("Decides exhaustive dispatch of validator, compiler and interpreter; for the instructions compiled one-to-one, "
                      "agreement of opcode name and immediate layout between what the compiler writes and what the interpreter reads; "
                      "and, per numeric instruction, that the interpreter applies the primitive the specification prescribes at the "
                      "right width and signedness without panicking arithmetic.")
    ck.undecided = ("semantic preservation of the stack-to-register compilation on all programs (local preservation at local.set/tee, "
                    "copies before branches, back-patching); control and call arms (br_table strides, call argument layout) which are "
                    "outside the straight-line abstraction; equality of final memory/globals; trap positions in general.")
    ck.rules_text = "TAB(exhaustive, name/layout agreement)/TAB(numeric, spec)/no-panic over MIR of wasm-transform"
    c = crate("sc", W)
    onames = [v["name"] for v in c.adts[W + "::types::OpCode"]["variants"]]
    inames = [v["name"] for v in c.adts[W + "::artifact::InternalOpcode"]["variants"]]
    hp = [p for p in c.paths() if re.search(r"BackPatch as concordium_wasm::validate::Handler<Ctx, &concordium_wasm::types::OpCode>>::handle_opcode$", p)]
    if not ck.anchor(len(hp) == 1, "TAB", "BackPatch::handle_opcode", "function exists"):
        return
    hf = Fn(c.get(hp[0]))
    rc = getfn(ck, "sc", W, RUNCFG)
    vf = getfn(ck, "sc", W, W + "::validate::validate")
    if not rc:
        return
    # a called function's frame starts out zeroed (locals are zero-initialised by the specification, and the parameters are a
    # prefix of the same frame): every push of a function frame is dominated by a growth of the register stack through
    # Vec::resize with a zeroed fill value - growing it with reserve + set_len leaves stale registers of returned calls in place
    pushes = [(bi, t) for (bi, t) in rc.calls(r"Vec::<T, A>::push$") if any("FunctionState" in g_ for g_ in (t["f"].get("gargs") or []))]
    grows = [(bi, t) for (bi, t) in rc.calls(r"Vec::<T, A>::resize$") if any("StackValue" in g_ for g_ in (t["f"].get("gargs") or []))
             and len(t["args"]) > 2 and has_call_origin(rc.origins(t["args"][2]), r"mem::zeroed$")]
    arms_ok = all(any(rc.dominates(gb, pb) and not any(rc.dominates(gb, pb2) for (pb2, _) in pushes if pb2 != pb) for (gb, _) in grows) for (pb, _) in pushes)
    ck.ob("DEFUSE", rc.path, "callee-frame-zero-initialised", len(pushes) >= 2 and arms_ok,
          "%d frame pushes, each dominated by its own resize(.., zeroed) of the register stack" % len(pushes) if len(pushes) >= 2 and arms_ok else
          "a function frame is pushed without a zero-filling resize of the register stack before it (%d pushes, %d zero-filling resizes): locals of the callee can start with values left behind by an earlier call" % (len(pushes), len(grows)),
          rc.loc(pushes[0][0]) if pushes else rc.loc())
    # data and element segments are applied in DECLARATION order (later segments overwrite earlier ones where they overlap):
    # Module::compile hands the sections on as they are - no sorting, reversing, de-duplication or filtering
    cf = getfn(ck, "sc", W, W + "::artifact::<impl concordium_wasm::types::Module>::compile")
    if cf:
        reord = cf.calls(r"::sort[a-z_]*$|::reverse$|::dedup[a-z_]*$|::retain$|Iterator::rev$")   # (the export map is built with filter_map: not a reordering)
        ck.ob("WHO", cf.path, "segments-kept-in-declaration-order", not reord,
              "no sorting, reversing or de-duplication of sections in Module::compile" if not reord else
              "%s is applied while the module is compiled: segments are no longer applied in the order they were declared" % reord[0][1]["f"]["name"], cf.loc(reord[0][0]) if reord else cf.loc(), nontrivial=False)
    hsw = enum_switch(hf, 90)
    rsw = enum_switch(rc, 90)
    if not ck.anchor(hsw is not None and rsw is not None, "TAB", "dispatch", "opcode dispatch in compiler and interpreter"):
        return
    ck.ob("TAB", hf.path, "exhaustive", len(hsw[1]["t"]) == len(onames) and hf.term(hsw[1]["o"])["k"] == "unreachable",
          "%d of %d instructions have their own compiler arm; no default arm" % (len(hsw[1]["t"]), len(onames)), hf.loc(hsw[0]))
    ck.ob("TAB", rc.path, "exhaustive", len(rsw[1]["t"]) == len(inames) and rc.term(rsw[1]["o"])["k"] == "unreachable",
          "%d of %d internal opcodes have their own interpreter arm; no default arm" % (len(rsw[1]["t"]), len(inames)), rc.loc(rsw[0]))
    if vf:
        vsw = enum_switch(vf, 60)
        if ck.anchor(vsw is not None, "TAB", vf.path, "opcode dispatch in the validator"):
            explicit = set(int(v) for v, _ in vsw[1]["t"])
            dflt_ok = vf.term(vsw[1]["o"])["k"] == "unreachable" or vsw[1]["o"] in vf.reject_region()
            ck.ob("TAB", vf.path, "no-accepting-default", dflt_ok, "%d instructions typed explicitly; the default is unreachable or rejecting" % len(explicit), vf.loc(vsw[0]))
    # layout + names
    rtab = {}
    for v, tb in rsw[1]["t"]:
        reg = sym.dominated(rc, tb)
        rtab[inames[int(v)]] = (rseq(c, rc, reg), reg, tb)
    nmatch = 0
    skipped = []
    for v, tb in hsw[1]["t"]:
        n = onames[int(v)]
        region = sym.dominated(hf, tb)
        ws = wseq(c, hf, region)
        simple = not sym.has_loop(hf, region) and sym.branches(hf, region) == 0
        ops = [x[3:] for x in ws if x.startswith("OP:")]
        if simple and len(ops) == 1 and ws and ws[0].startswith("OP:"):
            op = ops[0]
            ck.ob("TAB", hf.path, "same-name:" + n, op == n, "instruction %s is compiled to internal opcode %s" % (n, op), hf.loc(tb))
            if op in rtab:
                rs = rtab[op][0]
                ok = ws[1:] == rs
                nmatch += ok
                ck.ob("SYM", hf.path, "layout:" + n, ok, "compiler writes %s / interpreter reads %s" % (ws[1:], rs), hf.loc(tb),
                      sample=dict(rule="SYM", instruction=n, written=ws[1:], read=rs))
        else:
            skipped.append(n)
    ck.floor("SYM", "instructions with agreeing immediate layout", nmatch, 92)
    ck.extra["layout_not_decided"] = skipped

    # a dynamic register is recycled only after a scan shows no other operand-stack slot still refers to it
    cf = getfn(ck, "sc", W, W + "::artifact::ProvidersStack::consume")
    if cf:
        reuse = cf.calls(r"DynamicLocations::reuse$|::reuse$")
        scans = [(bi, t) for (bi, t) in cf.calls(r"Iterator::(all|any)$|::contains$") if ("field", "stack") in cf.origins(t["args"][0], deep=True)]
        ok = len(reuse) >= 1 and len(scans) >= 1
        if ok:
            for (rb, rt) in reuse:
                g = False
                for (sb, st) in scans:
                    r = rules.enforcement(cf, sb, extra_fail=("bool", 0 if st["f"]["name"] == "all" else 1))
                    # the recycling site must be unreachable from the branch where the scan found another reference
                    sw = r.get("switch")
                    if sw is not None:
                        stt = cf.term(sw)
                        failv = "0" if st["f"]["name"] == "all" else "1"
                        ft = [tb for v, tb in stt["t"] if v == failv]
                        ft = ft[0] if ft else stt["o"]
                        if cf.dominates(sw, rb) and rb not in cf.reach_from([ft], avoid={sw}):
                            g = True
                ok = ok and g
        ck.ob("DOM", cf.path, "recycle-only-unreferenced-register", ok,
              "the register is handed back for reuse only on the branch where no remaining stack slot equals it" if ok else
              "a consumed register is recycled without checking that no other stack slot still refers to it (preserved locals can be overwritten)", cf.loc())

    # a value written BEFORE a conditional branch (speculatively) must go to a register dedicated to the branch target,
    # never to a register that is also a Wasm local: if the branch is not taken the local would be clobbered
    pb = getfn(ck, "sc", W, W + "::artifact::BackPatch::push_br_if_jump")
    if pb:
        pushes = [(bi, t, opname(pb, t["args"][1])) for (bi, t) in pb.calls(r"artifact::Instructions::push$")]
        copies = [(bi, t) for (bi, t, o) in pushes if o == "Copy"]
        brifs = [(bi, t) for (bi, t, o) in pushes if o == "BrIf"]
        speculative = bool(copies) and bool(brifs) and all(pb.reach_from([cb]) & {bb for (bb, _) in brifs} for (cb, _) in copies)
        dst_from_target = False
        for (cb, _) in copies:
            locs = [(bi, t) for (bi, t) in pb.calls(r"BackPatch::push_loc$") if pb.dominates(cb, bi)]
            for (bi, t) in locs:
                o = pb.origins(t["args"][1], deep=True)
                if ("field", "result") in o or has_call_origin(o, r"BackPatchStack::get$"):
                    dst_from_target = True
        local_results = []
        for pth in sorted(c.paths()):
            for b in c.get_all(pth):
                g = Fn(b)
                for (bi, t) in g.calls(r"artifact::JumpTarget::new_unknown(_loc)?$"):
                    for a in t["args"]:
                        o = g.origins(a, deep=True)
                        hit = any(x[0] == "const" and x[1].endswith("RETURN_VALUE_LOCATION") for x in o) or any(x[0] in ("cval", "agg") and "Provider::Local" in x[1] for x in o)
                        if not hit and has_call_origin(o, r"Option::<T>::map$"):
                            # the value is produced by a closure of this function
                            for q in c.paths():
                                if q.startswith(pth + "::{closure"):
                                    for cb2 in c.get_all(q):
                                        h = Fn(cb2)
                                        oo = h.origins(0, deep=True)
                                        if any(x[0] == "const" and x[1].endswith("RETURN_VALUE_LOCATION") for x in oo) or any(x[0] in ("cval", "agg") and "Provider::Local" in x[1] for x in oo):
                                            hit = True
                        if hit:
                            local_results.append("%s (%s)" % (pth.split("::")[-1], g.loc(bi)))
                for bi in g.reachable():
                    for s2 in g.stmts(bi):
                        rv = s2.get("rv", {})
                        if rv.get("k") == "agg" and rv.get("adt", "").endswith("artifact::JumpTarget") and rv.get("variant") == "Unknown" and not pth.endswith(("new_unknown", "new_unknown_loc")):
                            i = rv["fields"].index("result") if "result" in rv["fields"] else None
                            if i is not None and any(x[0] == "const" and x[1].endswith("RETURN_VALUE_LOCATION") for x in g.origins(rv["ops"][i], deep=True)):
                                local_results.append("%s (%s)" % (pth.split("::")[-1], g.loc(bi)))
        ok = not (speculative and dst_from_target and local_results)
        ck.ob("DEFUSE", pb.path, "speculative-copy-never-targets-a-local", ok,
              "no branch target's result register is a Wasm local, or br_if does not copy before the test" if ok else
              "br_if copies the carried value into the target's result register before the branch is decided, and the function-level target's "
              "result register is RETURN_VALUE_LOCATION = Local(0) (set in %s): when the branch is not taken, local 0 has been overwritten" % local_results[:2], pb.loc())

        # second way the speculative copy can clobber a live value: the target's result register is an ordinary pooled
        # register. After `br_if` it sits on the providers stack (provide_existing(result)); a following `drop` consumes it
        # and consume() returns it to the pool because no OTHER stack slot refers to it - the open block's reservation is not
        # consulted. The next temporary is allocated in it, and the next br_if's copy (executed even if the branch is not
        # taken) overwrites that temporary.
        pooled = []
        for pth in sorted(c.paths()):
            if not re.search(r"handle_opcode$", pth):
                continue
            for b in c.get_all(pth):
                g = Fn(b)
                for (bi, t) in g.calls(r"artifact::JumpTarget::new_unknown(_loc)?$"):
                    o = set()
                    for a in t["args"]:
                        o |= g.origins(a, deep=True)
                    if has_call_origin(o, r"artifact::DynamicLocations::get$"):
                        pooled.append(g.loc(bi))
        cons = getfn(ck, "sc", W, W + "::artifact::ProvidersStack::consume")
        recycles_by_stack_only = False
        if cons:
            ru = cons.calls(r"artifact::DynamicLocations::reuse$")
            if ru:
                conds = conditions_at(cons, ru[0][0])
                names = set()
                for (k2, nn, v) in conds:
                    names |= set(nn)
                recycles_by_stack_only = bool(conds) and not (names & {"backpatch", "reserved", "result", "pinned"}) and len(cons.b["inputs"]) == 1
        ok2 = not (speculative and dst_from_target and pooled and recycles_by_stack_only)
        ck.ob("DEFUSE", pb.path, "speculative-copy-target-not-recyclable", ok2,
              "the register a br_if copies into before the test cannot be handed out as a temporary while the block is open" if ok2 else
              "br_if copies into the target block's result register before the branch is decided; that register comes from the common pool (%s) and "
              "ProvidersStack::consume recycles it as soon as no other stack slot holds it, without regard to the open block: `block (result i32) .. br_if 0; drop; <temp>; .. br_if 0` "
              "overwrites the temporary" % pooled[:2], pb.loc())

    # third compiler hazard of the same family: `local.set x` / `local.tee x` while x is still referred to by operand-stack
    # entries. The compiler redirects those entries to a reserve register and emits `Copy x -> reserve` AT THE CURRENT
    # POSITION. Entries pushed before the innermost open `if`/`block`/`loop` are redirected too, but then the Copy sits in
    # conditionally executed code: when that code is skipped the reserve register was never written and the entry reads
    # garbage. The scan must be limited to entries above the current frame's base (or the copy hoisted).
    for pth in sorted(c.paths()):
        if not re.search(r"artifact::BackPatch as .*Handler<.*>>::handle_opcode$", pth):
            continue
        for b in c.get_all(pth):
            g = Fn(b)
            scans = []
            for (bi, t) in g.calls(r"::iter_mut$"):
                o = set(a for a in g.origins(t["args"][0], deep=False) if a[0] in ("field", "call", "arg"))
                if ("field", "providers_stack") in o and ("field", "stack") in o:
                    scans.append((bi, o))
            if not scans:
                continue
            lim = [(bi, o) for (bi, o) in scans if ("field", "height") in o or ("field", "ctrls") in o or ("field", "opds") in o or any(a[0] == "call" and re.search(r"ops::IndexMut::index_mut$|::split_at_mut$|::get_mut$", a[1]) for a in o)]
            ok3 = len(lim) == len(scans)
            ck.ob("DEFUSE", g.path, "preserve-copy-scan-limited-to-the-current-frame", ok3,
                  "the scan that redirects stack entries of an overwritten local is limited to the current control frame" if ok3 else
                  "local.set/local.tee redirect EVERY stack entry that refers to the local to a reserve register and emit the preserving Copy at the current position: "
                  "an entry pushed before the enclosing if/block is redirected although the Copy may be skipped (`local.get 0; local.get 1; if; i32.const 5; local.set 0; end; local.get 0; i32.sub` "
                  "yields a - <uninitialised> instead of 0 when the branch is not taken)", g.loc(scans[0][0]))

    # numeric operators
    spec = json.load(open(SPEC))["instructions"]
    nn = 0
    for n, sp in sorted(spec.items()):
        if not ck.anchor(n in rtab, "TAB", "numeric:" + n, "interpreter arm exists"):
            continue
        _, reg, tb = rtab[n]
        comparison = bool(re.search(r"(Eq|Ne|LtS|LtU|GtS|GtU|LeS|LeU|GeS|GeU)$", n))
        helpers, toks, asserts, mods = arm_signature(c, rc, reg, comparison)
        nn += 1
        if sp["helper"] is not None:
            ck.ob("TAB", "interpreter:" + n, "width-helper", helpers == [sp["helper"]], "uses %s (specification: %s)" % (helpers, sp["helper"]), rc.loc(tb))
        if sp.get("tokens") is not None:
            ck.ob("TAB", "interpreter:" + n, "primitive", toks == sorted(sp["tokens"]), "%s; found %s, specified %s" % (sp["why"], toks, sorted(sp["tokens"])), rc.loc(tb),
                  sample=dict(rule="TAB", instruction=n, found=toks, specified=sorted(sp["tokens"])))
        else:
            ok = any(all(t in toks for t in alt) for alt in sp["alt"]) and not any(sorted(x) == toks for x in sp.get("forbid_exact", []))
            ck.ob("TAB", "interpreter:" + n, "primitive", ok, "%s; found %s" % (sp["why"], toks), rc.loc(tb),
                  sample=dict(rule="TAB", instruction=n, found=toks, accepted_alternatives=sp["alt"]))
        if "modulus" in sp:
            ck.ob("TAB", "interpreter:" + n, "count-modulo-width", mods == [sp["modulus"]], "shift/rotate count is reduced modulo %d (found %s)" % (sp["modulus"], mods), rc.loc(tb))
        # panics
        bad = [a for a in asserts if not (a[0] == "RemainderByZero" or (a[0] == "Overflow" and ("Shl" in a[1] or "Shr" in a[1]) and "modulus" in sp))]
        ck.ob("PANIC", "interpreter:" + n, "no-panicking-arithmetic", not bad, "no overflow/division assertion outside the masked shift" if not bad else "panicking arithmetic: %s" % bad[:2], rc.loc(tb))
    ck.floor("TAB", "numeric instructions compared with the specification", nn, 64)

    memory_rules(ck, c, rc, rtab)
    control_rules(ck, c, rc, rtab)
    segment_rules(ck, c, rc, rtab)
    pstack_rules(ck, c, hf, hsw, onames)
    misc_arm_rules(ck, c, rc, rtab, hf)
    who_rules(ck, c)


# memory instructions (WebAssembly 1.0, 4.4.4): N bits are read at ea = base (u32) + offset (u32) as a 33-bit sum, trap if
# ea + N/8 > |mem|; loads extend with the signedness of the instruction; stores wrap the value to N bits (low bytes, little endian)
MEM_LOADS = {
    "I32Load": (4, None, "i32"), "I64Load": (8, None, "i64"),
    "I32Load8S": (1, "i", "i32"), "I32Load8U": (1, "u", "i32"), "I32Load16S": (2, "i", "i32"), "I32Load16U": (2, "u", "i32"),
    "I64Load8S": (1, "i", "i64"), "I64Load8U": (1, "u", "i64"), "I64Load16S": (2, "i", "i64"), "I64Load16U": (2, "u", "i64"),
    "I64Load32S": (4, "i", "i64"), "I64Load32U": (4, "u", "i64"),
}
MEM_STORES = {
    "I32Store": ("short", 4), "I64Store": ("long", 8), "I32Store8": ("short", 1), "I32Store16": ("short", 2),
    "I64Store8": ("long", 1), "I64Store16": ("long", 2), "I64Store32": ("long", 4),
}
FULL = {"short": 4, "long": 8}


def addr_slice(c, f, op, depth=0, acc=None):
    """backward walk from an address operand: collects (kind, detail) facts about how it is computed,
    following returns of crate-local helpers"""
    acc = acc if acc is not None else dict(bins=[], calls=[], casts=[], leaves=set())
    seen = set()
    p = op_place(op)
    work = [p[0]] if p else []
    while work:
        l = work.pop()
        if l in seen:
            continue
        seen.add(l)
        if 1 <= l <= f.b["argc"]:
            acc["leaves"].add("arg")
        for (b, si, it) in f.defs().get(l, []):
            if si == "t":
                t = it
                pth = t["f"].get("path", "?")
                if pth.startswith("concordium_wasm::machine::") and depth < 3 and c.get_all(pth):
                    if re.search(r"machine::(get_u32|get_local|get_local_mut|get_u16|get_i32)$", pth):
                        acc["leaves"].add(pth.split("::")[-1])
                        continue
                    g = Fn(c.get_all(pth)[0])
                    acc["calls"].append(pth.split("::")[-1])
                    for rb in g.reachable():
                        if g.term(rb)["k"] == "return":
                            addr_slice(c, g, {"m": [0, []]}, depth + 1, acc)
                else:
                    acc["calls"].append(pth)
                    for a in t["args"]:
                        pa = op_place(a)
                        if pa:
                            work.append(pa[0])
                continue
            rv = it["rv"]
            if rv["k"] == "bin":
                tys = []
                for o in (rv["a"], rv["b"]):
                    po = op_place(o)
                    k = op_const(o)
                    tys.append(f.b["locals"][po[0]] if po else (k or {}).get("ty"))
                acc["bins"].append((rv["op"], tuple(tys)))
            if rv["k"] == "cast":
                acc["casts"].append(rv["ty"])
            for x in rv_locals(rv):
                work.append(x)
    return acc


def memory_rules(ck, c, rc, rtab):
    nm = 0
    # effective address
    for name in ("memory_load", "memory_store"):
        f = getfn(ck, "sc", W, W + "::machine::" + name)
        if not f:
            continue
        rets = []
        for bi in f.reachable():
            for st in f.stmts(bi):
                if st.get("lhs") == [0, []] and st["rv"].get("k") == "agg" and st["rv"].get("agg") == "tuple":
                    rets.append(st["rv"]["ops"][1])
        if not ck.anchor(len(rets) >= 1, "TAB", f.path, "returns (register, position)"):
            continue
        for op in rets:
            a = addr_slice(c, f, op)
            adds = [b for b in a["bins"] if b[0].startswith("Add")]
            WIDE = ("usize", "u64", "i64", "u128", "i128")
            narrow = [b for b in a["bins"] if b[0] not in ("Add", "AddWithOverflow", "AddUnchecked") or any(t not in WIDE for t in b[1])]
            wraps = [x for x in a["calls"] if re.search(r"num::<impl (u|i)(8|16|32)>::|wrapping_|overflowing_|saturating_", x)]
            ok = len(adds) == 1 and not narrow and not wraps and any(t in WIDE for t in a["casts"]) and {"get_u32", "get_local"} <= a["leaves"]
            nm += 1
            ck.ob("TAB", f.path, "effective-address-33-bit", ok,
                  "ea = (base as u32 as usize) + (offset as usize): one addition, in usize, of the dynamic base and the static offset" if ok else
                  "the effective address is not the full-width sum base + offset (additions %s, other/narrow arithmetic %s, calls %s): addresses >= 2^32 must trap, not wrap" % (adds, narrow, wraps), f.loc())
    # readers: the width that is bounds-checked is the width that is read
    for nme, width in (("read_u16", 2), ("read_i16", 2), ("read_u32", 4), ("read_i32", 4), ("read_i64", 8)):
        f = getfn(ck, "sc", W, W + "::machine::" + nme)
        if not f:
            continue
        oks = []
        for cx in rules.comparisons(f):
            rel, d = rules.cmp_rejects(f, cx)
            oa = f.origins(cx["a"], deep=True)
            ob = f.origins(cx["b"], deep=True)
            if rel == "Gt" and ("arg", 2) in oa and ("lit", width) in oa and ("arg", 1) in ob and ("arg", 2) not in ob:
                oks.append(cx)
            elif rel == "Lt" and ("arg", 2) in ob and ("lit", width) in ob and ("arg", 1) in oa and ("arg", 2) not in oa:
                oks.append(cx)
        rd = f.calls(r"ptr::const_ptr::<impl \*const T>::read_unaligned$|ptr::read_unaligned$")
        tys = [" ".join(t["f"].get("gargs") or []) for (_, t) in rd]
        wty = {"u16": 2, "i16": 2, "u32": 4, "i32": 4, "i64": 8, "u64": 8}
        tw = [wty.get(re.sub(r"^\*const ", "", x).strip(), None) for x in tys]
        nm += 1
        ok = len(oks) == 1 and len(rd) == 1 and tw == [width] and all(f.dominates(oks[0]["bb"], bi) for (bi, _) in rd)
        ck.ob("BOUNDS", f.path, "checked-width-is-read-width", ok,
              "rejects when pos + %d > len, then reads %d bytes" % (width, width) if ok else
              "bounds test and unaligned read disagree or are missing: rejecting tests on pos+%d: %d, reads of %s bytes" % (width, len(oks), tw), f.loc())
    for nme in ("read_u8", "read_i8"):
        f = getfn(ck, "sc", W, W + "::machine::" + nme)
        if f:
            g = f.calls(r"slice::<impl \[T\]>::get$")
            o = f.origins(g[0][1]["args"][1], deep=True) if g else set()
            nm += 1
            ck.ob("BOUNDS", f.path, "checked-get", len(g) == 1 and ("arg", 2) in o and not any(a[0] in ("bin", "lit") for a in o) and not f.calls(r"get_unchecked|read_unaligned"),
                  "reads bytes.get(pos): None (out of bounds) becomes the trap", f.loc())
    f = getfn(ck, "sc", W, W + "::machine::write_memory_at")
    if f:
        oks = []
        for cx in rules.comparisons(f):
            rel, d = rules.cmp_rejects(f, cx)
            oa = f.origins(cx["a"], deep=True)
            ob = f.origins(cx["b"], deep=True)
            if rel == "Gt" and ("arg", 2) in oa and ("arg", 3) in oa and ("arg", 1) in ob:
                oks.append(cx)
        idx = f.calls(r"ops::IndexMut::index_mut$|slice::<impl \[T\]>::get_mut$")
        nm += 1
        ck.ob("BOUNDS", f.path, "end-checked-before-slicing", len(oks) == 1 and len(idx) >= 1 and all(f.dominates(oks[0]["bb"], bi) for (bi, _) in idx),
              "rejects when pos + bytes.len() > memory.len() before memory[pos..end] is written", f.loc())
    # arms
    for n, (width, sign, target) in sorted(MEM_LOADS.items()):
        if not ck.anchor(n in rtab, "TAB", "memory:" + n, "interpreter arm exists"):
            continue
        _, reg, tb = rtab[n]
        readers = [t["f"]["path"].split("::")[-1] for b2 in sorted(reg) for t in [rc.term(b2)] if t["k"] == "call" and re.search(r"machine::read_[ui]\d+$", t["f"].get("path", ""))]
        froms = [(t["f"].get("gargs") or ["?", "?"])[-1] for b2 in sorted(reg) for t in [rc.term(b2)] if t["k"] == "call" and re.search(r"convert::From::from$", t["f"].get("path", "")) and "StackValue" in (t["f"].get("self") or "")]
        want = ["read_%s%d" % (s, width * 8) for s in (("i", "u") if sign is None else (sign,))]
        ok = len(readers) == 1 and readers[0] in want and froms == [target]
        nm += 1
        ck.ob("TAB", "interpreter:" + n, "load-width-sign-target", ok, "reads with %s and stores an %s (specification: %d bytes, %s, result %s)" %
              (readers, froms, width, {"i": "sign-extended", "u": "zero-extended", None: "full width"}[sign], target), rc.loc(tb))
    for n, (field, width) in sorted(MEM_STORES.items()):
        if not ck.anchor(n in rtab, "TAB", "memory:" + n, "interpreter arm exists"):
            continue
        _, reg, tb = rtab[n]
        wr = [(b2, rc.term(b2)) for b2 in sorted(reg) if rc.term(b2)["k"] == "call" and re.search(r"machine::write_memory_at$", rc.term(b2)["f"].get("path", ""))]
        fields, ends, le = set(), [], False
        for b2 in sorted(reg):
            for st in rc.stmts(b2):
                rv = st.get("rv", {})
                if rv.get("k") == "use":
                    pl = op_place(rv["a"])
                    if pl and pl[1] and str(pl[1][-1]).split(":")[-1] in ("short", "long"):
                        fields.add(str(pl[1][-1]).split(":")[-1])
                if rv.get("k") == "agg" and rv.get("agg") == "adt" and rv.get("adt", "").startswith("std::ops::Range"):
                    ends.append((rv["adt"].split("::")[-1], [const_int(op_const(o)) if op_const(o) else None for o in rv["ops"]]))
            t = rc.term(b2)
            if t["k"] == "call" and re.search(r"num::<impl i(32|64)>::to_le_bytes$", t["f"].get("path", "")):
                le = True
        got = FULL.get(next(iter(fields)), None) if len(fields) == 1 and not ends else (ends[0][1][0] if len(ends) == 1 and ends[0][0] == "RangeTo" else None)
        ok = len(wr) == 1 and fields == {field} and le and got == width
        nm += 1
        ck.ob("TAB", "interpreter:" + n, "store-field-width", ok, "writes the low %s bytes (little endian) of the %s view; specification: %d bytes of %s" %
              (got, sorted(fields), width, field), rc.loc(tb))
    ck.floor("TAB", "memory instruction obligations", nm, 29)


def control_rules(ck, c, rc, rtab):
    """interpreter arms of the control, parametric and accounting instructions: which branch is taken under which condition"""
    def arm(n):
        if not ck.anchor(n in rtab, "TAB", "control:" + n, "interpreter arm exists"):
            return None
        return rtab[n][1], rtab[n][2]

    def cmps(conds):
        return [(k[4:], v, nn) for (k, nn, v) in conds if k.startswith("cmp:")]

    def truth_of(conds, want_names):
        """normalised: is the site reached when (value == 0)?  returns True / False / None"""
        for (op, v, nn) in cmps(conds):
            if want_names <= nn and "lit0" in nn:
                if op == "Eq":
                    return v
                if op == "Ne":
                    return not v
        return None

    JUMP = r"ptr::const_ptr::<impl \*const T>::add$"
    nn_ = 0
    for n, zero_jumps in (("If", True), ("BrIf", False)):
        a = arm(n)
        if not a:
            continue
        reg, tb = a
        jumps = [(bi, t) for (bi, t) in rc.calls(JUMP) if bi in reg and has_call_origin(rc.origins(t["args"][0]), r"as_ptr$")]
        ok = len(jumps) == 1 and truth_of(conditions_at(rc, jumps[0][0]), {"short"}) is zero_jumps and has_call_origin(rc.origins(jumps[0][1]["args"][1], deep=True), r"machine::get_u32$")
        nn_ += 1
        ck.ob("TAB", "interpreter:" + n, "jump-condition", ok,
              "jumps to the encoded target exactly when the condition operand is %s zero" % ("" if zero_jumps else "not"), rc.loc(tb))
    # operands are 32- or 64-bit values: the only place where the interpreter loop itself narrows an operand is i32.wrap_i64
    # (sub-word stores and sign extensions go through helpers that are decided with the numeric table). Any other narrowing
    # cast of an operand - a selector, an address, a count - drops bits the instruction's semantics depends on
    WID = {"u8": 8, "i8": 8, "u16": 16, "i16": 16, "u32": 32, "i32": 32, "u64": 64, "i64": 64, "usize": 64, "isize": 64}
    narrow = []
    for bi in sorted(rc.reachable()):
        for st in rc.stmts(bi):
            rv = st.get("rv", {})
            if rv.get("k") == "cast" and rv.get("ck") == "IntToInt":
                src = op_place(rv["a"])
                ts = rc.locals[src[0]] if src and not src[1] else None
                td = rv.get("ty")
                if ts in WID and td in WID and WID[td] < WID[ts]:
                    o = rc.origins(rv["a"], deep=False)
                    if ("field", "short") in o or ("field", "long") in o:
                        narrow.append((ts, td, bi))
    wrap_arm = arm("I32WrapI64")
    ok_n = all((ts, td) == ("i64", "i32") and wrap_arm and bi in wrap_arm[0] for (ts, td, bi) in narrow) and len(narrow) >= 1
    nn_ += 1
    ck.ob("TAB", "interpreter", "operands-narrowed-only-by-wrap", ok_n,
          "the interpreter loop narrows an operand only in i32.wrap_i64 (%d cast)" % len(narrow) if ok_n else
          "operand values are narrowed by %s outside i32.wrap_i64: bits of an operand are dropped before it is used" % sorted(set((ts, td) for (ts, td, bi) in narrow if (ts, td) != ("i64", "i32") or not (wrap_arm and bi in wrap_arm[0]))),
          rc.loc([bi for (ts, td, bi) in narrow if (ts, td) != ("i64", "i32")][0]) if any((ts, td) != ("i64", "i32") for (ts, td, bi) in narrow) else rc.loc())
    # ... and the only place where an i32 operand is widened WITH its sign is i64.extend_i32_s: everywhere else (page counts,
    # addresses, selectors, shift counts) the operand is an unsigned 32-bit quantity and goes through u32 first
    sext = []
    for bi in sorted(rc.reachable()):
        for st in rc.stmts(bi):
            rv = st.get("rv", {})
            if rv.get("k") == "cast" and rv.get("ck") == "IntToInt":
                src = op_place(rv["a"])
                ts = rc.locals[src[0]] if src and not src[1] else None
                td = rv.get("ty")
                if ts == "i32" and td in WID and WID[td] == 64 and ("field", "short") in rc.origins(rv["a"], deep=False):
                    sext.append((td, bi))
    ext_arm = arm("I64ExtendI32S")
    ok_s = len(sext) >= 1 and all(ext_arm and bi in ext_arm[0] for (td, bi) in sext)
    nn_ += 1
    ck.ob("TAB", "interpreter", "operands-sign-extended-only-by-extend_s", ok_s,
          "an i32 operand is widened with its sign only in i64.extend_i32_s (%d cast)" % len(sext) if ok_s else
          "an i32 operand is cast directly to a 64-bit type (sign extension) outside i64.extend_i32_s: negative operands become huge 64-bit values (or wrap a sum)",
          rc.loc([bi for (td, bi) in sext if not (ext_arm and bi in ext_arm[0])][0]) if not ok_s and sext else rc.loc())
    for n, stride in (("BrTable", 4), ("BrTableCarry", 8)):
        a = arm(n)
        if not a:
            continue
        reg, tb = a
        def from_start(t):
            return any(x[0] == "call" and x[1].endswith("as_ptr") and x[2] in reg for x in rc.origins(t["args"][0]))
        skips = [(bi, t) for (bi, t) in rc.calls(JUMP) if bi in reg and not from_start(t)]
        finals = [(bi, t) for (bi, t) in rc.calls(JUMP) if bi in reg and from_start(t)]
        ok = len(skips) == 1 and len(finals) == 1
        det = "%d skips, %d final jumps" % (len(skips), len(finals))
        if ok:
            cs = cmps(conditions_at(rc, skips[0][0]))
            lt = [x for x in cs if x[0] == "Lt" and x[1] is True and "get_u16" in x[2] and "short" in x[2]]
            o = rc.origins(skips[0][1]["args"][1], deep=True)
            unsigned = ("cast", "u32") in rc.origins(rc.term(skips[0][0])["args"][1], deep=True)
            lf = rules.lin(rc, skips[0][1]["args"][1])
            exact = lf is not None and lf[1] == stride and sorted(lf[0].values()) == [stride]
            # the comparison itself is made at 32 bits: the selector is the operand reinterpreted as u32 (no narrower cast
            # on the way), the label count is widened to u32
            wide = False
            for cx in rules.comparisons(rc):
                if cx["bb"] in reg and cx["op"] == "Lt" and cx["kind"] == "bin":
                    pa, pb = op_place(cx["a"]), op_place(cx["b"])
                    ta = rc.locals[pa[0]] if pa else None
                    tb_ = rc.locals[pb[0]] if pb else None
                    casts = set(x[1] for x in rc.origins(cx["a"], deep=False) if x[0] == "cast")
                    if ta == "u32" and tb_ == "u32" and casts <= {"u32"} and ("field", "short") in rc.origins(cx["a"], deep=False):
                        wide = True
            ok = len(lt) == 1 and exact and unsigned and wide
            det = "index < number of labels (unsigned) selects entry (index + 1) * %d bytes further; otherwise the first (default) entry; found comparisons %s" % (stride, [(x[0], x[1]) for x in cs])
            if not wide:
                det = "the table index is not compared with the number of labels as an unsigned 32-bit value (a narrower comparison lets indices >= 2^16 select a table entry instead of the default); " + det
        nn_ += 1
        ck.ob("TAB", "interpreter:" + n, "table-selection", ok, det, rc.loc(tb))
    a = arm("Select")
    if a:
        reg, tb = a
        gl = sorted(bi for (bi, t) in rc.calls(r"machine::get_local$") if bi in reg)
        order = [b for b in rpo(rc) if b in gl]
        stores = []
        for b in sorted(reg):
            for s in rc.stmts(b):
                if s.get("lhs") and s["lhs"][1] == ["*"] and s["rv"].get("k") == "use":
                    src = [x[2] for x in rc.origins(s["rv"]["a"]) if x[0] == "call" and x[1].endswith("machine::get_local")]
                    stores.append((truth_of(conditions_at(rc, b), {"short"}), order.index(src[0]) if len(src) == 1 and src[0] in order else None))
        ok = len(order) == 3 and sorted(stores, key=str) == sorted([(True, 1), (False, 2)], key=str)
        nn_ += 1
        ck.ob("TAB", "interpreter:Select", "operand-choice", ok,
              "operands are read as (condition, second, first); condition == 0 selects the second, otherwise the first: %s" % stores, rc.loc(tb))
    a = arm("TickEnergy")
    if a:
        reg, tb = a
        sites = [(bi, t) for (bi, t) in rc.calls(r"Host::tick_energy$|Host<.*>::tick_energy$") if bi in reg]
        ok = len(sites) == 1 and rules.enforced_ok(rules.enforcement(rc, sites[0][0])) and has_call_origin(rc.origins(sites[0][1]["args"][1], deep=True), r"machine::get_u32$")
        nn_ += 1
        ck.ob("ENF", "interpreter:TickEnergy", "charge-enforced", ok, "the encoded amount is charged and running out of energy ends execution", rc.loc(tb))
    for n in ("Call", "CallIndirect"):
        a = arm(n)
        if not a:
            continue
        reg, tb = a
        tc = [(bi, t) for (bi, t) in rc.calls(r"Host::track_call$|Host<.*>::track_call$") if bi in reg]
        hc = [(bi, t) for (bi, t) in rc.calls(r"Host::call$|Host<.*>::call$") if bi in reg]
        ok = len(tc) == 1 and len(hc) == 1 and all(rules.enforced_ok(rules.enforcement(rc, bi)) for (bi, _) in tc + hc)
        pushes = [(bi, t) for (bi, t) in rc.calls(r"Vec::<T, A>::push$") if bi in reg and "FunctionState" in (t["f"].get("self") or "") + " ".join(t["f"].get("gargs") or []) + rc.locals[op_place(t["args"][1])[0]] if op_place(t["args"][1])]
        ok = ok and len(pushes) == 1 and rc.dominates(tc[0][0], pushes[0][0])
        nn_ += 1
        ck.ob("ENF", "interpreter:" + n, "call-depth-and-host-call-enforced", ok,
              "a call to a local function first passes track_call (enforced) and then pushes the caller's frame; the result of a host call is enforced", rc.loc(tb))
    a = arm("CallIndirect")
    if a:
        reg, tb = a
        rr = rc.reject_region()
        # blocks that build the 'type mismatch' error: reached only when every type test failed
        errs = []
        for b in sorted(reg):
            t = rc.term(b)
            if t["k"] == "call" and any(op_const(x) is not None and "Actual type different" in str(op_const(x).get("str", "")) for x in t["args"]):
                errs.append(b)
        res = []
        for b in errs:
            cs = conditions_at(rc, b)
            eqs = [("equal", v if k == "cmp:Eq" else (not v)) for (k, nn, v) in cs if k in ("cmp:Eq", "cmp:Ne")]
            res.append(eqs)
        ok = len(errs) == 2 and all(r and all(v is False for (_, v) in r) for r in res) and sorted(len(r) for r in res) == [1, 2]
        nn_ += 1
        ck.ob("CMP", "interpreter:CallIndirect", "type-test-enforced", ok,
              "the dynamic type test traps exactly when the expected type differs (imported: one equality; local: same index or structurally equal): %s" % res, rc.loc(tb))
    ck.floor("TAB", "control/accounting arm obligations", nn_, 9)


# ---------------------------------------------------------------------------------------------------------------------
# emission segments: wherever the compiler emits an internal opcode, the immediates that follow it on the straight path are
# the ones the interpreter's arm for that opcode reads first (kinds: loc = register operand, u16/u32/i32 = immediates)
EMIT = {"push_u16": "u16", "push_u32": "u32", "push_i32": "i32", "push_loc": "loc", "push_consume": "loc", "push_provide": "loc"}
READ = {"get_u16": "u16", "get_u32": "u32", "get_i32": "i32", "get_local": "loc", "get_local_mut": "loc"}


def _segment(c, f, start_bb, depth=0):
    """tokens emitted after the opcode push at the end of block start_bb, following the straight path; a branch whose arms
    emit the same tokens and meet again is passed through; stops at loops, helpers with their own structure, the next opcode"""
    rr = f.reject_region()

    def live_succ(t):
        return [b for b in ([tb for _, tb in t["t"]] + [t["o"]]) if b not in rr and f.term(b)["k"] != "unreachable"]

    def walk(cur, seen, budget):
        """returns (tokens, stop_block, finished) following from cur until a stop condition"""
        toks = []
        while cur is not None and budget > 0:
            budget -= 1
            if cur in seen:
                return toks, cur, True        # loop
            seen = seen | {cur}
            t = f.term(cur)
            k = t["k"]
            if k == "call":
                p = t["f"].get("path", "")
                nm = p.split("::")[-1]
                if re.search(r"artifact::Instructions::push$", p):
                    return toks, cur, True
                if re.search(r"artifact::(Instructions|BackPatch)::(push_u16|push_u32|push_i32|push_loc|push_consume|push_provide)$", p):
                    toks.append(EMIT[nm])
                elif re.search(r"artifact::BackPatch::(push_br_jump|push_br_if_jump|push_br_table_jump|insert_jump_location|push_binary|push_unary|push_ternary|push_mem_load|push_mem_store)$", p):
                    toks.append("<" + nm + ">")
                    return toks, cur, True
                cur = t.get("target")
            elif k == "goto":
                cur = t["target"]
            elif k == "switch":
                nxt = sorted(set(live_succ(t)))
                if len(nxt) == 1:
                    cur = nxt[0]
                    continue
                if len(nxt) != 2:
                    return toks, cur, True
                # diamond: both arms must reach a common block having emitted the same tokens
                reach = [f.reach_from([x]) for x in nxt]
                common = [b for b in rpo(f) if b in reach[0] and b in reach[1] and b not in rr]
                if not common:
                    return toks, cur, True
                join = common[0]
                arms = []
                for x in nxt:
                    a_toks, cur2, fin = [], x, False
                    steps = 0
                    ok = True
                    while cur2 != join and steps < 60:
                        steps += 1
                        tt = f.term(cur2)
                        if tt["k"] == "call":
                            pp = tt["f"].get("path", "")
                            if re.search(r"artifact::Instructions::push$|artifact::BackPatch::(push_br_jump|push_br_if_jump|push_br_table_jump|insert_jump_location|push_binary|push_unary|push_ternary|push_mem_load|push_mem_store)$", pp):
                                ok = False
                                break
                            if re.search(r"artifact::(Instructions|BackPatch)::(push_u16|push_u32|push_i32|push_loc|push_consume|push_provide)$", pp):
                                a_toks.append(EMIT[pp.split("::")[-1]])
                            cur2 = tt.get("target")
                        elif tt["k"] == "goto":
                            cur2 = tt["target"]
                        elif tt["k"] == "switch":
                            ls = sorted(set(live_succ(tt)))
                            if len(ls) != 1:
                                ok = False
                                break
                            cur2 = ls[0]
                        elif tt["k"] in ("drop", "assert"):
                            cur2 = tt.get("target")
                        else:
                            ok = False
                            break
                        if cur2 is None:
                            ok = False
                            break
                    arms.append(a_toks if ok and cur2 == join else None)
                if arms[0] is None or arms[0] != arms[1]:
                    return toks, cur, True
                toks += arms[0]
                cur = join
            elif k in ("drop", "assert"):
                cur = t.get("target")
            else:
                return toks, cur, True
        return toks, cur, True

    toks, _, _ = walk(f.term(start_bb).get("target"), frozenset(), 400)
    return toks


def segment_rules(ck, c, rc, rtab):
    n = 0
    for p in sorted(c.paths()):
        if not re.search(r"artifact::BackPatch::|BackPatch as concordium_wasm::validate::Handler<.*>>::handle_opcode$", p):
            continue
        for b in c.get_all(p):
            f = Fn(b)
            for (bi, t) in f.calls(r"artifact::Instructions::push$"):
                op = opname(f, t["args"][1])
                if op is None or op not in rtab:
                    continue
                seg = _segment(c, f, bi)
                reads = [READ.get({"src": "get_local", "dst": "get_local_mut"}.get(x, x), x) for x in rtab[op][0]]
                reads = [{"src": "loc", "dst": "loc"}.get(x, x) for x in rtab[op][0]]
                # a register operand is encoded as an i32 (get_local reads one): same width, same kind
                plain = ["loc" if x == "i32" else x for x in seg if not x.startswith("<")]
                reads = ["loc" if x == "i32" else x for x in reads]
                ok = plain == reads[:len(plain)]
                n += 1
                ck.ob("SYM", p, "segment:%s@%d" % (op, len([x for x in f.calls(r"artifact::Instructions::push$") if x[0] < bi])), ok,
                      "after emitting %s the compiler writes %s; the interpreter's arm reads %s" % (op, seg, reads), f.loc(bi))
    ck.floor("SYM", "opcode emission sites with agreeing operand prefix", n, 20)


# ---------------------------------------------------------------------------------------------------------------------
# providers stack: the compiler's register-provider stack mirrors the operand stack of the validator, so every arm must
# change its height exactly as the instruction's type prescribes (or cut it back to the operand stack's height after a
# stack-polymorphic instruction)
PSTACK = [(r"artifact::ProvidersStack::consume$", -1), (r"artifact::BackPatch::push_consume$", -1),
          (r"artifact::ProvidersStack::provide$", 1), (r"artifact::ProvidersStack::provide_existing$", 1), (r"artifact::BackPatch::push_provide$", 1),
          (r"artifact::ProvidersStack::push_constant$", 1),
          (r"artifact::BackPatch::push_binary$", -1), (r"artifact::BackPatch::push_unary$", 0), (r"artifact::BackPatch::push_ternary$", -2),
          (r"artifact::BackPatch::push_mem_load$", 0), (r"artifact::BackPatch::push_mem_store$", -2)]
HELPER_EFFECT = {"push_binary": (2, 1), "push_unary": (1, 1), "push_ternary": (3, 1), "push_mem_load": (1, 1), "push_mem_store": (2, 0),
                 "push_consume": (1, 0), "push_provide": (0, 1)}


def _arm_paths(f, region, entry):
    """acyclic paths through an arm: [(net effect, resynced, [loop body effects])]"""
    rr = f.reject_region()
    out = []

    def eff(b):
        t = f.term(b)
        if t["k"] != "call":
            return 0, False
        p = t["f"].get("path", "")
        if re.search(r"artifact::ProvidersStack::truncate$", p):
            return 0, True
        for pat, e in PSTACK:
            if re.search(pat, p):
                return e, False
        return 0, False

    def dfs(b, net, res, pathpos, loops, depth):
        if depth > 400 or len(out) > 4000:
            return
        if b not in region:
            out.append((net, res, tuple(loops)))
            return
        if b in rr or f.term(b)["k"] == "unreachable":
            return
        if b in pathpos:
            loops = loops + [net - pathpos[b]]
            out.append(("loop", res, tuple(loops)))
            return
        e, r = eff(b)
        pp = dict(pathpos)
        pp[b] = net
        t = f.term(b)
        nxt = [t.get("target")] if t["k"] in ("call", "drop", "assert") else f.succ(b)     # no unwind edges
        for s in sorted(set(x for x in nxt if x is not None)):
            dfs(s, net + e, res or r, pp, loops, depth + 1)
    dfs(entry, 0, False, {}, [], 0)
    return out


def pstack_rules(ck, c, hf, hsw, onames):
    spec = json.load(open(os.path.join(os.path.dirname(SPEC), "wasm_typing.json")))["instructions"]
    POLY = {"Br", "BrTable", "Return", "Unreachable"}
    SKIP = {"End": "block exits reconcile the value with the block's result register (copies, reachability cases)",
            "Else": "ends the then-branch through the branch helper",
            "Block": "no operand", "Loop": "no operand", "TickEnergy": "no operand", "Nop": "no operand"}
    helper_ok = True
    # the helpers' own effect
    for nm, (cn, pn) in sorted(HELPER_EFFECT.items()):
        hp = [p for p in c.paths() if p.endswith("artifact::BackPatch::" + nm)]
        if not ck.anchor(len(hp) == 1, "TAB", "BackPatch::" + nm, "helper exists"):
            continue
        g = Fn(c.get(hp[0]))
        cons = len(g.calls(r"artifact::ProvidersStack::consume$|artifact::BackPatch::push_consume$"))
        prov = len(g.calls(r"artifact::ProvidersStack::provide$|artifact::ProvidersStack::provide_existing$|artifact::BackPatch::push_provide$"))
        ck.ob("TAB", hp[0], "helper-stack-effect", (cons, prov) == (cn, pn), "%s consumes %d and provides %d register providers (expected %d, %d)" % (nm, cons, prov, cn, pn), g.loc())
    n = 0
    done = {}
    # the block where all arms meet again: everything an arm can reach before it belongs to the arm
    rr_ = hf.reject_region()
    entries = sorted(set(tb for _, tb in hsw[1]["t"]))
    common = None
    for tb in entries[:40]:
        r = hf.reach_from([tb])
        common = r if common is None else (common & r)
    order = [b for b in rpo(hf) if common and b in common and b not in rr_]
    join = order[0] if order else None
    after = hf.reach_from([join]) if join is not None else set()
    for v, tb in hsw[1]["t"]:
        name = onames[int(v)]
        sp = spec.get(name)
        if sp is None:
            continue
        if name in SKIP:
            continue
        if tb not in done:
            region = (hf.reach_from([tb]) | {tb}) - after
            done[tb] = (_arm_paths(hf, region, tb), region)
        paths, region = done[tb]
        pops = sum(1 for e in sp["spec"] if e.startswith("pop") and not e.endswith("*"))
        pushes = sum(1 for e in sp["spec"] if e.startswith("push") and not e.endswith("*"))
        n += 1
        if name in POLY:
            ok = bool(paths) and all(res for (net, res, loops) in paths if net != "loop")
            ck.ob("TAB", "compile:" + name, "providers-stack-resynced", ok,
                  "after this stack-polymorphic instruction the providers stack is cut back to the operand stack's height on every path" if ok else
                  "some path through the arm leaves the providers stack as it is: it no longer has the height of the operand stack", hf.loc(tb))
            continue
        if name in ("Call", "CallIndirect"):
            loops = [l for (net, res, ls) in paths for l in ls]
            fixed = 1 if name == "CallIndirect" else 0
            nets = sorted(set(net for (net, res, ls) in paths if net != "loop"))
            ok = bool(loops) and all(l == -1 for l in loops) and nets and all(x in (-fixed, -fixed + 1) for x in nets)
            ck.ob("TAB", "compile:" + name, "providers-stack-effect", ok,
                  "one provider is consumed per parameter%s and at most one is provided for the result (loop effects %s, other paths %s)" % (" plus the table index" if fixed else "", sorted(set(loops)), nets), hf.loc(tb))
            continue
        def want_of(nm2):
            sp2 = spec[nm2]["spec"]
            if nm2 == "BrIf":
                return -1       # the condition; the carried value stays where it is
            return sum(1 for e in sp2 if e.startswith("push") and not e.endswith("*")) - sum(1 for e in sp2 if e.startswith("pop") and not e.endswith("*"))
        core = region - rr_ - {tb}
        sharing = [onames[int(v2)] for v2, tb2 in hsw[1]["t"] if tb2 == tb or (((hf.reach_from([tb2]) | {tb2}) - after - rr_ - {tb2}) & core)]
        sharing = sorted(set(sharing) | {name})
        wants = sorted(set(want_of(x) for x in sharing if x in spec))
        nets = sorted(set(net for (net, res, ls) in paths if net != "loop" and not res))
        ok = nets == wants or (not nets and any(res for (_, res, _) in paths))
        ck.ob("TAB", "compile:" + name, "providers-stack-effect", ok,
              "every path changes the providers stack by %s, as the instruction type%s" % (wants, " does" if len(sharing) == 1 else "s of %s do" % sharing) if ok else
              "paths through the arm change the providers stack by %s, the instruction type%s require%s %s" % (nets, "" if len(sharing) == 1 else "s of %s" % sharing, "s" if len(sharing) == 1 else "", wants), hf.loc(tb))
    ck.floor("TAB", "arms whose providers-stack effect is compared with the instruction type", n, 95)


def misc_arm_rules(ck, c, rc, rtab, hf):
    """eqz, memory.size/grow, the copies the compiler inserts, and the driver loop of the validator"""
    n = 0
    for name, field in (("I32Eqz", "short"), ("I64Eqz", "long")):
        if not ck.anchor(name in rtab, "TAB", "interpreter:" + name, "interpreter arm exists"):
            continue
        _, reg, tb = rtab[name]
        ok, det = False, "no comparison with zero found"
        for cx in rules.comparisons(rc):
            if cx["bb"] not in reg or cx["op"] not in ("Eq", "Ne"):
                continue
            oa, ob = rc.origins(cx["a"]), rc.origins(cx["b"])
            if not ((("field", field) in oa and ("lit", 0) in ob) or (("field", field) in ob and ("lit", 0) in oa)):
                det = "the compared operand is not the %s view" % field
                continue
            br = rules.cmp_branches(rc, cx)
            if not br:
                continue
            vals = {}
            for side, blk in (("holds", br[1]), ("fails", br[2])):
                for s in rc.stmts(blk):
                    k = op_const(s["rv"].get("a", {})) if s.get("rv", {}).get("k") == "use" else None
                    if k is not None and k.get("ty") in ("i32", "i64"):
                        vals[side] = const_int(k)
            want = {"holds": 1, "fails": 0} if cx["op"] == "Eq" else {"holds": 0, "fails": 1}
            ok = vals == want
            det = "result is 1 exactly when the %s operand equals 0 (found %s for `%s 0`)" % (field, vals, cx["op"])
        n += 1
        ck.ob("TAB", "interpreter:" + name, "eqz", ok, det, rc.loc(tb))
    if ck.anchor("MemoryGrow" in rtab, "TAB", "interpreter:MemoryGrow", "interpreter arm exists"):
        _, reg, tb = rtab["MemoryGrow"]
        fails = []
        for b in sorted(reg):
            for s in rc.stmts(b):
                k = op_const(s["rv"].get("a", {})) if s.get("rv", {}).get("k") == "use" else None
                if k is not None and k.get("ty") == "i32" and const_int(k) in (-1, 4294967295):
                    cs = [(kk, v) for (kk, nn, v) in conditions_at(rc, b) if kk.startswith("cmp:") and ("arg" in "".join(nn) or True)]
                    fails.append((b, cs))
        sl = [(bi, t) for (bi, t) in rc.calls(r"Vec::<T, A>::set_len$") if bi in reg]
        ok = len(fails) == 1 and any(kk == "cmp:Gt" and v is True for (kk, v) in fails[0][1]) and len(sl) == 1
        det = "returns -1 exactly when current pages + requested pages > maximum"
        if ok:
            o = rc.origins(sl[0][1]["args"][1], deep=True)
            ok = any(a[0] == "bin" and a[1].startswith("Mul") for a in o) and any(a[0] == "bin" and a[1].startswith("Add") for a in o) and \
                any(a[0] == "const" and a[1].endswith("PAGE_SIZE") for a in o) and ("cast", "u32") in o
            det += "; the new length is (current + requested) pages with the request read as unsigned"
        n += 1
        ck.ob("TAB", "interpreter:MemoryGrow", "grow", ok, det, rc.loc(tb))
    # copies inserted by the compiler: Copy(src -> dst) is emitted exactly when src differs from dst
    ncp = 0
    for (bi, t) in hf.calls(r"artifact::Instructions::push$"):
        if opname(hf, t["args"][1]) != "Copy":
            continue
        eqs = [(kk, v) for (kk, nn, v) in conditions_at(hf, bi) if kk in ("cmp:Eq", "cmp:Ne")]
        prov = [(kk, v) for (kk, v) in eqs]
        if not prov:
            continue
        ncp += 1
        kk, v = prov[-1]
        differs = (v if kk == "cmp:Ne" else (not v))
        ck.ob("DOM", hf.path, "copy-iff-locations-differ@%d" % ncp, differs, "a copy into the result register is emitted exactly when the value is not already there", hf.loc(bi))
    ck.floor("DOM", "conditional copies in the compiler", ncp, 2)
    n += ncp
    # the validator drives the compiler: every instruction reaches the handler, and its verdict counts
    vf = getfn(ck, "sc", W, W + "::validate::validate")
    if vf:
        hs = vf.calls(r"validate::Handler::handle_opcode$|Handler<.*>::handle_opcode$")
        fin = vf.calls(r"validate::Handler::finish$|Handler<.*>::finish$")
        nx = [bi for (bi, t) in vf.calls(r"Iterator::next$") if bi in vf.reach_from(vf.succ(bi))]
        ok = len(hs) == 1 and rules.enforced_ok(rules.enforcement(vf, hs[0][0])) and bool(nx) and hs[0][0] in vf.reach_from(vf.succ(nx[0])) and nx[0] in vf.reach_from([hs[0][0]])
        ck.ob("ENF", vf.path, "every-instruction-handed-to-the-compiler", ok, "inside the instruction loop the handler is called once per instruction and its failure is propagated", vf.loc(hs[0][0]) if hs else vf.loc())
        ok = len(fin) == 1 and (rules.enforced_ok(rules.enforcement(vf, fin[0][0])) or vf.term(fin[0][0])["dest"][0] == 0)
        ck.ob("ENF", vf.path, "handler-finish-is-the-result", ok, "the outcome is what the handler's finish returns", vf.loc())
        n += 2
    ck.floor("TAB", "eqz/grow/copy/driver obligations", n, 7)


def who_rules(ck, c):
    """the providers stack is changed only through its own operations (which keep the pool of reusable registers in step
    with the stack); the one documented exception rewrites slots in place while preserving a local (LocalSet/LocalTee)"""
    sites = []
    for p in sorted(c.paths()):
        if re.search(r"artifact::ProvidersStack::", p):
            continue
        for b in c.get_all(p):
            f = Fn(b)
            for bi in f.reachable():
                for s in f.stmts(bi):
                    rv = s.get("rv", {})
                    pl = None
                    if rv.get("k") == "ref" and rv.get("mut"):
                        pl = rv["p"]
                    elif "lhs" in s and s["lhs"][1]:
                        pl = s["lhs"]
                    if pl and any(str(x).endswith(":stack") for x in pl[1]) and any(str(x).endswith(":providers_stack") for x in pl[1]):
                        # how is the borrowed vector used?
                        uses = []
                        fw = f.forward({s["lhs"][0]}) if "lhs" in s else set()
                        for (b2, t2) in f.calls():
                            if any((op_place(a) or [None])[0] in fw for a in t2["args"]):
                                uses.append(t2["f"].get("path", "?").split("::")[-1])
                        sites.append((p, bi, uses, f))
    ok_all = True
    for (p, bi, uses, f) in sites:
        ok = bool(uses) and all(u in ("iter_mut", "deref_mut", "into_iter", "next", "len", "deref") for u in uses)
        ok_all = ok_all and ok
        ck.ob("WHO", p, "providers-stack-touched-directly@bb%d" % bi, ok,
              "slots are rewritten in place (iteration), the height and the register pool are untouched" if ok else
              "the providers stack is modified directly (%s) outside ProvidersStack: the pool of reusable registers is not updated with it" % uses, f.loc(bi))
    ck.ob("WHO", "ProvidersStack.stack", "direct-mutable-accesses", len(sites) <= 1, "%d mutable accesses outside ProvidersStack (the LocalSet/LocalTee preservation loop)" % len(sites), "", nontrivial=False)
