"""C09 — validation admits only safe modules; parsing/validation total (structural part)."""
import json, os
from .common import *
from .codec import alloc_err_sweep
from vlib import tagtable, sweeps, sym
from vlib.callgraph import CallGraph

META = dict(
    technique="static analysis: opcode decode table against the Wasm specification, limit-comparison orientation sweep, evaluated-constant relations, import/export policy table agreement, bounded-allocation and error-discipline sweeps over compiler MIR",
    text=("Structural necessary conditions: the byte->instruction decode table equals the WebAssembly 1.0 table restricted to the integer "
          "subset plus the five sign-extension operators (no floating-point byte decodes, every accepted byte maps to the instruction "
          "the specification assigns, unknown bytes reject, sign-extension bytes only under the protocol flag); every comparison "
          "against a protocol limit constant is branched on and rejects when the limit is exceeded, with at least the counted number "
          "of enforcement sites per limit; the limit constants satisfy the arithmetic relations the unchecked interpreter code relies "
          "on; the internal opcode discriminants are contiguous from zero; the host-import name sets accepted by validation equal the "
          "sets the compiler can translate, for both contract versions; pre-allocations in parsing/validation/compilation are bounded "
          "and no unwrap is applied to input-derived values. Well-typedness acceptance 'iff', termination and general bounds safety of "
          "execution are NOT decided."),
)

W = "concordium_wasm"
E = "concordium_smart_contract_engine"
SPEC = os.path.join(os.path.dirname(os.path.dirname(os.path.abspath(__file__))), "spec", "wasm_opcodes.json")
LIMIT_FLOORS = {"MAX_NAME_SIZE": 1, "MAX_INIT_TABLE_SIZE": 2, "MAX_INIT_MEMORY_SIZE": 1, "ALLOWED_LOCALS": 1, "MAX_SWITCH_SIZE": 1,
                "MAX_NUM_GLOBALS": 1, "MAX_ALLOWED_STACK_HEIGHT": 1, "MAX_NUM_EXPORTS": 1}
LIMIT_VALUES = {"ALLOWED_LOCALS": 1024, "MAX_INIT_TABLE_SIZE": 1000, "PAGE_SIZE": 65536, "MAX_INIT_MEMORY_SIZE": 32, "MAX_NUM_PAGES": 512,
                "MAX_ALLOWED_STACK_HEIGHT": 1024, "MAX_NUM_GLOBALS": 1024, "MAX_SWITCH_SIZE": 4096, "MAX_NUM_EXPORTS": 100, "MAX_NAME_SIZE": 512,
                "MAX_PREALLOCATED_BYTES": 1000}


def camel(n):
    return "".join(p[:1].upper() + p[1:] for p in re.split(r"[._]", n))


def run(ck):
    ck.explanation = ("Decides the decode table against the specification, orientation and presence of every limit comparison, the "
                      "constant relations, agreement of the import-name tables, and bounded allocation / error discipline of the "
                      "parsing, validation and compilation code.")
    ck.undecided = ("a module is accepted iff it is well typed (typing rules as values); termination of parsing/validation; executing an "
                    "accepted module never indexes out of bounds (runtime values).")
    ck.rules_text = "TAB(spec)/CMP sweep/CONST/TAB(policy)/ALLOC/ERR over MIR of wasm-transform and the import policies of wasm-chain-integration"
    c = crate("sc", W)
    e = crate("sc", E)
    spec = json.load(open(SPEC))
    want = {}
    for grp in ("control", "parametric", "variable", "memory", "numeric", "sign_extension"):
        for b, n in spec[grp].items():
            want[int(b, 16)] = camel(n)
    f = getfn(ck, "sc", W, W + "::parse::decode_opcode")
    if f:
        rt, dr = tagtable.reader_table(f, W + "::types::OpCode")
        got = {k: v[0] for k, v in rt.items()}
        ck.floor("TAB", "decodable opcodes", len(got), 109)
        for b in sorted(set(want) | set(got)):
            ok = want.get(b) == got.get(b)
            if not ok or b in (0x0B, 0x41, 0x6A, 0xC0):
                ck.ob("TAB", f.path, "byte:0x%02X" % b, ok, "specification: %s, decoded as: %s" % (want.get(b), got.get(b)), f.loc(),
                      sample=dict(rule="TAB", byte="0x%02X" % b, spec=want.get(b), decoded=got.get(b)))
        ck.ob("TAB", f.path, "decode-table-equals-spec", want == got, "%d bytes decode, all as the specification assigns; no other byte decodes" % len(got), f.loc())
        ck.ob("TAB", f.path, "unknown-byte-rejected", dr is True, "bytes outside the table lead to a rejecting return", f.loc())
        # sign extension bytes only under the protocol flag
        for (sb, st, rd) in sweeps.tag_switches(f)[:1]:
            for v, tb in st["t"]:
                if int(v) in (0xC0, 0xC1, 0xC2, 0xC3, 0xC4):
                    region = sym.dominated(f, tb)
                    guards = [(b2, s2) for (b2, s2) in f.switches() if b2 in region and ("arg", 1) in f.origins(s2["d"])]
                    aggb = [b for b in region for s in f.stmts(b) if s.get("rv", {}).get("k") == "agg" and s["rv"].get("adt", "").endswith("types::OpCode")] + \
                           [b for b in region for s in f.stmts(b) if s.get("rv", {}).get("k") == "use" and op_const(s["rv"]["a"]) and "OpCode::" in op_const(s["rv"]["a"]).get("s", "")]
                    ok = len(guards) == 1 and aggb and all(f.dominates(guards[0][0], b) and b != guards[0][0] for b in aggb)
                    if ok:
                        g = guards[0][1]
                        false_t = [t2 for vv, t2 in g["t"] if vv == "0"]
                        ok = bool(false_t) and false_t[0] in f.reject_region()
                    ck.ob("TAB", f.path, "sign-extension-guard:0x%02X" % int(v), ok, "decoded only when allow_sign_extension_instr is set; otherwise rejected", f.loc(tb))
                else:
                    region = sym.dominated(f, tb)
                    if any(("arg", 1) in f.origins(s2["d"]) for (b2, s2) in f.switches() if b2 in region):
                        ck.ob("TAB", f.path, "no-flag-on:0x%02X" % int(v), False, "a Wasm 1.0 opcode is made conditional on the sign-extension flag", f.loc(tb))
    adt = c.adts.get(W + "::types::OpCode")
    if adt:
        names = [v["name"] for v in adt["variants"]]
        extra = sorted(set(names) - set(want.values()))
        ck.ob("TAB", W + "::types::OpCode", "only-TickEnergy-is-internal", extra == ["TickEnergy"], "instructions without a binary opcode: %s" % extra, "")

    # limits: every comparison against a limit constant rejects when the limit is exceeded
    K = re.compile(r"concordium_wasm::constants::(MAX_[A-Z_]+|ALLOWED_LOCALS)$")
    counts = {}
    for p in sorted(c.paths()):
        for b in c.get_all(p):
            f = Fn(b)
            for cx in rules.comparisons(f):
                for side in ("a", "b"):
                    o = f.origins(cx[side])
                    ks = [a[1] for a in o if a[0] == "const" and K.search(a[1])]
                    if not ks or not all(a[0] in ("const", "lit", "cast", "bin") for a in o):
                        continue
                    rel, d = rules.cmp_rejects(f, cx)
                    if rel is not None and side == "a":
                        rel = rules.FLIP[rel]
                    kn = ks[0].split("::")[-1]
                    counts[kn] = counts.get(kn, 0) + (1 if rel in ("Gt", "Ge") else 0)
                    ck.ob("CMP", p, "limit:%s@%d" % (kn, counts.get(kn, 0)), rel in ("Gt", "Ge"),
                          "rejects when the value %s %s" % ({"Gt": ">", "Ge": ">="}.get(rel, str(rel)), kn) if rel else "comparison with %s is not enforced (%s)" % (kn, d), f.loc(cx["bb"]))
    for kn, fl in sorted(LIMIT_FLOORS.items()):
        ck.floor("CMP", "enforcement sites of " + kn, counts.get(kn, 0), fl)
    # segment offsets are interpreted as unsigned before their end is bounded (compilation indexes with `offset as usize`)
    vm = getfn(ck, "sc", W, W + "::validate::validate_module")
    if vm:
        nseg = 0
        for cx in rules.comparisons(vm):
            for side, other in (("a", "b"), ("b", "a")):
                o = vm.origins(cx[side], deep=True)
                oo = vm.origins(cx[other], deep=True)
                if ("field", "offset") in o and ("field", "min") in oo and ("field", "offset") not in oo:
                    nseg += 1
                    unsigned = ("cast", "u32") in o or has_call_origin(o, r"TryInto::try_into$|TryFrom::try_from$")
                    signed_arith = has_call_origin(o, r"_signed$|checked_add_signed|wrapping_add_signed|saturating_add_signed")
                    plain_add = has_call_origin(o, r"num::<impl u32>::checked_add$|::checked_add$")
                    ck.ob("DEFUSE", vm.path, "segment-end-unsigned#%d" % nseg, unsigned and plain_add and not signed_arith,
                          "segment end = (offset as unsigned) checked_add length, compared with the declared minimum" if unsigned and plain_add and not signed_arith else
                          "the segment end is computed with signed arithmetic / without reinterpreting the offset as unsigned: a negative offset passes validation", vm.loc(cx["bb"]))
        ck.floor("DEFUSE", "segment end comparisons against the declared minimum", nseg, 1)

    # values and relations
    cv = {}
    for kn, val in sorted(LIMIT_VALUES.items()):
        k = c.consts.get(W + "::constants::" + kn)
        v = int(k["v"]) if k and k.get("v") is not None else None
        cv[kn] = v
        ck.ob("CONST", W + "::constants::" + kn, "protocol-value", v == val, "evaluates to %s (protocol value %d)" % (v, val), "")
    if all(v is not None for v in cv.values()):
        rels = [("MAX_NUM_GLOBALS <= 2^16 (global indices are emitted as u16)", cv["MAX_NUM_GLOBALS"] <= 1 << 16),
                ("MAX_SWITCH_SIZE <= u16::MAX", cv["MAX_SWITCH_SIZE"] <= 0xFFFF),
                ("ALLOWED_LOCALS + MAX_ALLOWED_STACK_HEIGHT <= 2^15 (register operands are i32, constants use the negative range)", cv["ALLOWED_LOCALS"] + cv["MAX_ALLOWED_STACK_HEIGHT"] <= 1 << 15),
                ("MAX_INIT_MEMORY_SIZE <= MAX_NUM_PAGES (set_len of the initial memory stays inside the allocation)", cv["MAX_INIT_MEMORY_SIZE"] <= cv["MAX_NUM_PAGES"]),
                ("MAX_NUM_PAGES * PAGE_SIZE <= u32::MAX", cv["MAX_NUM_PAGES"] * cv["PAGE_SIZE"] <= 0xFFFFFFFF)]
        for n, (txt, ok) in enumerate(rels):
            ck.ob("CONST", W + "::constants", "relation#%d" % n, ok, txt, "")
    io = c.adts.get(W + "::artifact::InternalOpcode")
    if ck.anchor(io is not None, "CONST", "InternalOpcode", "enum exists"):
        ds = [int(v["discr"]) for v in io["variants"]]
        ck.ob("CONST", W + "::artifact::InternalOpcode", "contiguous-discriminants", ds == list(range(len(ds))) and len(ds) <= 256,
              "%d internal opcodes with discriminants 0..=%d (the interpreter transmutes the byte)" % (len(ds), len(ds) - 1), "")
        ck.floor("CONST", "internal opcodes", len(ds), 101)

    # import policy tables
    for ver in ("v0", "v1"):
        vf = find_impl(ck, "sc", E, r"%s::types::ConcordiumAllowedImports$" % ver, r"ValidateImportExport$", "validate_import_function")
        tf = find_impl(ck, "sc", E, r"%s::types::ProcessedImports$" % ver, r"TryFromImport$", "try_from_import")
        if not (vf and tf):
            continue

        def names_of(fn):
            out = set()
            for (bi, t) in fn.calls(r"cmp::PartialEq::eq$"):
                for a in t["args"]:
                    k = op_const(a)
                    if k and "str" in k:
                        out.add(k["str"])
                    elif k and "promoted" in k:
                        out |= set(x[1] for x in fn.promoted_atoms(k["promoted"]) if x[0] == "str")
            return out
        nv, nt = names_of(vf), names_of(tf)
        mods = {"concordium", "concordium_metering"}
        only_v = sorted(nv - nt - mods)
        only_t = sorted(nt - nv - mods - {"account_memory"})
        ck.ob("TAB", "%s import policy" % ver, "validated-names-are-translatable", not only_v, "%d names accepted by validation, all translatable by the compiler" % len(nv - mods) if not only_v else "accepted but not translatable: %s" % only_v, vf.loc())
        ck.ob("TAB", "%s import policy" % ver, "translatable-names-are-validated", not only_t, "no host function is translatable without being validated" if not only_t else "translatable but never validated: %s" % only_t, tf.loc())
        ck.floor("TAB", "%s host import names" % ver, len(nv - mods), 20 if ver == "v0" else 34)
        acc, rej = vf.accept_points()
        ck.ob("TAB", vf.path, "unknown-import-rejected", len(rej) >= 2, "%d constant-false returns (duplicate, unknown module, unknown name)" % len(rej), vf.loc(), nontrivial=False)
        ef = find_impl(ck, "sc", E, r"%s::types::ConcordiumAllowedImports$" % ver, r"ValidateImportExport$", "validate_export_function")
        if ef:
            acc, rej = ef.accept_points()
            ck.ob("TAB", ef.path, "has-rejecting-path", len(rej) >= 1, "%d rejecting returns" % len(rej), ef.loc(), nontrivial=False)

    # allocation / error discipline in parse, validate, compile
    cg = CallGraph([c])
    roots = [p for p in cg.bodies if re.search(r"parse::parse_skeleton$|validate::validate_module$|compile_module$|parse::.*Parseable.*::parse$|artifact::.*::compile$", p) and "artifact_input" not in p]
    ck.floor("ALLOC", "parse/validate/compile roots", len(roots), 40)
    alloc_err_sweep(ck, cg, roots, floor=4, scope_pred=lambda p: "artifact_input" not in p,
                    err_exceptions={})
    # RunConfig cannot be fabricated: all fields private
    rc = c.adts.get(W + "::machine::RunConfig")
    if rc:
        pubf = [f["name"] for f in rc["variants"][0]["fields"] if f["pub"]]
        ck.ob("WHO", W + "::machine::RunConfig", "fields-private", not pubf, "no public field: a suspended configuration cannot be constructed or altered outside the interpreter module" if not pubf else "public fields: %s" % pubf, "")
