"""C09 — validation admits only safe modules; parsing/validation total (structural part)."""
import json, os
from .common import *
from .codec import alloc_err_sweep
from vlib import tagtable, sweeps, sym
from vlib.callgraph import CallGraph

META = dict(
    technique="static analysis: opcode decode table against the Wasm specification, limit-comparison orientation sweep, evaluated-constant relations, import/export policy table agreement, bounded-allocation and error-discipline sweeps over compiler MIR",
    text=("Structural necessary conditions: the byte->instruction decode table equals the WebAssembly 1.0 table restricted to the integer "
          "subset plus the five sign-extension operators (no floating-point byte decodes, every accepted byte maps to the instruction "
          "the specification assigns, unknown bytes reject, sign-extension bytes only under the protocol flag); every comparison "
          "against a protocol limit constant is branched on and rejects when the limit is exceeded, with at least the counted number "
          "of enforcement sites per limit; the limit constants satisfy the arithmetic relations the unchecked interpreter code relies "
          "on; the internal opcode discriminants are contiguous from zero; the host-import name sets accepted by validation equal the "
          "sets the compiler can translate, for both contract versions; pre-allocations in parsing/validation/compilation are bounded "
          "and no unwrap is applied to input-derived values. Well-typedness acceptance 'iff', termination and general bounds safety of "
          "execution are NOT decided."),
)

W = "concordium_wasm"
E = "concordium_smart_contract_engine"
SPEC = os.path.join(os.path.dirname(os.path.dirname(os.path.abspath(__file__))), "spec", "wasm_opcodes.json")
LIMIT_FLOORS = {"MAX_NAME_SIZE": 1, "MAX_INIT_TABLE_SIZE": 2, "MAX_INIT_MEMORY_SIZE": 1, "ALLOWED_LOCALS": 1, "MAX_SWITCH_SIZE": 1,
                "MAX_NUM_GLOBALS": 1, "MAX_ALLOWED_STACK_HEIGHT": 1, "MAX_NUM_EXPORTS": 1}
# limits that are conditional by nature (reason each); all others must dominate every accepting return of their function
COND_LIMITS = {("MAX_SWITCH_SIZE", "validate"): "applies to the br_table arm only",
               ("MAX_ALLOWED_STACK_HEIGHT", "validate_module"): "tested per function body inside the loop over the code section (a module without functions has nothing to bound)",
               ("MAX_INIT_TABLE_SIZE", "validate_module"): "tested per element segment inside the loop over them (no segments, nothing to bound)"}
LIMIT_VALUES = {"ALLOWED_LOCALS": 1024, "MAX_INIT_TABLE_SIZE": 1000, "PAGE_SIZE": 65536, "MAX_INIT_MEMORY_SIZE": 32, "MAX_NUM_PAGES": 512,
                "MAX_ALLOWED_STACK_HEIGHT": 1024, "MAX_NUM_GLOBALS": 1024, "MAX_SWITCH_SIZE": 4096, "MAX_NUM_EXPORTS": 100, "MAX_NAME_SIZE": 512,
                "MAX_PREALLOCATED_BYTES": 1000}


def camel(n):
    return "".join(p[:1].upper() + p[1:] for p in re.split(r"[._]", n))


def run(ck):
    ck.explanation = ("Decides the decode table against the specification, orientation and presence of every limit comparison, the "
                      "constant relations, agreement of the import-name tables, and bounded allocation / error discipline of the "
                      "parsing, validation and compilation code.")
    ck.undecided = ("a module is accepted iff it is well typed (typing rules as values); termination of parsing/validation; executing an "
                    "accepted module never indexes out of bounds (runtime values).")
    ck.rules_text = "TAB(spec)/CMP sweep/CONST/TAB(policy)/ALLOC/ERR over MIR of wasm-transform and the import policies of wasm-chain-integration"
    c = crate("sc", W)
    e = crate("sc", E)
    spec = json.load(open(SPEC))
    want = {}
    for grp in ("control", "parametric", "variable", "memory", "numeric", "sign_extension"):
        for b, n in spec[grp].items():
            want[int(b, 16)] = camel(n)
    f = getfn(ck, "sc", W, W + "::parse::decode_opcode")
    if f:
        rt, dr = tagtable.reader_table(f, W + "::types::OpCode")
        got = {k: v[0] for k, v in rt.items()}
        ck.floor("TAB", "decodable opcodes", len(got), 109)
        for b in sorted(set(want) | set(got)):
            ok = want.get(b) == got.get(b)
            if not ok or b in (0x0B, 0x41, 0x6A, 0xC0):
                ck.ob("TAB", f.path, "byte:0x%02X" % b, ok, "specification: %s, decoded as: %s" % (want.get(b), got.get(b)), f.loc(),
                      sample=dict(rule="TAB", byte="0x%02X" % b, spec=want.get(b), decoded=got.get(b)))
        ck.ob("TAB", f.path, "decode-table-equals-spec", want == got, "%d bytes decode, all as the specification assigns; no other byte decodes" % len(got), f.loc())
        ck.ob("TAB", f.path, "unknown-byte-rejected", dr is True, "bytes outside the table lead to a rejecting return", f.loc())
        # sign extension bytes only under the protocol flag
        for (sb, st, rd) in sweeps.tag_switches(f)[:1]:
            for v, tb in st["t"]:
                if int(v) in (0xC0, 0xC1, 0xC2, 0xC3, 0xC4):
                    region = sym.dominated(f, tb)
                    guards = [(b2, s2) for (b2, s2) in f.switches() if b2 in region and ("arg", 1) in f.origins(s2["d"])]
                    aggb = [b for b in region for s in f.stmts(b) if s.get("rv", {}).get("k") == "agg" and s["rv"].get("adt", "").endswith("types::OpCode")] + \
                           [b for b in region for s in f.stmts(b) if s.get("rv", {}).get("k") == "use" and op_const(s["rv"]["a"]) and "OpCode::" in op_const(s["rv"]["a"]).get("s", "")]
                    ok = len(guards) == 1 and aggb and all(f.dominates(guards[0][0], b) and b != guards[0][0] for b in aggb)
                    if ok:
                        g = guards[0][1]
                        false_t = [t2 for vv, t2 in g["t"] if vv == "0"]
                        ok = bool(false_t) and false_t[0] in f.reject_region()
                    ck.ob("TAB", f.path, "sign-extension-guard:0x%02X" % int(v), ok, "decoded only when allow_sign_extension_instr is set; otherwise rejected", f.loc(tb))
                else:
                    region = sym.dominated(f, tb)
                    if any(("arg", 1) in f.origins(s2["d"]) for (b2, s2) in f.switches() if b2 in region):
                        ck.ob("TAB", f.path, "no-flag-on:0x%02X" % int(v), False, "a Wasm 1.0 opcode is made conditional on the sign-extension flag", f.loc(tb))
    adt = c.adts.get(W + "::types::OpCode")
    if adt:
        names = [v["name"] for v in adt["variants"]]
        extra = sorted(set(names) - set(want.values()))
        ck.ob("TAB", W + "::types::OpCode", "only-TickEnergy-is-internal", extra == ["TickEnergy"], "instructions without a binary opcode: %s" % extra, "")

    # limits: every comparison against a limit constant rejects when the limit is exceeded
    K = re.compile(r"concordium_wasm::constants::(MAX_[A-Z_]+|ALLOWED_LOCALS)$")
    counts = {}
    for p in sorted(c.paths()):
        for b in c.get_all(p):
            f = Fn(b)
            for cx in rules.comparisons(f):
                for side in ("a", "b"):
                    o = f.origins(cx[side])
                    ks = [a[1] for a in o if a[0] == "const" and K.search(a[1])]
                    if not ks or not all(a[0] in ("const", "lit", "cast", "bin") for a in o):
                        continue
                    rel, d = rules.cmp_rejects(f, cx)
                    if rel is not None and side == "a":
                        rel = rules.FLIP[rel]
                    kn = ks[0].split("::")[-1]
                    counts[kn] = counts.get(kn, 0) + (1 if rel in ("Gt", "Ge") else 0)
                    # every protocol maximum is inclusive (all nine sites admit the value equal to the limit): `>=` would
                    # refuse modules the protocol admits
                    ck.ob("CMP", p, "limit:%s@%d" % (kn, counts.get(kn, 0)), rel == "Gt",
                          "rejects exactly when the value > %s" % kn if rel == "Gt" else
                          ("rejects when the value >= %s: the limit itself is refused although the maximum is inclusive" % kn if rel == "Ge" else "comparison with %s is not enforced (%s)" % (kn, d)), f.loc(cx["bb"]))
                    # and the limit is enforced on every accepting path of the function (a limit tested in one arm only is no limit)
                    acc, _ = f.accept_points()
                    br = rules.cmp_branches(f, cx)
                    sb = br[0] if br else cx["bb"]
                    uncond = all(f.dominates(sb, a) for a in acc)
                    why = COND_LIMITS.get((kn, p.split("::")[-1]))
                    if why is None:
                        ck.ob("DOM", p, "limit-on-every-accepting-path:%s" % kn, uncond,
                              "the comparison with %s dominates every accepting return" % kn if uncond else
                              "the comparison with %s is made on some paths only: an accepting return avoids it" % kn, f.loc(sb))
    for kn, fl in sorted(LIMIT_FLOORS.items()):
        ck.floor("CMP", "enforcement sites of " + kn, counts.get(kn, 0), fl)
    # segment offsets are interpreted as unsigned before their end is bounded (compilation indexes with `offset as usize`)
    vm = getfn(ck, "sc", W, W + "::validate::validate_module")
    if vm:
        nseg = 0
        for cx in rules.comparisons(vm):
            for side, other in (("a", "b"), ("b", "a")):
                o = vm.origins(cx[side], deep=True)
                oo = vm.origins(cx[other], deep=True)
                if ("field", "offset") in o and ("field", "min") in oo and ("field", "offset") not in oo:
                    nseg += 1
                    unsigned = ("cast", "u32") in o or has_call_origin(o, r"TryInto::try_into$|TryFrom::try_from$")
                    signed_arith = has_call_origin(o, r"_signed$|checked_add_signed|wrapping_add_signed|saturating_add_signed")
                    plain_add = has_call_origin(o, r"num::<impl u32>::checked_add$|::checked_add$")
                    ck.ob("DEFUSE", vm.path, "segment-end-unsigned#%d" % nseg, unsigned and plain_add and not signed_arith,
                          "segment end = (offset as unsigned) checked_add length, compared with the declared minimum" if unsigned and plain_add and not signed_arith else
                          "the segment end is computed with signed arithmetic / without reinterpreting the offset as unsigned: a negative offset passes validation", vm.loc(cx["bb"]))
        ck.floor("DEFUSE", "segment end comparisons against the declared minimum", nseg, 1)

    # values and relations
    cv = {}
    for kn, val in sorted(LIMIT_VALUES.items()):
        k = c.consts.get(W + "::constants::" + kn)
        v = int(k["v"]) if k and k.get("v") is not None else None
        cv[kn] = v
        ck.ob("CONST", W + "::constants::" + kn, "protocol-value", v == val, "evaluates to %s (protocol value %d)" % (v, val), "")
    if all(v is not None for v in cv.values()):
        rels = [("MAX_NUM_GLOBALS <= 2^16 (global indices are emitted as u16)", cv["MAX_NUM_GLOBALS"] <= 1 << 16),
                ("MAX_SWITCH_SIZE <= u16::MAX", cv["MAX_SWITCH_SIZE"] <= 0xFFFF),
                ("ALLOWED_LOCALS + MAX_ALLOWED_STACK_HEIGHT <= 2^15 (register operands are i32, constants use the negative range)", cv["ALLOWED_LOCALS"] + cv["MAX_ALLOWED_STACK_HEIGHT"] <= 1 << 15),
                ("MAX_INIT_MEMORY_SIZE <= MAX_NUM_PAGES (set_len of the initial memory stays inside the allocation)", cv["MAX_INIT_MEMORY_SIZE"] <= cv["MAX_NUM_PAGES"]),
                ("MAX_NUM_PAGES * PAGE_SIZE <= u32::MAX", cv["MAX_NUM_PAGES"] * cv["PAGE_SIZE"] <= 0xFFFFFFFF)]
        for n, (txt, ok) in enumerate(rels):
            ck.ob("CONST", W + "::constants", "relation#%d" % n, ok, txt, "")
    io = c.adts.get(W + "::artifact::InternalOpcode")
    if ck.anchor(io is not None, "CONST", "InternalOpcode", "enum exists"):
        ds = [int(v["discr"]) for v in io["variants"]]
        ck.ob("CONST", W + "::artifact::InternalOpcode", "contiguous-discriminants", ds == list(range(len(ds))) and len(ds) <= 256,
              "%d internal opcodes with discriminants 0..=%d (the interpreter transmutes the byte)" % (len(ds), len(ds) - 1), "")
        ck.floor("CONST", "internal opcodes", len(ds), 101)

    # import policy tables
    for ver in ("v0", "v1"):
        vf = find_impl(ck, "sc", E, r"%s::types::ConcordiumAllowedImports$" % ver, r"ValidateImportExport$", "validate_import_function")
        tf = find_impl(ck, "sc", E, r"%s::types::ProcessedImports$" % ver, r"TryFromImport$", "try_from_import")
        if not (vf and tf):
            continue

        def names_of(fn):
            out = set()
            for (bi, t) in fn.calls(r"cmp::PartialEq::eq$"):
                for a in t["args"]:
                    k = op_const(a)
                    if k and "str" in k:
                        out.add(k["str"])
                    elif k and "promoted" in k:
                        out |= set(x[1] for x in fn.promoted_atoms(k["promoted"]) if x[0] == "str")
            return out
        nv, nt = names_of(vf), names_of(tf)
        mods = {"concordium", "concordium_metering"}
        only_v = sorted(nv - nt - mods)
        only_t = sorted(nt - nv - mods - {"account_memory"})
        ck.ob("TAB", "%s import policy" % ver, "validated-names-are-translatable", not only_v, "%d names accepted by validation, all translatable by the compiler" % len(nv - mods) if not only_v else "accepted but not translatable: %s" % only_v, vf.loc())
        ck.ob("TAB", "%s import policy" % ver, "translatable-names-are-validated", not only_t, "no host function is translatable without being validated" if not only_t else "translatable but never validated: %s" % only_t, tf.loc())
        ck.floor("TAB", "%s host import names" % ver, len(nv - mods), 20 if ver == "v0" else 34)
        # per permitted name the declared parameter list is compared as a WHOLE with the permitted one: slice equality
        # (`params == ty.parameters.as_slice()`), `is_empty()`, or an element-wise walk under an enforced equality of the
        # lengths. An element-wise walk alone (zip) accepts every prefix and every extension of the permitted signature
        as_sl = vf.calls(r"Vec::<T, A>::as_slice$")
        emp = vf.calls(r"Vec::<T, A>::is_empty$")
        zips = vf.calls(ZIP_CALL)
        guarded = [z for z in zips if any(k == "cmp:Eq" and v is True and "len" in nn for (k, nn, v) in conditions_at(vf, z[0]))]
        whole = len(as_sl) + len(emp) + len(guarded)
        okw = whole >= len(nv - mods) and len(guarded) == len(zips)
        ck.ob("CMP", vf.path, "import-signature-compared-whole", okw,
              "%d whole-list comparisons of the declared parameters (%d slice equalities, %d is_empty, %d length-guarded walks) for %d permitted names" % (whole, len(as_sl), len(emp), len(guarded), len(nv - mods)) if okw else
              "%d permitted names but only %d whole-list comparisons of the declared parameters (%d element-wise walks without an equality of the lengths): a host function is accepted with a prefix or an extension of its signature" % (len(nv - mods), whole, len(zips) - len(guarded)),
              vf.loc(zips[0][0]) if zips else vf.loc())
        acc, rej = vf.accept_points()
        ck.ob("TAB", vf.path, "unknown-import-rejected", len(rej) >= 2, "%d constant-false returns (duplicate, unknown module, unknown name)" % len(rej), vf.loc(), nontrivial=False)
        ef = find_impl(ck, "sc", E, r"%s::types::ConcordiumAllowedImports$" % ver, r"ValidateImportExport$", "validate_export_function")
        if ef:
            acc, rej = ef.accept_points()
            ck.ob("TAB", ef.path, "has-rejecting-path", len(rej) >= 1, "%d rejecting returns" % len(rej), ef.loc(), nontrivial=False)

    # allocation / error discipline in parse, validate, compile
    cg = CallGraph([c])
    roots = [p for p in cg.bodies if re.search(r"parse::parse_skeleton$|validate::validate_module$|compile_module$|parse::.*Parseable.*::parse$|artifact::.*::compile$", p) and "artifact_input" not in p]
    ck.floor("ALLOC", "parse/validate/compile roots", len(roots), 40)
    alloc_err_sweep(ck, cg, roots, floor=4, scope_pred=lambda p: "artifact_input" not in p,
                    err_exceptions={})
    # RunConfig cannot be fabricated: all fields private
    rc = c.adts.get(W + "::machine::RunConfig")
    if rc:
        pubf = [f["name"] for f in rc["variants"][0]["fields"] if f["pub"]]
        ck.ob("WHO", W + "::machine::RunConfig", "fields-private", not pubf, "no public field: a suspended configuration cannot be constructed or altered outside the interpreter module" if not pubf else "public fields: %s" % pubf, "")

    typing_rules(ck, crate("sc", W))

    policy_rules(ck)
    segment_rules(ck, crate("sc", W))
    parse_rules(ck, crate("sc", W))


# ---------------------------------------------------------------------------------------------------------------------
# typing: the validator's instruction arms and its stack primitives against the WebAssembly validation algorithm
TYPING_SPEC = os.path.join(os.path.dirname(os.path.dirname(os.path.abspath(__file__))), "spec", "wasm_typing.json")


def _has(conds, kindpat, name, value):
    return any(re.match(kindpat, k) and name in n and v == value for (k, n, v) in conds)


def typing_rules(ck, c):
    from vlib import typing
    from .c01 import enum_switch
    V = W + "::validate::"
    vf = getfn(ck, "sc", W, V + "validate")
    if not vf:
        return
    spec = json.load(open(TYPING_SPEC))
    onames = [v["name"] for v in c.adts[W + "::types::OpCode"]["variants"]]
    vsw = enum_switch(vf, 60)
    if not ck.anchor(vsw is not None, "TAB", vf.path, "opcode dispatch in the validator"):
        return
    cache = {}
    n = 0
    for v, tb in vsw[1]["t"]:
        name = onames[int(v)]
        if tb not in cache:
            cache[tb] = typing.arm_events(c, vf, sym.dominated(vf, tb))
        got = [e for e in cache[tb] if e not in spec.get("redundant", {}).get(name, [])]
        sp = spec["instructions"].get(name)
        if not ck.anchor(sp is not None, "TAB", "typing:" + name, "instruction has a typing rule in spec/wasm_typing.json"):
            continue
        n += 1
        ck.ob("TAB", "validate:" + name, "stack-effect", got == sp["events"],
              "%s: %s" % (" ".join(sp["spec"]) or "[] -> []", "matches") if got == sp["events"] else
              "validator does %s, the specification requires %s (%s)" % (got, sp["events"], " ".join(sp["spec"])), vf.loc(tb),
              sample=dict(rule="TAB", instruction=name, validator=got, specification=sp["events"]))
    ck.floor("TAB", "instructions whose stack effect equals the specification", n, 110)

    # alignment table: 2^align <= width/8
    f = getfn(ck, "sc", W, V + "ensure_alignment")
    if f:
        tnames = [v["name"] for v in c.adts[W + "::validate::Type"]["variants"]] if (W + "::validate::Type") in c.adts else []
        want = {"I8": 0, "I16": 1, "I32": 2, "I64": 3}
        sw = [(sb, st) for (sb, st) in f.switches() if any(x.get("rv", {}).get("k") == "discr" for x in f.stmts(sb))]
        ok_all = bool(sw) and bool(tnames)
        seen = {}
        if ok_all:
            sb, st = sw[0]
            for v, tb in st["t"] + [["otherwise", st["o"]]]:
                if f.term(tb)["k"] == "unreachable":
                    continue
                reg = sym.dominated(f, tb)
                for cx in rules.comparisons(f):
                    if cx["bb"] in reg:
                        rel, d = rules.cmp_rejects(f, cx)
                        k = op_const(cx["b"])
                        oa = f.origins(cx["a"])
                        if ("arg", 1) in oa and k is not None and rel is not None:
                            lim = const_int(k)
                            # rejects when num > lim  (or num != 0 for lim 0)
                            bound = lim if rel == "Gt" else (lim - 1 if rel == "Ge" else (0 if (rel == "Ne" and lim == 0) else None))
                            nm = tnames[int(v)] if v != "otherwise" else [x for x in tnames if x not in seen][0] if len([x for x in tnames if x not in seen]) == 1 else "?"
                            seen[nm] = bound
        ck.ob("TAB", f.path, "alignment-bounds", seen == want, "maximum alignment exponent per access width: %s (specification: %s)" % (seen, want), f.loc())

    S = V + "ValidationState::"
    # pop_opd
    f = getfn(ck, "sc", W, S + "pop_opd")
    if f:
        pops = f.calls(r"Vec::<T, A>::pop$")
        unk = [bi for bi in f.reachable() for s in f.stmts(bi) if s.get("rv", {}).get("k") == "agg" and s["rv"].get("variant") == "Unknown"]
        ok = len(pops) == 1 and _has(conditions_at(f, pops[0][0]), r"cmp:Eq", "height", False)
        ck.ob("DOM", f.path, "pops-only-above-frame-height", ok, "an operand is popped only when the stack is higher than the current frame's base (len != height)", f.loc())
        ok = len(unk) == 1 and _has(conditions_at(f, unk[0]), r"cmp:Eq", "height", True) and _has(conditions_at(f, unk[0]), r"bool|call", "unreachable", True)
        ck.ob("DOM", f.path, "unknown-only-in-unreachable-code", ok, "Unknown is produced only at the frame base of an unreachable frame", f.loc())
        rr = f.reject_region()
        under = [b for b in rr if _has(conditions_at(f, b), r"cmp:Eq", "height", True) and _has(conditions_at(f, b), r"bool|call", "unreachable", False)]
        ck.ob("DOM", f.path, "underflow-rejected", bool(under), "popping at the frame base of a reachable frame is an error", f.loc())
    # pop_expect_opd
    f = getfn(ck, "sc", W, S + "pop_expect_opd")
    if f:
        enf_calls(ck, f, r"ValidationState::pop_opd$", "pop_opd")
        eqs = [cx for cx in rules.comparisons(f) if cx["kind"] == "call" and cx["op"] in ("Eq", "Ne")]
        good = []
        for cx in eqs:
            rel, d = rules.cmp_rejects(f, cx)
            oa, ob = f.origins(cx["a"], deep=True), f.origins(cx["b"], deep=True)
            if rel == "Ne" and (has_call_origin(oa, r"pop_opd$") and ("arg", 2) in ob or has_call_origin(ob, r"pop_opd$") and ("arg", 2) in oa):
                good.append(cx)
        ck.ob("CMP", f.path, "actual==expected-enforced", len(good) == 1, "a known operand type different from the expected type is rejected", f.loc())
        # the two early returns: Ok(expect) when the popped type is unknown, Ok(actual) when nothing particular is expected
        rets = []
        for bi in f.reachable():
            for s in f.stmts(bi):
                if s.get("lhs") == [0, []] and s["rv"].get("k") == "agg" and s["rv"].get("variant") == "Ok":
                    o = f.origins(s["rv"]["ops"][0])
                    conds = conditions_at(f, bi)
                    rets.append(("expect" if ("arg", 2) in o and not has_call_origin(o, r"pop_opd$") else "actual" if has_call_origin(o, r"pop_opd$") else "?",
                                 [(k, v) for (k, nn, v) in conds if k == "call:is_unknown"]))
        ok = ("expect", [("call:is_unknown", True)]) in rets and any(r[0] == "actual" and ("call:is_unknown", True) in r[1] and ("call:is_unknown", False) in r[1] for r in rets) \
            and any(r[0] == "actual" and r[1] == [("call:is_unknown", False), ("call:is_unknown", False)] for r in rets)
        ck.ob("RET", f.path, "unknown-handling", ok, "returns the expected type for an unknown operand, the actual type otherwise: %s" % rets, f.loc())
    # push_ctrl
    f = getfn(ck, "sc", W, S + "push_ctrl")
    if f:
        agg = [s["rv"] for bi in f.reachable() for s in f.stmts(bi) if s.get("rv", {}).get("k") == "agg" and s["rv"].get("adt", "").endswith("validate::ControlFrame")]
        ok = len(agg) == 1
        det = ""
        if ok:
            a = agg[0]
            src = {fl: f.origins(op, deep=True) for fl, op in zip(a["fields"], a["ops"])}
            k = op_const(a["ops"][a["fields"].index("unreachable")]) if "unreachable" in a["fields"] else None
            ok = ("arg", 2) in src.get("is_if", ()) and ("arg", 3) in src.get("label_type", ()) and ("arg", 4) in src.get("end_type", ()) and \
                ("arg", 3) not in src.get("end_type", ()) and ("arg", 4) not in src.get("label_type", ()) and \
                has_call_origin(src.get("height", set()), r"::len$") and ("field", "opds") in src.get("height", ()) and k is not None and const_int(k) == 0
            det = "is_if, label_type, end_type from the arguments in that order; height = opds.len(); unreachable = false"
        ck.ob("DEFUSE", f.path, "frame-construction", ok, det or "%d ControlFrame constructions" % len(agg), f.loc())
        ck.ob("DEFUSE", f.path, "frame-pushed", len(f.calls(r"Vec::<T, A>::push$")) == 1, "the frame is pushed on the control stack", f.loc(), nontrivial=False)
    # pop_ctrl
    f = getfn(ck, "sc", W, S + "pop_ctrl")
    if f:
        pe = enf_calls(ck, f, r"ValidationState::pop_expect_opd$", "pop_expect_opd(end_type)")
        pp = f.calls(r"Vec::<T, A>::pop$")
        hs = []
        for cx in rules.comparisons(f):
            rel, d = rules.cmp_rejects(f, cx)
            o = f.origins(cx["a"], deep=True) | f.origins(cx["b"], deep=True)
            if rel == "Ne" and has_call_origin(o, r"::len$") and ("field", "opds") in o and (("field", "height") in o or has_call_origin(o, r"Option::<T>::map$")):
                hs.append(cx)
        ok = len(hs) == 1 and len(pp) == 1 and len(pe) == 1 and f.dominates(hs[0]["bb"], pp[0][0]) and all(b in f.reach_from([pe[0][0]]) for b in [hs[0]["bb"]])
        ck.ob("DOM", f.path, "results-popped-then-height-checked-then-frame-popped", ok,
              "pop_ctrl pops the frame's result, rejects unless the operand stack is back at the frame's height, and only then removes the frame", f.loc())
    # who may shorten the operand and control stacks: operands leave the stack through pop_opd (one at a time, never below the
    # frame base) and through mark_unreachable (down to the frame base); frames leave through pop_ctrl. Any other
    # truncation forgives operands that the closing `end`/`else` is required to find gone
    short = set()
    for p0 in sorted(c.paths()):
        if not p0.startswith(W + "::validate"):
            continue
        for b in c.get_all(p0):
            g = Fn(b)
            for (bi, t) in g.calls(r"Vec::<T, A>::(truncate|clear|drain|pop|split_off|resize|retain|remove|swap_remove|set_len)$"):
                o = g.origins(t["args"][0], deep=True)
                for fld in ("opds", "ctrls"):
                    if ("field", fld) in o:
                        short.add((re.sub(r"::\{closure#\d+\}", "", p0).split("::")[-1], t["f"]["name"], fld))
    want = {("pop_opd", "pop", "opds"), ("mark_unreachable", "truncate", "opds"), ("mark_unreachable", "truncate", "ctrls"), ("pop_ctrl", "pop", "ctrls")}
    ck.ob("WHO", S[:-2], "stacks-shortened-only-by-their-primitives", short == want,
          "operands leave through pop_opd/mark_unreachable, frames through pop_ctrl" if short == want else
          "the validation stacks are also shortened by %s (missing: %s)" % (sorted(short - want), sorted(want - short)), "")
    # ... and the instruction rules look at the stacks only through those primitives: an arm of validate() that reads
    # `state.opds` directly sees operands that belong to the enclosing block (the primitives stop at the frame's base height)
    f = getfn(ck, "sc", W, W + "::validate::validate")
    if f:
        direct = []
        for bi in sorted(f.reachable()):
            for st in f.stmts(bi):
                rv = st.get("rv", {})
                pl = rv.get("p") if rv.get("k") == "ref" else (op_place(rv.get("a")) if rv.get("k") == "use" else None)
                if pl and any(re.search(r":opds$", str(x)) for x in pl[1]):
                    # handing `&state` as a whole to the handler is not a direct access: only projections INTO the stacks count
                    direct.append(bi)
        ck.ob("WHO", f.path, "stacks-read-only-through-primitives", not direct,
              "no arm of validate() reads state.opds directly (labels are looked up through the control stack's own methods)" if not direct else
              "an instruction rule reads the operand/control stack directly (%d places): the frame's base height is bypassed" % len(direct), f.loc(direct[0]) if direct else f.loc())
    # the number of locals is accumulated with checked arithmetic: a declared multiplicity comes straight from the module bytes,
    # and an unchecked `start + multiplicity` wraps (or panics) before the ALLOWED_LOCALS test - after a wrap every local index
    # type-checks against a range table that no longer describes the frame
    mf = getfn(ck, "sc", W, W + "::validate::make_locals")
    if mf:
        rawm = [bi for bi in sorted(mf.reachable()) for st in mf.stmts(bi) for rv in [st.get("rv", {})]
                if rv.get("k") == "bin" and re.match(r"^(Add|Mul)", rv["op"]) and any(("field", "multiplicity") in mf.origins(x) for x in (rv["a"], rv["b"]) if op_const(x) is None)]
        chk = [bi for (bi, t) in mf.calls(r"::checked_add$") if any(("field", "multiplicity") in mf.origins(a, deep=True) for a in t["args"])]
        ck.ob("ERR", mf.path, "locals-counted-with-checked-arithmetic", not rawm and len(chk) >= 1,
              "the declared multiplicities are added with checked_add" if not rawm and chk else
              "a declared multiplicity is added without an overflow check: 2^32 or more declared locals wrap the count (or panic) before the limit is tested", mf.loc(rawm[0]) if rawm else mf.loc())
    # a function body is ONE expression: it ends at the `end` that closes the function's frame, and the code entry must be
    # exhausted there. The instruction loop of validate() therefore refuses to process an instruction once the control stack is
    # empty (a test of done() / of the control stack inside the loop, on the path to the dispatch). A test only after the loop
    # accepts `end nop`, `end i32.const 0`, `end block end`: instructions that do not pop leave the empty stack empty
    vf0 = getfn(ck, "sc", W, W + "::validate::validate")
    if vf0:
        lps = natural_loops(vf0)
        nxt = [bi for (bi, t) in vf0.calls(r"Iterator::next$") if "ParseResult" in (t["f"].get("self") or "")]
        oploop = [lp for lp in lps if any(bi in lp for bi in nxt)]
        inloop = [bi for (bi, t) in vf0.calls(r"ValidationState::done$|ValidationState::<.*>::done$|ControlStack::is_empty$") if any(bi in lp for lp in oploop)]
        ck.ob("DOM", vf0.path, "no-instruction-after-the-closing-end", bool(oploop) and bool(inloop),
              "the instruction loop tests for an exhausted control stack before processing an instruction" if inloop else
              "the instruction loop never tests whether the control stack is already exhausted (done() is called only after the loop): a body that continues after its closing `end` with instructions that do not pop is accepted", vf0.loc(nxt[0]) if nxt else vf0.loc())
    # sections that are walked in step (function types with function bodies, ...) are zipped only after their lengths were
    # compared: zip stops at the shorter one, so a missing body - or a surplus one - would simply not be looked at
    nzv = zip_length_sweep(ck, c, re.compile(r"concordium_wasm::validate::"), re.compile(r"validate_module$|::validate$"))
    ck.floor("CMP", "section zips in module validation", nzv, 1)
    # mark_unreachable
    f = getfn(ck, "sc", W, S + "mark_unreachable")
    if f:
        tr = f.calls(r"Vec::<T, A>::truncate$")
        ok = len(tr) == 1 and ("field", "height") in f.origins(tr[0][1]["args"][1], deep=True) and ("field", "opds") in f.origins(tr[0][1]["args"][0], deep=True)
        ck.ob("DEFUSE", f.path, "truncates-to-frame-height", ok, "the operand stack is cut back to the frame's height", f.loc())
        sets = [s for bi in f.reachable() for s in f.stmts(bi) if "lhs" in s and s["lhs"][1] and str(s["lhs"][1][-1]).endswith(":unreachable")]
        ok = len(sets) == 1 and op_const(sets[0]["rv"].get("a", {})) is not None and const_int(op_const(sets[0]["rv"]["a"])) == 1
        ck.ob("DEFUSE", f.path, "marks-frame-unreachable", ok, "frame.unreachable = true", f.loc())
    # ControlStack::get: label n counts from the innermost frame
    f = getfn(ck, "sc", W, V + "ControlStack::get")
    if f:
        g = f.calls(r"slice::<impl \[T\]>::get$")
        ok = False
        if len(g) == 1:
            o = f.origins(g[0][1]["args"][1], deep=True)
            subs = [a for a in o if a[0] == "bin" and a[1].startswith("Sub")]
            ok = len(subs) >= 1 and ("lit", 1) in o and ("arg", 2) in o and has_call_origin(o, r"::len$")
        ck.ob("DEFUSE", f.path, "index-from-top", ok, "frame n is stack[len - n - 1]", f.loc())
        cmp_rejecting(ck, f, [("arg", 2)], [("call", r"::len$")], "Ge", "n>=len-is-None")


def policy_rules(ck):
    """import/export policy of the chain: duplicates and flag-gated imports are refused, exports have the entry-point type"""
    E_ = "concordium_smart_contract_engine"
    ce = crate("sc", E_)
    nimp = nexp = 0
    for p in sorted(ce.paths()):
        m = re.search(r"::(v[01])::types::ConcordiumAllowedImports as concordium_wasm::validate::ValidateImportExport>::validate_(import|export)_function$", p)
        if not m:
            continue
        f = Fn(ce.get(p))
        rr = f.reject_region()
        if m.group(2) == "import":
            nimp += 1
            flags = {}
            for (sb, st) in f.switches():
                o = f.origins(st["d"])
                if st.get("dty") != "bool" or any(a[0] == "call" for a in o):
                    continue
                ft = [tb for v, tb in st["t"] if v == "0"]
                if not ft:
                    continue
                frej = ft[0] in rr or rules.const_edge_rejects(f, ft[0])
                trej = st["o"] in rr or rules.const_edge_rejects(f, st["o"])
                for a in o:
                    if a == ("arg", 2):
                        flags["duplicate"] = (trej and not frej)
                    elif a[0] == "field" and ("arg", 1) in o:
                        flags[a[1]] = (frej and not trej)
            ck.ob("CMP", p, "duplicate-import-refused", flags.get("duplicate") is True, "an import whose name occurs twice is refused", f.loc())
            adt = ce.adts.get(E_ + "::" + m.group(1) + "::types::ConcordiumAllowedImports")
            gates = [x["name"] for x in adt["variants"][0]["fields"] if x["ty"] == "bool"] if adt else []
            for g in gates:
                ck.ob("CMP", p, "gated-import:" + g, flags.get(g) is True, "imports gated by `%s` are refused when the flag is off" % g, f.loc())
        else:
            nexp += 1
            got = set()
            for cx in rules.comparisons(f):
                rel, d = rules.cmp_rejects(f, cx)
                o = f.origins(cx["a"], deep=True) | f.origins(cx["b"], deep=True)
                if rel == "Gt" and any(a[0] == "const" and a[1].endswith("MAX_EXPORT_NAME_LEN") for a in o):
                    got.add("name-length")
                if rel == "Ne" and ("field", "parameters") in o:
                    got.add("parameters")
                if rel == "Ne" and ("field", "result") in o:
                    got.add("result")
            alls = f.calls(r"Iterator::all$")
            if alls and all(rules.enforced_ok(rules.enforcement(f, bi)) for (bi, _) in alls):
                got.add("characters")
            want = {"name-length", "parameters", "result", "characters"}
            ck.ob("CMP", p, "export-conditions-all-necessary", got == want,
                  "an export is refused when its name is too long or has other characters, or its type is not [i64] -> i32" if got == want else
                  "conditions that no longer force a refusal: %s" % sorted(want - got), f.loc())
    ck.floor("CMP", "import policy functions", nimp, 2)
    ck.floor("CMP", "export policy functions", nexp, 2)


def segment_rules(ck, c):
    """exactness of the module-level bounds: a segment may end exactly at the declared minimum size, a function index must
    be strictly below the number of functions"""
    V = W + "::validate::"
    n = 0
    for p in sorted(c.paths()):
        if not re.search(r"validate::validate_module(::\{closure#\d+\})*$", p):
            continue
        f = Fn(c.get(p))
        is_closure = "{closure" in p
        for cx in rules.comparisons(f):
            rel, d = rules.cmp_rejects(f, cx)
            oa, ob = f.origins(cx["a"]), f.origins(cx["b"])
            if rel is None:
                continue
            if ("field", "min") in ob or ("field", "min") in oa:
                if ("field", "min") in oa:
                    rel = rules.FLIP[rel]
                n += 1
                ck.ob("CMP", p, "segment-end-vs-minimum-size@%d" % n, rel == "Gt",
                      "rejects exactly when the end of the segment (or its length) exceeds the declared minimum size" if rel == "Gt" else
                      "rejects when end %s size: %s" % (rel, "a segment that fills the table/memory exactly is refused" if rel == "Ge" else "an overlong segment is admitted"), f.loc(cx["bb"]))
            elif has_call_origin(oa, r"Iterator::next$") and (has_call_origin(ob, r"::len$") or has_call_origin(ob, r"::count$")):
                n += 1
                ck.ob("CMP", p, "function-index-below-count@%d" % n, rel == "Ge", "an element that is not the index of an existing function (index >= number of functions) is refused" if rel == "Ge" else
                      "rejects when index %s count: the index equal to the number of functions is admitted" % rel, f.loc(cx["bb"]))
            elif is_closure and d == "returned as verdict" and ("arg", 2) in (oa | ob):
                if ("arg", 2) in oa:
                    rel = rules.FLIP[rel]
                n += 1
                ck.ob("CMP", p, "clamped-end-vs-size@%d" % n, rel == "Gt", "the closure accepts end <= size (rejects exactly when end > size)" if rel == "Gt" else "the closure rejects when end %s size" % rel, f.loc(cx["bb"]))
            elif cx["op"] in ("Eq", "Ne") and has_call_origin(oa, r"::len$") and has_call_origin(ob, r"::len$"):
                n += 1
                ck.ob("CMP", p, "functions-and-bodies-same-number@%d" % n, rel == "Ne", "the numbers of declared functions and of bodies must agree", f.loc(cx["bb"]))
    ck.floor("CMP", "module-level bound comparisons", n, 5)
    # the magic number and the version are read from the input before they are compared
    f = getfn(ck, "sc", W, W + "::parse::parse_skeleton")
    if f:
        reads = f.calls(r"io::Read::read_exact$|Read>::read_exact$")
        k = 0
        for cx in rules.comparisons(f):
            o = f.origins(cx["a"], deep=True) | f.origins(cx["b"], deep=True)
            consts = [a[1].split("::")[-1] for a in o if a[0] == "const"]
            if cx["kind"] == "call" and any(x in ("MAGIC_HASH", "VERSION") for x in consts):
                k += 1
                rel, d = rules.cmp_rejects(f, cx)
                fresh = [bi for (bi, t) in reads if f.dominates(bi, cx["bb"]) and not any(f.dominates(bi, cb) and f.dominates(cb, cx["bb"]) and cb != cx["bb"] and cb != bi for cb in
                                                                                       [c2["bb"] for c2 in rules.comparisons(f) if c2["kind"] == "call" and c2 is not cx and any(a[0] == "const" and a[1].split("::")[-1] in ("MAGIC_HASH", "VERSION") for a in f.origins(c2["a"], deep=True) | f.origins(c2["b"], deep=True))])]
                ck.ob("DEFUSE", f.path, "header-word-read-then-compared:" + "/".join(sorted(set(consts) & {"MAGIC_HASH", "VERSION"})), rel == "Ne" and len(fresh) >= 1,
                      "four bytes are read immediately before being compared with the constant, and a difference rejects", f.loc(cx["bb"]))
        ck.ob("DEFUSE", f.path, "header-words", k == 2, "%d header comparisons" % k, f.loc(), nontrivial=False)


def parse_rules(ck, c):
    """parser: slices of the input end at or before the end of the input (a value ending exactly there is accepted),
    sections are in strictly increasing order (custom sections anywhere), nothing is left over"""
    n = 0
    for p in sorted(c.paths()):
        if not re.search(r"concordium_wasm::parse::", p):
            continue
        for b in c.get_all(p):
            f = Fn(b)
            idx = f.calls(r"ops::Index::index$")
            if not idx:
                continue
            for cx in rules.comparisons(f):
                if cx["kind"] != "bin":
                    continue
                oa, ob = f.origins(cx["a"], deep=True), f.origins(cx["b"], deep=True)
                for (x, y, flip) in ((oa, ob, False), (ob, oa, True)):
                    if has_call_origin(y, r"::len$") and has_call_origin(y, r"Cursor::<T>::get_ref$|Cursor<.*>::get_ref$") and has_call_origin(x, r"Cursor::<T>::position$|Cursor<.*>::position$") \
                            and any(a[0] == "bin" and a[1].startswith("Add") for a in x):
                        rel, d = rules.cmp_rejects(f, cx)
                        if rel is None:
                            continue
                        if flip:
                            rel = rules.FLIP[rel]
                        n += 1
                        ck.ob("CMP", p, "input-slice-end-exact@%d" % n, rel == "Gt",
                              "rejects exactly when position + length exceeds the input" if rel == "Gt" else "rejects when end %s input length: a value that ends exactly at the end of the input is refused (or an overlong one admitted)" % rel, f.loc(cx["bb"]))
    ck.floor("CMP", "input slice bounds in the parser", n, 2)
    # ... and they are ordered: `input[a..b]` with two computed ends panics when b < a. Either b is a plus something
    # non-negative by construction, or a dominating refusal establishes a <= b
    no_ = 0
    for p in sorted(c.paths()):
        if not re.search(r"concordium_wasm::parse::", p):
            continue
        for b in c.get_all(p):
            f = Fn(b)
            for k, (bi, t) in enumerate(f.calls(r"ops::Index::index$")):
                rb = rules.range_bounds(f, t["args"][1])
                if rb is None or rb[0] != "range" or op_const(rb[1]) is not None:
                    continue
                ls, le = rules.lin(f, rb[1]), rules.lin(f, rb[2])
                no_ += 1
                ok = ls is not None and le is not None and rules.lin_le(ls, le, {})
                why = "end = start + a non-negative amount"
                if not ok and ls is not None and le is not None:
                    # a dominating refusal that orders them
                    for cx in rules.comparisons(f):
                        if cx["kind"] != "bin" or not f.dominates(cx["bb"], bi):
                            continue
                        info = {}
                        rel, d = rules.cmp_rejects(f, cx, info)
                        if rel is None or "pass_target" not in info or not f.dominates(info["pass_target"], bi):
                            continue
                        la, lb = rules.lin(f, cx["a"]), rules.lin(f, cx["b"])
                        if la is None or lb is None:
                            continue
                        # refuses when a `rel` b; passing therefore means not(a rel b)
                        if rel in ("Gt", "Ge") and rules.lin_le(ls, la, {}) and rules.lin_le(lb, le, {}):
                            ok, why = True, "ordered by the refusal at bb%d" % cx["bb"]      # start <= a <= b <= end
                        if rel in ("Lt", "Le") and rules.lin_le(ls, lb, {}) and rules.lin_le(la, le, {}):
                            ok, why = True, "ordered by the refusal at bb%d" % cx["bb"]      # start <= b <= a <= end
                ck.ob("BOUNDS", p, "input-slice-ordered#%d" % k, ok, why if ok else
                      "the two ends of a slice of the input are computed independently and nothing establishes start <= end: a crafted size makes the parser panic", f.loc(bi))
    ck.floor("BOUNDS", "two-ended slices of the input in the parser", no_, 2)
    f = getfn(ck, "sc", W, W + "::parse::parse_skeleton")
    if f:
        # the 'Section out of place' error is reached only if the section is not custom AND not greater than the last one
        errs = [bi for bi in f.reachable() if f.term(bi)["k"] == "call" and any(op_const(a) is not None and "Section out of place" in str(op_const(a).get("str", "")) for a in f.term(bi)["args"])]
        ok = False
        det = "no 'out of place' rejection found"
        if errs:
            conds = conditions_at(f, errs[0])
            eq_custom = [(k, v) for (k, nn, v) in conds if k in ("cmp:Eq", "cmp:Ne") and ("Custom" in nn or "section_id" in nn)]
            gt_last = [(k, v) for (k, nn, v) in conds if k in ("cmp:Gt", "cmp:Le", "cmp:Lt", "cmp:Ge")]
            ok = any((k == "cmp:Eq" and v is False) or (k == "cmp:Ne" and v is True) for (k, v) in eq_custom) and any((k == "cmp:Gt" and v is False) or (k == "cmp:Le" and v is True) for (k, v) in gt_last)
            det = "rejected exactly when the section is not a custom section and its id is not greater than the last non-custom id (conditions %s)" % [(k, v) for (k, nn, v) in conds if k.startswith("cmp")]
        ck.ob("CMP", f.path, "sections-strictly-increasing", ok, det, f.loc(errs[0]) if errs else f.loc())
        left = []
        for cx in rules.comparisons(f):
            rel, d = rules.cmp_rejects(f, cx)
            o = f.origins(cx["a"], deep=True) | f.origins(cx["b"], deep=True)
            if rel == "Ne" and has_call_origin(o, r"position$") and has_call_origin(o, r"::len$") and ("arg", 1) in o:
                left.append(cx)
        ck.ob("CMP", f.path, "no-leftover-bytes", len(left) == 1, "the module is refused unless the whole input was consumed", f.loc())
