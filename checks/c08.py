"""C08 — identity credentials: chain and provider verification enforce every sub-check."""
from .common import *
from vlib import transcript

META = dict(
    technique="static analysis: enforcement/comparison-polarity/dominance/field-coverage rules over compiler MIR",
    text=("Structural necessary conditions: in verify_cdi, id_cred_pub_verifier, validate_request(_v1), "
          "validate_request_common and verify_credentials(_v1) every sub-verification result, table lookup and size "
          "comparison is branched on with the rejecting polarity; the transcript context is appended before the sigma "
          "verification; the range proof compares the credential counter with the account maximum at 8 bits; the signed "
          "credential hash covers values, proofs and the new-or-existing discriminator. Cryptographic soundness and "
          "revocation algebra are not decided."),
)

CB = "concordium_base"
I = CB + "::id::"


def run(ck):
    ck.explanation = ("Decides that each verification step of credential deployment and identity issuance is enforced "
                      "(result branched on, failure leads only to rejecting returns), comparisons have the rejecting "
                      "orientation, context is bound before challenge computation, and signed digests cover all parts.")
    ck.undecided = "cryptographic acceptance/rejection, reconstruction of idCredPub by threshold-many revokers, completeness."
    ck.rules_text = "ENF sweep over the verification family + CMP/DOM/COV instances in id::chain, id::identity_provider, id::utils"

    f = getfn(ck, "rs", CB, I + "chain::verify_cdi")
    if f:
        n = enf_sweep(ck, f)
        ck.floor("ENF", "verify_cdi verification calls", n, 4)
        enf_calls(ck, f, r"chain::pok_sig_verifier$", "pok_sig_verifier")
        enf_calls(ck, f, r"chain::id_cred_pub_verifier$", "id_cred_pub_verifier")
        cmp_rejecting(ck, f, [("field", "threshold")], [("field", "cmm_id_cred_sec_sharing_coeff"), ("call", r"::len$")], "Ne",
                      "threshold!=sharing-coefficients")
        v = f.calls(r"sigma_protocols::common::verify$")
        apps = f.calls(r"random_oracle::.*append_message$")
        labs = [transcript.label_of(t["args"][1]) for (_, t) in apps]
        ck.ob("DOM", f.path, "context-before-verify", len(v) == 1 and len(apps) >= 3 and all(f.dominates(b, v[0][0]) for (b, _) in apps),
              "transcript appends %s all dominate the sigma verification" % labs, f.loc())
        seq = transcript.seq_key(transcript.sequence(f))
        ck.ob("SIB", f.path, "context-reference", seq[:4] == [("domain", "credential"), ("append_message", "cred_values"), ("append_message", "address"), ("append_message", "global_context")],
              "context sequence %s" % seq[:4], f.loc(), sample=dict(rule="SIB", function=f.path, transcript=seq))
        for (bi, t) in apps:
            lab = transcript.label_of(t["args"][1])
            o = f.origins(t["args"][2], deep=True)
            want = {"cred_values": ("field", "values"), "address": ("arg", 5), "global_context": ("arg", 1)}.get(lab)
            if want:
                ck.ob("COV", f.path, "context:" + lab, want in o, "label %s is bound to %s" % (lab, want), f.loc(bi))
        for (bi, t) in f.calls(r"range_proof::verify_less_than_or_equal$"):
            k = op_const(t["args"][1])
            ck.ob("CONST", f.path, "counter-range-bits", k is not None and const_int(k) == 8, "range proof is over 8 bits", f.loc(bi))
            ck.ob("DEFUSE", f.path, "counter<=max", arg_from_field(f, t, 2, "cmm_cred_counter") and arg_from_field(f, t, 3, "cmm_max_accounts")
                  and not arg_from_field(f, t, 2, "cmm_max_accounts"), "a = cmm_cred_counter, b = cmm_max_accounts", f.loc(bi))
            ck.ob("DOM", f.path, "sigma-before-range", v and f.dominates(v[0][0], bi), "the range proof continues the transcript of the sigma proof", f.loc(bi))
        for (bi, t) in f.calls(r"utils::verify_account_ownership_proof$"):
            o = f.origins(t["args"][3], deep=True)
            ck.ob("DEFUSE", f.path, "ownership-signs-credential-hash", has_call_origin(o, r"utils::credential_hash_to_sign$"),
                  "account ownership signatures are verified over credential_hash_to_sign(..)", f.loc(bi))
        acc, rej = f.accept_points()
        ck.ob("RET", f.path, "single-accept", len(acc) == 1, "%d Ok returns" % len(acc), f.loc())

    f = getfn(ck, "rs", CB, I + "chain::id_cred_pub_verifier")
    if f:
        cmp_rejecting(ck, f, [("arg", 3), ("call", r"::len$")], [("arg", 5), ("call", r"::len$")], "Ne", "ar-data.len!=proofs.len")
        ne = [c for c in rules.comparisons(f) if c["kind"] == "call" and c["op"] == "Ne"]
        ok = False
        for c in ne:
            rel, d = rules.cmp_rejects(f, c)
            ok = ok or rel == "Ne"
        ck.ob("CMP", f.path, "ar-ids-pairwise-equal", ok, "mismatching AR identities reject", f.loc())
        enf_calls(ck, f, r"BTreeMap::<K, V, A>::get$", "known_ars.get")
    f = getfn(ck, "rs", CB, I + "chain::verify_initial_cdi")
    if f:
        enf_calls(ck, f, r"::verify$", "ip_cdi_verify_key.verify")

    for name, extra in (("validate_request", True), ("validate_request_v1", False)):
        f = getfn(ck, "rs", CB, I + "identity_provider::" + name)
        if not f:
            continue
        n = enf_sweep(ck, f)
        ck.floor("ENF", name + " verification calls", n, 2 if extra else 1)
        enf_calls(ck, f, r"identity_provider::validate_request_common$", "validate_request_common")
        enf_calls(ck, f, r"sigma_protocols::common::verify$", "sigma verify")
    f = getfn(ck, "rs", CB, I + "identity_provider::validate_request_common")
    if f:
        n = enf_sweep(ck, f)
        enf_calls(ck, f, r"range_proof::verify_efficient$", "verify_efficient")
        enf_calls(ck, f, r"identity_provider::compute_prf_sharing_verifier$", "compute_prf_sharing_verifier")
        enf_calls(ck, f, r"BTreeMap::<K, V, A>::get$", "ars_infos.get")
        cmp_rejecting(ck, f, [("field", "threshold")], [("field", "cmm_prf_sharing_coeff"), ("call", r"::len$")], "Ne", "threshold!=prf-sharing-coefficients")
        cmp_rejecting(ck, f, [("field", "threshold")], [("call", r"BTreeSet::<T, A>::len$|::len$"), ("field", "ar_identities")], "Gt", "threshold>number_of_ars")
        cmp_rejecting(ck, f, [("field", "ar_identities"), ("call", r"::len$")], [("field", "ip_ar_data"), ("call", r"::len$")], "Ne", "number_of_ars!=ip_ar_data.len")
        enf_calls(ck, f, r"Iterator::any$", "ar-identities-zip-any", extra_fail=("bool", 1))
        for (bi, t) in f.calls(r"range_proof::verify_efficient$"):
            k = op_const(t["args"][2])
            ck.ob("CONST", f.path, "prf-share-range-bits", k is not None and const_int(k) == 32, "PRF key share chunks are range-proved at 32 bits", f.loc(bi))
    for name in ("verify_credentials", "verify_credentials_v1"):
        f = getfn(ck, "rs", CB, I + "identity_provider::" + name)
        if f:
            enf_calls(ck, f, r"identity_provider::validate_request(_v1)?$", "validate_request")
            enf_calls(ck, f, r"identity_provider::sign_identity_object(_v1)?$", "sign_identity_object")
            v = f.calls(r"identity_provider::validate_request(_v1)?$")
            s = f.calls(r"identity_provider::sign_identity_object(_v1)?$")
            ck.ob("DOM", f.path, "validate-before-sign", v and s and f.dominates(v[0][0], s[0][0]), "the request is validated before anything is signed", f.loc())
    f = getfn(ck, "rs", CB, I + "identity_provider::validate_id_recovery_request")
    if f:
        o = f.origins(0, deep=True)
        ck.ob("RET", f.path, "verdict", has_call_origin(o, r"sigma_protocols::common::verify$"), "the verdict is the sigma verification", f.loc())

    # zips of statement data with proof data need a length check
    c = crate("rs", CB)
    nz = zip_length_sweep(ck, c, re.compile(r"concordium_base::id::(chain|identity_provider|utils|identity_attributes_credentials)::"),
                          re.compile(r"(verify|verifier|validate|check)[a-z_0-9]*(::\{closure#\d+\})*$"))
    ck.floor("CMP", "statement/proof zips in credential and request verification", nz, 4)
    narrowing_len_sweep(ck, c, re.compile(r"concordium_base::id::(chain|identity_provider|utils|identity_attributes_credentials)::"),
                        re.compile(r"(verify|verifier|validate|check)[a-z_0-9]*(::\{closure#\d+\})*$"))
    # encode_tags refuses a tag that occurs twice - that is what keeps one attribute from being both revealed in the policy
    # and committed to. The tags must therefore reach it WITH their multiplicity: straight from the key iterators of the
    # maps (chained), never through a set/dedup that merges a duplicate before it can be refused
    net = 0
    for p0 in sorted(c.paths()):
        if re.search(r"::tests?::|::test_", p0):
            continue
        for b in c.get_all(p0):
            f = Fn(b)
            for (bi, t) in f.calls(r"id::utils::encode_tags$"):
                net += 1
                it = (t["f"].get("gargs") or ["", ""])[-1]
                merged = re.search(r"BTreeSet|HashSet|Unique|Dedup|IntoKeys|BTreeMap<|HashMap<|Vec<", it) is not None
                o = f.origins(t["args"][0], deep=True)
                merged = merged or has_call_origin(o, r"Iterator::collect$|::dedup$|Itertools::(unique|dedup)$|BTreeSet::<.*>::(insert|extend)$")
                ck.ob("DEFUSE", f.path, "tags-encoded-with-their-multiplicity", not merged,
                      "encode_tags receives the key iterators themselves (%s)" % re.sub(r"concordium_base::[a-z_:]+::", "", it)[:120] if not merged else
                      "the tags pass through a collection that merges duplicates (%s) before encode_tags can refuse them: an attribute can be revealed and committed to at the same time" % it[:80], f.loc(bi))
    ck.floor("DEFUSE", "encode_tags call sites", net, 5)
    conditional_transcript_sweep(ck, crate("rs", "concordium_base"), re.compile(r"concordium_base::id::(chain|identity_provider|utils|identity_attributes_credentials)::"), floor=3)
    gated_verification_sweep(ck, crate("rs", "concordium_base"), re.compile(r"concordium_base::id::(chain|identity_provider|utils|identity_attributes_credentials)::"), floor=8)
    eq_polarity_sweep(ck, crate("rs", "concordium_base"), re.compile(r"concordium_base::id::(chain|identity_provider|utils|identity_attributes_credentials)::"), re.compile(r"(verify|verifier|validate|check)[a-z_0-9]*(::\{closure#\d+\})*$"))
    rejecting_checks_floor(ck, crate("rs", "concordium_base"), re.compile(r"concordium_base::id::(chain|identity_provider|utils|identity_attributes_credentials)::"), re.compile(r"(verify|verifier|validate|check|extract_commit_message)[a-z_0-9]*(::\{closure#\d+\})*$"), "C08")

    # c. the signed message covers the credential
    f = getfn(ck, "rs", CB, I + "utils::credential_hash_to_sign")
    if f:
        srcs = set()
        for (bi, t) in f.calls(r"Digest::update$|digest::Update::update$|serialize::Put::put$|Serial::serial$|serialize::Buffer::"):
            for a in t["args"]:
                srcs |= f.origins(a, deep=True)
        for i, nm in ((1, "values"), (2, "proofs"), (3, "new_or_existing")):
            ck.ob("COV", f.path, "hashes-" + nm, ("arg", i) in srcs, "argument %d (%s) reaches the hasher" % (i, nm), f.loc())
    f = getfn(ck, "rs", CB, I + "utils::verify_account_ownership_proof")
    if f:
        n = enf_sweep(ck, f)
        acc, rej = f.accept_points()
        ck.ob("RET", f.path, "has-reject", len(rej) >= 1, "%d rejecting returns" % len(rej), f.loc(), nontrivial=False)
