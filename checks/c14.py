"""C14 — host functions: memory safety of slicing, charge-before-work, protocol limits."""
from .common import *
from vlib.callgraph import CallGraph

META = dict(
    technique="static analysis: linear-form bounds abstract interpretation, dominance, comparison-polarity and who-may-write rules over compiler MIR",
    text=("Structural necessary conditions: every slicing of the contract's linear memory in every v0 and v1 host function is "
          "dominated by an enforced comparison against memory.len() that implies (by linear arithmetic over unsigned values and "
          "dominating enforced equalities/lower bounds) that the slice bound is within memory; in every host entry point each "
          "call doing work proportional to a contract-chosen length is dominated by an energy charge whose failure is propagated "
          "(constant-size copies and callees that charge first are recognised, one documented exception); the protocol limits "
          "(legacy state size, number and size of logs, key size, entry size, parameter size, return-value size, activation "
          "frames) are each enforced by a correctly oriented comparison or a min() with the protocol constant before the "
          "allocation or mutation they bound. Value-level conformance to the documented host interface is not decided."),
)

E = "concordium_smart_contract_engine"
WORK = re.compile(r"InstanceState::<'a, BackingStore>::|v0::State::(write_state|load_state|resize_state)$|v0::Logs::log_event$|"
                  r"slice::<impl \[T\]>::to_vec$|Digest::digest$|VerificationKey::verify$|verify_ecdsa$|write_return_value_helper$|"
                  r"io::Write::write(_all)?$|copy_from_slice$|parse_call_args$|extend_from_slice$")
TICK = re.compile(r"InterpreterEnergy::tick_energy$")
CONST_COPY_MAX = 64
# host functions whose proportional work is deliberately not preceded by a charge in the function itself
CHARGE_EXCEPTIONS = {
    "concordium_smart_contract_engine::v1::host::get_receive_entrypoint":
        "copies the entrypoint name, whose length is bounded by the 100-byte name limit enforced at module validation; the "
        "protocol schedules no charge for it (constant-size in effect)",
}


def host_entry_points(c, cg):
    """host functions reachable directly from a Host::call implementation"""
    roots = [p for p in cg.bodies if re.search(r"as concordium_wasm::machine::Host<.*>>::call$", p)]
    eps = set()
    for r in roots:
        for e in cg.edges[r]:
            if re.search(r"::v[01]::host::[a-z_0-9]+$", e):
                eps.add(e)
    return roots, eps


def charges_first(cg, path):
    """callee summary: a tick_energy call dominates every other call of the function"""
    bs = cg.bodies.get(path)
    if not bs:
        return False
    f = Fn(bs[0])
    ticks = f.calls(TICK)
    if not ticks:
        return False
    first = ticks[0][0]
    for (bi, t) in f.calls():
        if bi == first or callee_match(t, r"constants::|ops::Try::branch|FromResidual|::split$|drop"):
            continue
        if not f.dominates(first, bi):
            return False
    return True


def const_size_copy(f, t):
    """write/copy whose destination is a slice with constant length <= CONST_COPY_MAX"""
    for a in f.origins(t["args"][0]):
        if a[0] == "call" and a[1].endswith(("IndexMut::index_mut", "Index::index")):
            st = f.term(a[2])
            rb = rules.range_bounds(f, st["args"][1])
            if rb and rb[0] == "range":
                ls, le = rules.lin(f, rb[1]), rules.lin(f, rb[2])
                if ls and le and ls[0] == le[0] and 0 <= le[1] - ls[1] <= CONST_COPY_MAX:
                    return True
    # fixed-size array destination: follow refs / unsizing casts back to a local of type [u8; N]
    p = op_place(t["args"][0])
    seen = set()
    work = [p[0]] if p is not None else []
    while work:
        l = work.pop()
        if l in seen:
            continue
        seen.add(l)
        m = re.match(r"^\[u8; (\d+)\]$", f.locals[l])
        if m and int(m.group(1)) <= CONST_COPY_MAX:
            return True
        for (bi, si, it) in f.defs().get(l, []):
            if si == "t":
                continue
            rv = it["rv"]
            if rv["k"] in ("ref", "use", "cast"):
                work += rules.rv_locals(rv)
    return False


def clamp_after_sum(f, size_op, const_pat=r"MAX_CONTRACT_STATE$"):
    """the size is min(SUM, LIMIT): a `min` with the limit constant whose other argument already contains the addition
    offset + length (clamping one summand leaves the end position unbounded)"""
    for a in f.origins(size_op, deep=True):
        if a[0] == "call" and len(a) > 2 and re.search(r"cmp::min$|Ord::min$", a[1]):
            t = f.term(a[2])
            args = t["args"]
            for i, x in enumerate(args):
                ox = f.origins(x, deep=True)
                if any(y[0] == "const" and re.search(const_pat, y[1]) for y in ox):
                    for j, z in enumerate(args):
                        if j != i:
                            oz = f.origins(z, deep=True)
                            if has_call_origin(oz, r"::checked_add$") or any(y[0] == "bin" and y[1].startswith("Add") for y in oz):
                                return True
    return False


def memory_params(f, path):
    """the linear-memory parameter: called `memory`, or - whatever its name - the first `&mut [u8]` / `&mut Vec<u8>` parameter
    of a host function (other byte slices handed to host functions are shared references)"""
    byname = [l for l, nm in f.names().items() if nm == "memory" and l <= f.argc and re.search(r"\[u8\]|Vec<u8>", f.locals[l])]
    if byname:
        return byname
    if re.search(r"::v[01]::host::[a-z_0-9]+$", path) and any("RuntimeStack" in f.locals[l] for l in range(1, f.argc + 1)):
        for l in range(1, f.argc + 1):
            if re.match(r"^&mut (\[u8\]|std::vec::Vec<u8>)$", f.locals[l]):
                return [l]
    return []


def run(ck):
    ck.explanation = ("Decides, for all host functions of both contract versions, that linear-memory slicing is bounds-checked "
                      "(linear-form implication from a dominating enforced comparison with memory.len()), that proportional "
                      "work is dominated by an enforced energy charge, and that each protocol limit is enforced before the "
                      "allocation or mutation it bounds.")
    ck.undecided = ("values returned to the contract follow the documented interface; total panic-freedom (arithmetic overflow of "
                    "usize sums is assumed impossible on 64-bit as the source comments state); the numerical cost schedule.")
    ck.rules_text = "BOUNDS(linear forms)/DOM/CMP/WHO over MIR of wasm-chain-integration v0 and v1"
    ck.assumptions = ["usize is 64 bits wide: sums of two u32-derived values do not overflow (debug builds would panic, release builds rely on this)",
                      "structural necessary conditions only"]
    c = crate("sc", E)
    _rs = {}

    def range_summary(path):
        if path not in _rs:
            bs = c.get_all(path)
            _rs[path] = rules.range_helper_param(Fn(bs[0])) if len(bs) == 1 else None
        return _rs[path]
    cg = CallGraph([c])

    # ---- b. bounds-checked slicing of linear memory
    nsites = 0
    nfun = 0
    for p in sorted(c.paths()):
        if "{closure" in p or "::utils::TestHost" in p or re.search(r"utils::.*Host<.*>>::call$", p):
            continue  # utils::TestHost is the off-chain test host
        bs = c.get_all(p)
        if len(bs) != 1:
            continue
        f = Fn(bs[0])
        mem = memory_params(f, p)
        if not mem:
            continue
        sites = rules.slice_sites(f, mem[0])
        if sites:
            nfun += 1
        for n, site in enumerate(sites):
            ok, d = rules.bounds_proved(f, mem[0], site, summary=range_summary)
            nsites += 1
            ck.ob("BOUNDS", p, "memory-slice#%d" % n, ok, d, f.loc(site[0]))
        # element indexing / unchecked access of memory is not an accepted idiom
        raw = [(bi, t) for (bi, t) in f.calls(r"get_unchecked(_mut)?$|slice::from_raw_parts") if ("arg", mem[0]) in f.origins(t["args"][0])]
        ck.ob("BOUNDS", p, "no-unchecked-access", not raw, "no get_unchecked/from_raw_parts on linear memory", f.loc(), nontrivial=False)
    # exactness of the tests: a test that is stricter than the access it guards is still memory safe, but makes an access that
    # ends exactly at the end of memory trap (pointers and lengths INSIDE memory must not trap)
    EXACT_EXCEPTIONS = {
        "concordium_smart_contract_engine::v0::host::get_receive_sender":
            "tests `start < len` before serialising into memory[start..]; the real bound is enforced by the write failing on a short slice (an address is never 0 bytes long, so start == len fails either way)",
    }
    ntests = 0
    tests_of = {}
    for p in sorted(c.paths()):
        if "{closure" in p or "::utils::TestHost" in p or re.search(r"utils::.*Host<.*>>::call$", p):
            continue
        bs = c.get_all(p)
        if len(bs) != 1:
            continue
        f = Fn(bs[0])
        mem = memory_params(f, p)
        if not mem:
            continue
        for k, (cb, g, exact, d) in enumerate(rules.len_tests_exact(f, mem[0], rules.slice_sites(f, mem[0]))):
            ntests += 1
            tests_of.setdefault(p, (f, []))[1].append(cb)
            if not exact and p in EXACT_EXCEPTIONS:
                ck.ob("BOUNDS", p, "length-test-exact#%d" % k, True, "documented exception: " + EXACT_EXCEPTIONS[p], f.loc(cb), nontrivial=False)
                continue
            ck.ob("BOUNDS", p, "length-test-exact#%d" % k, exact, d if exact else "over-strict or shifted bounds test: " + d + " (an access ending exactly at the end of memory traps)", f.loc(cb))
    ck.floor("BOUNDS", "enforced offset-vs-memory-length tests guarding slices", ntests, 47)
    # pointers and lengths outside memory trap: a host function that tests its memory arguments does so on every path that
    # ends normally (a test made in one branch only lets the other branch return normally with a wild pointer)
    UNTESTED_OK = {
        "concordium_smart_contract_engine::v1::host::get_parameter_section":
            "a parameter index that does not exist yields -1 without touching memory (host interface); the test sits in the branch that writes",
    }
    nfn = 0
    for p, (f, cbs) in sorted(tests_of.items()):
        acc, _ = f.accept_points()
        und = [a for a in acc if not any(f.dominates(cb, a) for cb in cbs)]
        if und:
            # a path that insists on an empty range (`length == 0` enforced) has no memory argument to test
            zero = []
            for cx in rules.comparisons(f):
                rel, _ = rules.cmp_rejects(f, cx)
                ks = [op_const(cx[s_]) for s_ in ("a", "b")]
                if rel == "Ne" and any(k is not None and const_int(k) == 0 for k in ks):
                    br = rules.cmp_branches(f, cx)
                    zero.append(br[0] if br else cx["bb"])
            und = [a for a in und if not any(f.dominates(z, a) for z in zero)]
        nfn += 1
        if und and p in UNTESTED_OK:
            ck.ob("BOUNDS", p, "memory-arguments-tested-on-every-normal-path", True, "documented exception: " + UNTESTED_OK[p], f.loc(und[0]), nontrivial=False)
            continue
        ck.ob("BOUNDS", p, "memory-arguments-tested-on-every-normal-path", not und,
              "every normal return is dominated by one of the %d memory-range tests" % len(cbs) if not und else
              "a normal return is reached without any of the function's memory-range tests: pointers/lengths outside memory do not trap on that path", f.loc(und[0]) if und else f.loc())
    ck.floor("BOUNDS", "host functions with memory-range tests", nfn, 25)

    # proportional work inside the state trie is charged through the resource counters the host hands in: copying a value out
    # of persistent storage (get_mut) is preceded by `allocate`, every traversal step of an iterator / prefix deletion by
    # `count_key_traverse_part`; the counts are those of the pinned tree (a deleted charge leaves no other trace)
    TRIE_CHARGES = {"get_mut": (r"::allocate$", 2), "next": (r"count_key_traverse_part$", 3), "delete_prefix": (r"count_key_traverse_part$", 1)}
    LLT = E + "::v1::trie::low_level::MutableTrie::"
    for name, (pat, cnt) in sorted(TRIE_CHARGES.items()):
        g = getfn(ck, "sc", E, LLT + name)
        if not g:
            continue
        sites = g.calls(pat)
        good = [bi for (bi, t) in sites if rules.enforcement(g, bi)["status"] in ("enforced", "propagated")]
        ck.ob("ENF", g.path, "trie-work-charged", len(good) >= cnt,
              "%d enforced charges (%s)" % (len(good), pat.strip("$:")) if len(good) >= cnt else
              "%d enforced charges of the resource counter, %d on the pinned tree: some proportional work (value copy / key traversal) is no longer paid for" % (len(good), cnt), g.loc())
        if name == "get_mut":
            # the copy itself comes after the charge
            clones = [bi for (bi, t) in g.calls(r"Clone::clone$|slice::<impl \[T\]>::to_vec$|::to_owned$") if "Vec<u8>" in (g.locals[t["dest"][0]] if t.get("dest") else "")]
            okc = all(any(g.dominates(cb, bi) for cb in good) for bi in clones) and len(clones) >= 1
            ck.ob("DOM", g.path, "value-copy-after-the-charge", okc, "every copy of a stored value is dominated by an enforced allocate()" if okc else "a stored value is copied before (or without) the allocation charge", g.loc(clones[0]) if clones else g.loc())
    # invalid handles never reach the tables (results follow the host interface: u32::MAX / error code for stale handles)
    from .c15 import stale_handle_rules
    stale_handle_rules(ck, c)
    # arguments arrive as 32/64-bit values: no host function narrows an argument below 32 bits before using it (a pointer,
    # length, offset or handle compared or used at 16 bits aliases values that differ by a multiple of 2^16)
    WID = {"u8": 8, "i8": 8, "u16": 16, "i16": 16, "u32": 32, "i32": 32, "u64": 64, "i64": 64, "usize": 64, "isize": 64}
    nhf = 0
    for p in sorted(c.paths()):
        if not re.search(r"::v[01]::host::[a-z_0-9]+$", p):
            continue
        for b in c.get_all(p):
            f = Fn(b)
            nhf += 1
            bad = []
            for bi in sorted(f.reachable()):
                for st in f.stmts(bi):
                    rv = st.get("rv", {})
                    if rv.get("k") == "cast" and rv.get("ck") == "IntToInt":
                        src = op_place(rv["a"])
                        ts = f.locals[src[0]] if src and not src[1] else None
                        td = rv.get("ty")
                        if ts in WID and td in WID and WID[td] < 32 and WID[td] < WID[ts] and has_call_origin(f.origins(rv["a"], deep=True), r"pop_u(32|64)$"):
                            bad.append((ts, td, bi))
            # ... and pointers, lengths and offsets are added at 64 bits: a 32-bit sum of two arguments wraps (release) or
            # panics (debug) for regions that cross 2^32, and the wrapped end then passes the memory test
            narrow_sum = []
            for bi in sorted(f.reachable()):
                for st in f.stmts(bi):
                    rv = st.get("rv", {})
                    if rv.get("k") == "bin" and re.match(r"^(Add|Mul)", rv["op"]):
                        pa, pb = op_place(rv["a"]), op_place(rv["b"])
                        ta = f.locals[pa[0]] if pa and not pa[1] else None
                        if ta in ("u32", "i32", "u16", "u8") and pb is not None and \
                                has_call_origin(f.origins(rv["a"], deep=True), r"pop_u(32|64)$") and has_call_origin(f.origins(rv["b"], deep=True), r"pop_u(32|64)$"):
                            narrow_sum.append(bi)
            ck.ob("BOUNDS", p, "argument-sums-formed-at-64-bits", not narrow_sum,
                  "no sum or product of two arguments is formed at 32 bits" if not narrow_sum else
                  "two arguments are added/multiplied as 32-bit values before widening: the result wraps for regions that cross 2^32", f.loc(narrow_sum[0]) if narrow_sum else f.loc(), nontrivial=False)
            ck.ob("CMP", p, "arguments-not-narrowed-below-32-bits", not bad, "no argument popped from the stack is narrowed below 32 bits" if not bad else
                  "an argument is narrowed %s -> %s before use" % (bad[0][0], bad[0][1]), f.loc(bad[0][2]) if bad else f.loc(), nontrivial=False)
    ck.floor("CMP", "host functions inspected for argument narrowing", nhf, 51)

    # a range whose end is clamped to the length of the data being read (end = min(offset + length, data.len())) is not
    # ordered by construction: offset may exceed the length, and data[offset..end] with offset > end panics
    nord = 0
    for p in sorted(c.paths()):
        if not re.search(r"::v[01]::host::[a-z_0-9]+$", p):
            continue
        for b in c.get_all(p):
            f = Fn(b)
            for k, (bi, t) in enumerate(f.calls(r"ops::Index::index$|ops::IndexMut::index_mut$")):
                rb = rules.range_bounds(f, t["args"][1])
                if rb is None or rb[0] != "range" or rb[1] is None or rb[2] is None:
                    continue
                oe = f.origins(rb[2], deep=True)
                if not has_call_origin(oe, r"cmp::min$|Ord::min$"):
                    continue
                # ... clamped to the length of the very data that is sliced
                base_args = set(a for a in f.origins(t["args"][0], deep=True) if a[0] == "arg")
                len_of_base = False
                for (lb_, lt_) in f.calls(r"::len$"):
                    if ("call", lt_["f"]["path"], lb_) in oe and base_args & set(a for a in f.origins(lt_["args"][0], deep=True) if a[0] == "arg"):
                        len_of_base = True
                if not len_of_base:
                    continue
                nord += 1
                ls, le = rules.root_local(f, rb[1]), rules.root_local(f, rb[2])
                ok, why = False, "no enforced comparison of the range's start with its end"
                for cx in rules.comparisons(f):
                    if cx["kind"] != "bin" or not f.dominates(cx["bb"], bi):
                        continue
                    a, b2 = rules.root_local(f, cx["a"]), rules.root_local(f, cx["b"])
                    info = {}
                    rel, d = rules.cmp_rejects(f, cx, info)
                    if rel is None or "pass_target" not in info or not f.dominates(info["pass_target"], bi):
                        continue
                    if (a, b2) == (le, ls):
                        rel = rules.FLIP[rel]
                    elif (a, b2) != (ls, le):
                        continue
                    if rel == "Gt":
                        ok, why = True, "rejects exactly when start > end (bb%d)" % cx["bb"]
                    else:
                        why = "the start/end test rejects when start %s end: reading zero bytes at the very end is refused, or an inverted range is let through" % rel
                ck.ob("BOUNDS", p, "clamped-range-ordered#%d" % k, ok, why, f.loc(bi))
    ck.floor("BOUNDS", "ranges clamped with min(.., len)", nord, 3)

    # slices of host-side data (parameters, policies, return values, entries, iterator keys): the start of the range is a
    # constant, is clamped to the length of the data, or is compared with a length on the way to the slice; an unclamped
    # contract-supplied offset makes `data[offset..]` panic
    nst = 0
    for p in sorted(c.paths()):
        if "::utils::" in p or "::trie::" in p or not re.search(r"::v[01]::", p):
            continue
        for b in c.get_all(p):
            f = Fn(b)
            memv = memory_params(f, f.path)
            for k, (bi, t) in enumerate(f.calls(r"ops::Index::index$|ops::IndexMut::index_mut$")):
                if memv and ("arg", memv[0]) in f.origins(t["args"][0]):
                    continue
                rb = rules.range_bounds(f, t["args"][1])
                if rb is None or rb[1] is None:
                    continue
                so = f.origins(rb[1], deep=True)
                const_start = bool(so) and all(a[0] in ("lit", "cast") for a in so)
                clamp = has_call_origin(so, r"cmp::min$|Ord::min$") and has_call_origin(so, r"::len$")
                # non-strict: an offset equal to the length is legal (it reads or writes nothing / appends)
                guarded = any((kk == "cmp:Le" and v is True or kk == "cmp:Gt" and v is False) and "len" in nn for (kk, nn, v) in conditions_at(f, bi))
                strict_only = not guarded and any((kk == "cmp:Lt" and v is True or kk == "cmp:Ge" and v is False) and "len" in nn for (kk, nn, v) in conditions_at(f, bi))
                nst += 1
                ck.ob("BOUNDS", p, "range-start-bounded#%d" % k, const_start or clamp or guarded,
                      "the start of the range is %s" % ("constant" if const_start else "clamped to the length of the data" if clamp else "compared with a length before the slice") if const_start or clamp or guarded else
                      ("the start of the range is only admitted when strictly below the length: an offset equal to the length (empty read, append) is refused" if strict_only else
                       "the start of the range is neither clamped to the length of the sliced data nor compared with it: an offset beyond the end panics"), f.loc(bi))
    ck.floor("BOUNDS", "range slices of host-side data", nst, 13)

    # v0 action tree: both operands of a combinator must refer to existing actions
    for nm in ("combine_and", "combine_or"):
        for p in [x for x in c.paths() if re.search(r"::v0::.*Outcome::" + nm + "$", x)]:
            f = Fn(c.get(p))
            good = set()
            for cx in rules.comparisons(f):
                rel, d = rules.cmp_rejects(f, cx)
                oa, ob = f.origins(cx["a"], deep=True), f.origins(cx["b"], deep=True)
                if rel == "Ge" and has_call_origin(ob, r"::len$"):
                    good |= set(a[1] for a in oa if a[0] == "arg")
            ck.ob("CMP", p, "both-operands-must-exist", {2, 3} <= good, "rejects when l >= number of actions and when r >= number of actions (operands tested: %s)" % sorted(good), f.loc())

    ck.floor("BOUNDS", "linear-memory slice sites", nsites, 51)
    ck.floor("BOUNDS", "host functions slicing memory", nfun, 30)

    # ---- c. charge before proportional work
    roots, eps = host_entry_points(c, cg)
    ck.floor("DOM", "Host::call implementations", len(roots), 4)
    ck.floor("DOM", "host entry points", len(eps), 40)
    for p in sorted(eps):
        f = Fn(c.get(p))
        ticks = [(bi, t) for (bi, t) in f.calls(TICK)]
        for n, (bi, t) in enumerate(ticks):
            r = rules.enforcement(f, bi)
            ck.ob("ERR", p, "charge-propagated#%d" % n, rules.enforced_ok(r), r["status"] + ": " + r["detail"], f.loc(bi))
        work = f.calls(WORK)
        # any call that is handed a slice of linear memory of contract-chosen length does work proportional to it
        memv2 = memory_params(f, f.path)
        if memv2:
            seen_w = set(b for (b, _) in work)
            for (bi, t) in f.calls():
                if bi in seen_w or callee_match(t, r"ops::Index(Mut)?::index(_mut)?$|ops::Try::branch$|FromResidual|ops::Deref|::len$|" + TICK.pattern):
                    continue
                for a in t["args"]:
                    oa = f.origins(a)
                    idxs = [x for x in oa if x[0] == "call" and re.search(r"ops::Index(Mut)?::index(_mut)?$", x[1])]
                    if not idxs:
                        continue
                    it = f.term(idxs[0][2])
                    if ("arg", memv2[0]) not in f.origins(it["args"][0]):
                        continue
                    rb = rules.range_bounds(f, it["args"][1])
                    if rb is None or rb[2] is None:
                        continue        # not a range, or open-ended (`memory[start..]`): the callee decides how much it writes
                    ls, le = (rules.lin(f, rb[1]) if rb[1] is not None else ({}, 0)), (rules.lin(f, rb[2]) if rb[2] is not None else None)
                    const_len = ls is not None and le is not None and ls[0] == le[0] and 0 <= le[1] - ls[1] <= CONST_COPY_MAX
                    if not const_len:
                        work.append((bi, t))
                        seen_w.add(bi)
                        break
        for n, (bi, t) in enumerate(work):
            nm = t["f"]["path"].split("::")[-1]
            dominated = any(f.dominates(tb, bi) and tb != bi for (tb, _) in ticks)
            how = "dominated by a charge"
            if not dominated and callee_match(t, r"io::Write::write(_all)?$|copy_from_slice$") and const_size_copy(f, t):
                dominated, how = True, "constant-size copy (<= %d bytes)" % CONST_COPY_MAX
            if not dominated:
                tgt = t["f"].get("res", t["f"]["path"])
                if charges_first(cg, tgt):
                    dominated, how = True, "callee %s charges before doing anything else" % nm
            if not dominated and p in CHARGE_EXCEPTIONS:
                ck.ob("DOM", p, "work:%s#%d" % (nm, n), True, "documented exception: " + CHARGE_EXCEPTIONS[p], f.loc(bi), nontrivial=False)
                continue
            ck.ob("DOM", p, "work:%s#%d" % (nm, n), dominated, how if dominated else "proportional work %s is not preceded by an energy charge" % nm, f.loc(bi))

    # ---- a. declared ABI == stack use of the host function that the tag dispatches to
    from vlib import abi
    ABI_EXC = {"invoke": "the result (i64) is pushed by resume_receive after the interrupt", "upgrade": "the result (i64) is pushed by resume_receive after the interrupt"}
    for ver, host_types in (("v1", ("InitHost", "ReceiveHost")), ("v0", ("InitHost", "ReceiveHost"))):
        vf = find_impl(ck, "sc", E, r"%s::types::ConcordiumAllowedImports$" % ver, r"ValidateImportExport$", "validate_import_function")
        tf = find_impl(ck, "sc", E, r"%s::types::ProcessedImports$" % ver, r"TryFromImport$", "try_from_import")
        if not (vf and tf):
            continue
        ET = "%s::%s::types::ImportFunc" % (E, ver)
        t1 = abi.declared_types(vf)
        t2 = abi.import_tags(tf, ET)
        ck.floor("TAB", "%s declared import types" % ver, len(t1), 20 if ver == "v0" else 35)
        hosts = {}
        for pth in c.paths():
            if re.search(r"::%s::.*Host<.*> as concordium_wasm::machine::Host<concordium_smart_contract_engine::%s::types::ProcessedImports>>::call$" % (ver, ver), pth):
                hf = Fn(c.get(pth))
                hosts[pth] = abi.dispatch(hf, c.adts, ET, re.compile(r"::v[01]::host::[a-z_0-9]+$"))
        ck.floor("TAB", "%s Host::call implementations" % ver, len(hosts), 2)
        for name, (params, res) in sorted(t1.items()):
            tag = t2.get(name)
            if not ck.ob("TAB", "%s import `%s`" % (ver, name), "has-tag", tag is not None, "validated import is translated to tag %s" % (tag,), vf.loc()):
                continue
            fns = set()
            for hp, tab in hosts.items():
                fns |= tab.get(tag, set())
            if not ck.ob("TAB", "%s import `%s`" % (ver, name), "dispatched", len(fns) >= 1, "tag %s dispatches to %s" % (tag, sorted(x.split("::")[-1] for x in fns)), vf.loc()):
                continue
            want = [x for x in (params or "[]").strip("[]").split(",") if x]
            for hfn in sorted(fns):
                g = Fn(c.get(hfn))
                pops, pushes = abi.stack_use(g, c)
                okp = pops == list(reversed(want))
                ck.ob("TAB", "%s import `%s`" % (ver, name), "params:" + hfn.split("::")[-1], okp,
                      "declared parameters %s; %s pops %s (last parameter first)" % (want, hfn.split("::")[-1], pops), g.loc(),
                      sample=dict(rule="TAB", import_name=name, declared=[params, res], tag="%s::%s" % tag, host_fn=hfn.split("::")[-1], pops=pops, pushes=pushes))
                if res == "None":
                    okr = not pushes
                elif res in ("Some(I32)", "Some(I64)"):
                    wantt = {"Some(I32)": {"u32", "i32"}, "Some(I64)": {"u64", "i64"}}[res]
                    okr = bool(pushes) and set(pushes) <= wantt
                    if not pushes and name in ABI_EXC:
                        ck.ob("TAB", "%s import `%s`" % (ver, name), "result:" + hfn.split("::")[-1], True, "documented exception: " + ABI_EXC[name], g.loc(), nontrivial=False)
                        continue
                else:
                    okr = False
                ck.ob("TAB", "%s import `%s`" % (ver, name), "result:" + hfn.split("::")[-1], okr, "declared result %s; pushes %s" % (res, pushes), g.loc())

    # ---- d. limits
    K = E + "::constants::"
    f = getfn(ck, "sc", E, E + "::v0::<impl concordium_smart_contract_engine::v0::types::State>::resize_state")
    if f:
        for (bi, t) in f.calls(r"Vec::<T, A>::resize$"):
            ok, d = rules.guarded_site(f, bi, [("arg", 2)], [("const", r"constants::MAX_CONTRACT_STATE$")], "Gt")
            ck.ob("CMP", f.path, "resize<=MAX_CONTRACT_STATE", ok, d, f.loc(bi))
    f = getfn(ck, "sc", E, E + "::v0::<impl concordium_smart_contract_engine::v0::types::State>::write_state")
    if f:
        for (bi, t) in f.calls(r"Vec::<T, A>::resize$"):
            o = f.origins(t["args"][1], deep=True)
            ck.ob("CMP", f.path, "resize-min-MAX_CONTRACT_STATE", has_call_origin(o, r"cmp::min$|Ord::min$") and any(a[0] == "const" and a[1].endswith("MAX_CONTRACT_STATE") for a in o),
                  "the new length is min(.., MAX_CONTRACT_STATE)", f.loc(bi))
            ck.ob("CMP", f.path, "limit-clamps-the-end-position", clamp_after_sum(f, t["args"][1]), "min(offset + length, MAX_CONTRACT_STATE): the clamp is applied to the end position, not to a summand", f.loc(bi))
        cmp_rejecting(ck, f, [("arg", 2)], [("call", r"State>::len$")], "Gt", "offset>len-rejected")
    # who may write State.state
    writers = set()
    for p in c.paths():
        for b in c.get_all(p):
            for bl in b["blocks"]:
                for s in bl["s"]:
                    rv = s.get("rv", {})
                    pl = None
                    if rv.get("k") == "ref" and rv.get("mut"):
                        pl = rv["p"]
                    elif "lhs" in s and s["lhs"][1]:
                        pl = s["lhs"]
                    if pl and any(pr.endswith(":state") for pr in pl[1]):
                        base = b["locals"][pl[0]]
                        if re.search(r"v0::types::State$|v0::types::State\b", base.replace("&mut ", "").replace("&", "")):
                            writers.add(p)
    allowed = {E + "::v0::<impl concordium_smart_contract_engine::v0::types::State>::write_state", E + "::v0::<impl concordium_smart_contract_engine::v0::types::State>::resize_state"}
    ck.ob("WHO", "v0::State.state", "writers", writers <= allowed and len(writers) >= 2, "functions taking &mut of State.state: %s" % sorted(w.split("::")[-1] for w in writers), "")
    f = getfn(ck, "sc", E, E + "::v0::<impl concordium_smart_contract_engine::v0::types::Logs>::log_event")
    if f:
        pb = f.calls(r"LinkedList::<T, A>::push_back$|LinkedList::<T>::push_back$")
        if ck.anchor(len(pb) == 1, "CMP", f.path, "push_back site"):
            found = False
            for comp in rules.comparisons(f):
                oa, ob = f.origins(comp["a"], deep=True), f.origins(comp["b"], deep=True)
                if comp["op"] == "Lt" and has_call_origin(oa, r"LinkedList.*::len$") and any(a[0] == "const" and a[1].endswith("MAX_NUM_LOGS") for a in ob):
                    br = rules.cmp_branches(f, comp)
                    if br and pb[0][0] not in f.reach_from([br[2]], avoid={br[0]}):
                        found = True
            ck.ob("CMP", f.path, "len<MAX_NUM_LOGS", found, "when the limit applies, logging happens only if len < MAX_NUM_LOGS", f.loc(pb[0][0]))
            # path by path: an event is stored when the limit does not apply, or when fewer than MAX_NUM_LOGS are stored
            paths = rules.path_condition_sets(f, pb[0][0])

            def has(pth, kind, name, val):
                return any(k == kind and name in nn and v is val for (k, nn, v) in pth)
            every = bool(paths) and all(has(pth, "bool", "limit_num_logs", False) or has(pth, "cmp:Lt", "MAX_NUM_LOGS", True) for pth in paths)
            limited = any(has(pth, "bool", "limit_num_logs", True) and has(pth, "cmp:Lt", "MAX_NUM_LOGS", True) for pth in paths)
            unlimited = any(has(pth, "bool", "limit_num_logs", False) and not any("MAX_NUM_LOGS" in nn for (k, nn, v) in pth) for pth in paths)
            ck.ob("CMP", f.path, "log-limit-by-path", every and limited and unlimited,
                  "every way to store an event has the limit switched off or len < MAX_NUM_LOGS; with the limit on the only way is len < MAX_NUM_LOGS; with it off storing does not depend on MAX_NUM_LOGS"
                  if every and limited and unlimited else
                  "paths to push_back: %s" % [[(k, v) for (k, nn, v) in pth] for pth in paths], f.loc(pb[0][0]))
    f = getfn(ck, "sc", E, E + "::v0::host::log_event")
    if f:
        for (bi, t) in f.calls(r"v0::types::Logs>::log_event$"):
            ok, d = rules.guarded_site(f, bi, [("call", r"pop_u32$")], [("const", r"constants::MAX_LOG_SIZE$")], "Gt")
            ck.ob("CMP", f.path, "length<=MAX_LOG_SIZE", ok, d, f.loc(bi))
    IS = E + "::v1::types::InstanceState::<'a, BackingStore>::"
    f = getfn(ck, "sc", E, IS + "create_entry")
    if f:
        cmp_rejecting(ck, f, [("arg", 2), ("len",)], [("const", r"constants::MAX_KEY_SIZE$")], "Gt", "key.len>MAX_KEY_SIZE-rejected")
        ins = f.calls(r"MutableTrie::insert$|MutableStateInner.*::insert$|::insert$")
        cmps = rules.find_cmp(f, [("arg", 2), ("len",)], [("const", r"constants::MAX_KEY_SIZE$")])
        ck.ob("DOM", f.path, "limit-before-insert", bool(cmps) and bool(ins) and all(f.dominates(cmps[0][0]["bb"], bi) for (bi, _) in ins), "the key-size test dominates the insertion", f.loc())
    f = getfn(ck, "sc", E, IS + "entry_resize")
    if f:
        for (bi, t) in f.calls(r"Vec::<T, A>::resize$"):
            ok, d = rules.guarded_site(f, bi, [("arg", 4)], [("const", r"constants::MAX_ENTRY_SIZE$")], "Gt")
            ck.ob("CMP", f.path, "resize<=MAX_ENTRY_SIZE", ok, d, f.loc(bi))
        gm = f.calls(r"::get_mut$")
        for (bi, t) in gm:
            ok, d = rules.guarded_site(f, bi, [("arg", 4)], [("const", r"constants::MAX_ENTRY_SIZE$")], "Gt")
            ck.ob("CMP", f.path, "limit-before-get_mut", ok, d, f.loc(bi), nontrivial=False)
    f = getfn(ck, "sc", E, IS + "entry_write")
    if f:
        for (bi, t) in f.calls(r"Vec::<T, A>::resize$"):
            o = f.origins(t["args"][1], deep=True)
            ck.ob("CMP", f.path, "resize-min-MAX_ENTRY_SIZE", has_call_origin(o, r"cmp::min$") and any(a[0] == "const" and a[1].endswith("MAX_ENTRY_SIZE") for a in o), "the new length is min(MAX_ENTRY_SIZE, ..)", f.loc(bi))
            tk = f.calls(TICK)
            ck.ob("DOM", f.path, "growth-charged", any(f.dominates(tb, bi) for (tb, _) in tk), "growing an entry is preceded by a charge", f.loc(bi))
    f = getfn(ck, "sc", E, E + "::v1::host::parse_call_args")
    if f:
        cmp_rejecting(ck, f, [("call", r"Get::get$")], [("arg", 3)], "Gt", "parameter_len>max_parameter_size-rejected")
        tv = f.calls(r"to_vec$")
        cmps = rules.find_cmp(f, [("call", r"Get::get$")], [("arg", 3)])
        ck.ob("DOM", f.path, "limit-before-copy", bool(tv) and bool(cmps) and all(f.dominates(cmps[0][0]["bb"], bi) for (bi, _) in tv), "the parameter-size test dominates the copy", f.loc())
        # the inner slice of the cursor data is bounds-checked
        ok, d = rules.guarded_site(f, tv[0][0], [("field", "offset")], [("field", "data"), ("len",)], "Gt") if tv else (False, "no to_vec")
        ck.ob("BOUNDS", f.path, "cursor-slice", ok, d, f.loc(tv[0][0]) if tv else f.loc())
    f = getfn(ck, "sc", E, E + "::v1::host::write_return_value_helper")
    if f:
        for (bi, t) in f.calls(r"Vec::<T, A>::resize$"):
            o = f.origins(t["args"][1], deep=True)
            ck.ob("CMP", f.path, "resize-min-MAX_CONTRACT_STATE", has_call_origin(o, r"cmp::min$|Ord::min$") and any(a[0] == "const" and a[1].endswith("MAX_CONTRACT_STATE") for a in o), "with the limit flag, the new length is min(end, MAX_CONTRACT_STATE)", f.loc(bi))
            ok2 = clamp_after_sum(f, t["args"][1])
            ck.ob("CMP", f.path, "limit-clamps-the-end-position", ok2,
                  "min(offset + length, MAX_CONTRACT_STATE): the clamp is applied to the end position" if ok2 else
                  "the 16 KiB limit is applied to a summand (the length of one write), not to offset + length: appended writes grow the return value without bound", f.loc(bi))
            tk = f.calls(TICK)
            ck.ob("DOM", f.path, "growth-charged", any(f.dominates(tb, bi) for (tb, _) in tk), "growing the return value is preceded by a charge", f.loc(bi))
        cmp_rejecting(ck, f, [("arg", 3)], [("arg", 1), ("call", r"::len$")], "Gt", "offset>len-rejected")
    # a write never SHRINKS what it writes into: in the three buffer writers the resize to the end position of the write is
    # conditional (taken when the buffer is shorter than that end) - an unconditional resize truncates the buffer when the
    # contract goes back and overwrites bytes in the middle
    nwr = 0
    for pth in sorted(c.paths()):
        if not re.search(r"v0::types::State>::write_state$|v1::host::write_return_value_helper$|v1::types::InstanceState::<.*>::entry_write$", pth):
            continue
        for b in c.get_all(pth):
            g = Fn(b)
            acc, _ = g.accept_points()
            for (bi, t) in g.calls(r"Vec::<T, A>::resize$"):
                nwr += 1
                uncond = [a for a in acc if g.dominates(bi, a)]
                ck.ob("DOM", pth, "write-grows-but-never-shrinks", not uncond,
                      "the resize is taken only on the path where the buffer is shorter than the end of the write" if not uncond else
                      "the buffer is resized to the end of the write on every path: a write that ends before the current end truncates it", g.loc(bi))
    ck.floor("DOM", "buffer writers with a conditional resize", nwr, 3)
    # v0 send action: the parameter size limit is inclusive and tested before the parameter is copied
    for pth in [x for x in c.paths() if re.search(r"::v0::.*Outcome::send$", x)]:
        f = Fn(c.get(pth))
        cmp_rejecting(ck, f, [("arg", 6), ("len",)], [("arg", 7)], "Gt", "parameter.len>max_parameter_size-rejected")
        tv = f.calls(r"to_vec$")
        cmps = rules.find_cmp(f, [("arg", 6), ("len",)], [("arg", 7)])
        ck.ob("DOM", f.path, "limit-before-copy", bool(tv) and bool(cmps) and all(f.dominates(cmps[0][0]["bb"], bi) for (bi, _) in tv), "the parameter-size test dominates the copy of the parameter", f.loc())
    f = getfn(ck, "sc", E, E + "::v0::host::track_call")
    if f:
        enf_calls(ck, f, r"checked_sub$", "activation_frames.checked_sub")
    # activation frames start from the protocol constant
    inits = 0
    for p in c.paths():
        for b in c.get_all(p):
            for bl in b["blocks"]:
                for s in bl["s"]:
                    rv = s.get("rv", {})
                    if rv.get("k") == "agg" and "activation_frames" in rv.get("fields", []):
                        i = rv["fields"].index("activation_frames")
                        k = op_const(rv["ops"][i])
                        f2 = None
                        if k is not None and k.get("item", "").endswith("MAX_ACTIVATION_FRAMES"):
                            inits += 1
                        elif k is not None:
                            ck.ob("CONST", p, "activation_frames-init", False, "host constructed with a literal number of activation frames", "%s:%d" % (b["file"], s["line"]))
    ck.floor("CONST", "hosts initialised with MAX_ACTIVATION_FRAMES", inits, 4)
    # the remaining call depth (and the other host counters) survive an interrupt
    from .c13 import host_conversion_cov
    host_conversion_cov(ck, c)
    # the limits keep their protocol values
    for name, val in (("MAX_CONTRACT_STATE", 16384), ("MAX_ACTIVATION_FRAMES", 1024), ("MAX_LOG_SIZE", 512), ("MAX_NUM_LOGS", 64),
                      ("MAX_ENTRY_SIZE", 1 << 30), ("MAX_KEY_SIZE", 1 << 30)):
        k = c.consts.get(K + name)
        ck.ob("CONST", K + name, "protocol-value", k is not None and k.get("v") == str(val), "evaluates to %s (protocol value %d)" % (k.get("v") if k else None, val), "")
