"""C15 — iterator locks and entry handles: structural necessary conditions."""
from .common import *
from vlib.mir import path_conditions
from vlib.callgraph import CallGraph
from vlib.mir import block_fields, _places_of_rv

META = dict(
    technique="static analysis: dominance/enforcement/who-may-call/comparison-polarity rules over compiler MIR and the call graph",
    text=("Structural necessary conditions: in the mutable trie's insert, delete and delete_prefix the lock-set query dominates "
          "every mutation (copy-on-write, entry replacement, pushes) and its failure rejects; locks are acquired only by iter "
          "(propagating failure, before the iterator is returned) and released only by delete_iter with the iterator's own "
          "root; every InstanceState method taking an entry or iterator handle compares the handle's generation with the "
          "current one before touching the entry map, the iterator table or the trie; every mutating method marks the state "
          "changed first; deletions write a tombstone and tombstones read back as absent. When the iterator key is rebuilt, a nibble carried between bytes is read before the byte is overwritten. That an iterator yields exactly the "
          "entries present at creation is history-level and not decided."),
)

E = "concordium_smart_contract_engine"
LL = E + "::v1::trie::low_level::"
MT = LL + "MutableTrie::"
MUT = re.compile(r"low_level::make_owned$|std::mem::(replace|take)$|Vec::<T, A>::(push|truncate|pop|remove|insert)$|TinyVec::<A>::(push|insert|remove|pop)$|ChildrenCow::<V>::(get_owned_mut|make_owned)$")
HANDLE_TYPES = re.compile(r"InstanceStateEntry$|InstanceStateIterator$")


def run(ck):
    ck.explanation = ("Decides lock-check-before-mutation and its enforcement in the trie, acquire/release pairing by call graph, "
                      "generation-check-before-use in every handle-taking InstanceState method, changed-flag-before-mutation, "
                      "and tombstone write/read agreement.")
    ck.undecided = "that the iterator yields exactly the entries present at its creation; absence of lock leaks across generations (history-level)."
    ck.rules_text = "DOM/ENF/WHO/CMP over MIR of v1::trie::low_level and v1::types"
    c = crate("sc", E)

    for name, lockpat, ef in (("insert", r"PrefixesMap::check_has_no_prefix$", None), ("delete", r"PrefixesMap::check_has_no_prefix$", None),
                              ("delete_prefix", r"PrefixesMap::is_or_has_prefix$", ("bool", 1))):
        f = getfn(ck, "sc", E, MT + name)
        if not f:
            continue
        if name == "delete_prefix":
            f.nested_reject = True   # returns Result<Result<bool, Locked>, CounterErr>: Ok(Err(Locked)) is the refusal
        sites = enf_calls(ck, f, lockpat, "lock-query", extra_fail=ef)
        if len(sites) != 1:
            ck.ob("DOM", f.path, "single-lock-query", False, "%d lock queries" % len(sites), f.loc())
            continue
        lb = sites[0][0]
        o = f.origins(sites[0][1]["args"][1], deep=True)
        ck.ob("DEFUSE", f.path, "lock-query-on-key", ("arg", 3) in o, "the lock set is queried with the operation's key", f.loc(lb))
        muts = f.calls(MUT)
        bad = [(bi, t) for (bi, t) in muts if not (f.dominates(lb, bi) and bi != lb)]
        ck.ob("DOM", f.path, "lock-query-before-mutation", len(muts) >= 3 and not bad,
              "%d mutating call sites, all dominated by the lock query" % len(muts) if not bad else
              "mutation %s at %s is not dominated by the lock query" % (bad[0][1]["f"]["path"], f.loc(bad[0][0])), f.loc(lb))
        # direct field writes through self (e.g. generation.root = ...) are dominated too
        wr = []
        for bi in f.reachable():
            for s in f.stmts(bi):
                if "lhs" in s and "*" in s["lhs"][1] and any(p.startswith("f") for p in s["lhs"][1]):
                    wr.append(bi)
        badw = [b for b in wr if not (f.dominates(lb, b))]
        ck.ob("DOM", f.path, "lock-query-before-field-writes", not badw, "%d writes through references, all after the lock query" % len(wr), f.loc(lb))

    # registering a lock always records it: every successful return of PrefixesMap::insert passes through a write of the
    # node's count, and the written count is 1 or the old count + 1 (an early return "because a shorter prefix is already
    # locked" leaves the new iterator without a lock of its own once the outer iterator is deleted)
    f = getfn(ck, "sc", E, LL + "PrefixesMap::insert")
    if f:
        acc, _ = f.accept_points()
        wr = [bi for bi in f.reachable() for s2 in f.stmts(bi) if "lhs" in s2 and s2["lhs"][1] and str(s2["lhs"][1][-1]).endswith(":value")]
        around = [a for a in acc if a in f.reach_from([0], avoid=set(wr)) and a not in wr]
        ck.ob("DOM", f.path, "lock-recorded-on-every-successful-return", len(wr) >= 1 and not around,
              "every successful return passes through one of the %d writes of the lock count" % len(wr) if wr and not around else
              "a successful return is reachable without writing the lock count: the caller believes the prefix is locked, nothing was recorded", f.loc(around[0]) if around else f.loc())
        for n, bi in enumerate(wr):
            for s2 in f.stmts(bi):
                if "lhs" in s2 and s2["lhs"][1] and str(s2["lhs"][1][-1]).endswith(":value"):
                    o = f.origins(s2["rv"].get("a") or {"k": "copy", "p": [s2["lhs"][0], []]}, deep=True) if s2["rv"].get("k") == "use" else set()
                    if s2["rv"].get("k") == "agg":
                        o = set()
                        for x in s2["rv"]["ops"]:
                            o |= f.origins(x, deep=True)
                    inc = has_call_origin(o, r"checked_add$") and ("lit", 1) in o
                    one = ("lit", 1) in o and not has_call_origin(o, r"checked_add$|::get$")
                    ck.ob("DEFUSE", f.path, "lock-count-written#%d" % n, inc or one,
                          "the count written is %s" % ("the old count checked_add 1" if inc else "1 (first lock on this prefix)") if inc or one else "the count written is neither 1 nor the old count + 1", f.loc(bi))

    # the lock query inspects EVERY node on the descent: after the current node index is (re)assigned - to the root at the
    # start, to a child on each step - no successful return and no further step is reached before that node's lock count
    # (`value`) has been tested. (A query that steps first and tests afterwards never looks at the root: an iterator over
    # the whole state locks nothing.)
    f = getfn(ck, "sc", E, LL + "PrefixesMap::check_has_no_prefix")
    if f:
        idx_locals = set()
        for (bi, t) in f.calls(r"Slab::<.*>::get$|slab::Slab<.*>::get$|::get$"):
            if len(t["args"]) >= 2 and "InnerNode" in (f.locals[t["dest"][0]] if t.get("dest") else ""):
                r = rules.root_local(f, t["args"][1])
                if r and not r[1]:
                    idx_locals.add(r[0])
        defs_ = sorted(set(b2 for l in idx_locals for (b2, si, it) in f.defs().get(l, [])))
        tests = set()
        for (sb, st) in f.switches():
            o = f.origins(st["d"], deep=True)
            if ("field", "value") in o:
                tests.add(sb)
        acc, _ = f.accept_points()
        bad = []
        for d in defs_:
            seen = f.reach_from(f.succ(d), avoid=tests)
            if any(a in seen for a in acc) or any(d2 in seen and d2 != d for d2 in defs_) or (d in seen):
                bad.append(d)
        ck.ob("DOM", f.path, "every-visited-node-tested", len(idx_locals) == 1 and len(defs_) >= 2 and len(tests) >= 1 and not bad,
              "after each of the %d assignments of the current node, its lock count is tested before the next step or a successful return" % len(defs_) if not bad and tests else
              "a node reached on the descent (assignment at %s) is stepped over or accepted without its lock count being tested" % [f.loc(b) for b in bad], f.loc(bad[0]) if bad else f.loc())

    # acquire / release pairing
    cg = CallGraph([c])
    ins = cg.callers(re.compile(r"low_level::PrefixesMap::insert$"))
    dele = cg.callers(re.compile(r"low_level::PrefixesMap::delete$"))
    ck.ob("WHO", "PrefixesMap::insert", "only-from-iter", ins == {MT + "iter"}, "callers: %s" % sorted(ins), "")
    ck.ob("WHO", "PrefixesMap::delete", "only-from-delete_iter", dele == {MT + "delete_iter"}, "callers: %s" % sorted(dele), "")
    f = getfn(ck, "sc", E, MT + "iter")
    if f:
        sites = enf_calls(ck, f, r"PrefixesMap::insert$", "lock-acquire", floor=2)
        its = []
        for bi in f.reachable():
            for s in f.stmts(bi):
                rv = s.get("rv", {})
                if rv.get("k") == "agg" and rv.get("adt", "").endswith("low_level::Iterator"):
                    its.append(bi)
        ck.ob("DOM", f.path, "acquire-before-iterator", len(its) >= 1 and all(any(f.dominates(sb, ib) for (sb, _) in sites) for ib in its),
              "%d Iterator constructions, each dominated by a lock acquisition" % len(its), f.loc())
        for n, (bi, t) in enumerate(sites):
            ck.ob("DEFUSE", f.path, "acquire-on-prefix#%d" % n, ("arg", 3) in f.origins(t["args"][1], deep=True), "the lock is taken on the iterator's prefix", f.loc(bi))
            # ... the prefix AS REQUESTED, not a key that was meanwhile extended with the rest of a stem (a lock on the padded
            # path does not cover the other keys under the requested prefix)
            sh = f.origins(t["args"][1], deep=False)
            exact = ("arg", 3) in sh and not any(a[0] == "call" for a in sh)
            ck.ob("DEFUSE", f.path, "acquire-on-the-requested-prefix#%d" % n, exact,
                  "the locked key is the prefix parameter itself" if exact else
                  "the locked key is computed (%s), not the requested prefix: keys under the prefix that do not extend it stay unlocked" % sorted(a[1].split("::")[-1] for a in sh if a[0] == "call")[:4], f.loc(bi))
    f = getfn(ck, "sc", E, MT + "delete_iter")
    if f:
        for (bi, t) in f.calls(r"PrefixesMap::delete$"):
            o = f.origins(t["args"][1], deep=True)
            ck.ob("DEFUSE", f.path, "release-own-root", has_call_origin(o, r"Iterator::get_root$") and ("arg", 2) in o, "the released lock is the iterator's own root", f.loc(bi))
            ck.ob("RET", f.path, "reports-release", has_call_origin(f.origins(0), r"PrefixesMap::delete$"), "returns whether a lock was released", f.loc(bi))

    # releasing a lock frees only lock-trie nodes that hold no lock themselves
    f = getfn(ck, "sc", E, LL + "PrefixesMap::delete")
    if f:
        rem = f.calls(r"slab::Slab::<T>::remove$")
        ck.ob("DOM", f.path, "sites:node-removal", len(rem) >= 2, "%d lock-trie node removals" % len(rem), f.loc(), nontrivial=False)
        tests = []
        for (sb, st) in f.switches():
            o = f.origins(st["d"])
            if has_call_origin(o, r"Option::<T>::is_some$") and ("field", "value") in f.origins(st["d"], deep=True):
                false_t = [tb for v, tb in st["t"] if v == "0"]
                if false_t:
                    tests.append((sb, st["o"], false_t[0]))
            elif has_call_origin(o, r"Option::<T>::is_none$") and ("field", "value") in f.origins(st["d"], deep=True):
                # is_none() true is the same information as is_some() false: record with the targets swapped
                false_t = [tb for v, tb in st["t"] if v == "0"]
                if false_t:
                    tests.append((sb, false_t[0], st["o"]))
        clears = [bi for bi in f.reachable() for s2 in f.stmts(bi) if "lhs" in s2 and any(p.endswith(":value") for p in s2["lhs"][1])
                  and ((s2["rv"]["k"] == "agg" and s2["rv"].get("variant") == "None") or any(a[0] == "agg" and a[1].endswith("Option::None") for a in f.origins(s2["rv"].get("a", {}) if s2["rv"]["k"] == "use" else 0)))]
        for n, (bi, t) in enumerate(rem):
            by_clear = any(f.dominates(cb, bi) for cb in clears) and not any(f.dominates(cb, sb) and f.dominates(sb, bi) and False for cb in clears for (sb, _, _) in tests)
            by_test = any(f.dominates(sb, bi) and bi not in f.reach_from([tt], avoid={sb}) for (sb, tt, ft) in tests)
            # the removal inside the back-up loop must be guarded by a value test of the node being removed
            in_loop = bi in f.reach_from(f.succ(bi))
            ok = by_test if in_loop else (by_clear or by_test)
            ck.ob("DOM", f.path, "removal-only-of-unlocked-node#%d" % n, ok,
                  "a lock-trie node is freed only %s" % ("on the branch where it holds no lock (value.is_some() is false)" if by_test else "after its own lock was cleared") if ok else
                  "node removal is not guarded by a test that the node holds no lock: deleting one iterator can release another iterator's lock", f.loc(bi))

        # the same removals, and the bookkeeping around them, through the conditions under which each site is reached
        def reached_under(g, bb, same_loop=False):
            """[(callee name, fields of the receiver, truth value)] for the dominating bool switches with a single edge to bb
            (same_loop: only tests made in the same loop iteration, i.e. blocks that bb can reach again)"""
            out = []
            again = g.reach_from(g.succ(bb)) if same_loop else None
            for (sb, val) in path_conditions(g, bb):
                if again is not None and sb not in again:
                    continue
                st = g.term(sb)
                o = g.origins(st["d"])
                od = g.origins(st["d"], deep=True)
                truth = (val != "0")
                neg = sum(1 for a in o if a[0] == "un" and a[1] == "Not") % 2 == 1
                for a in o:
                    if a[0] == "call":
                        out.append((a[1].split("::")[-1], frozenset(x[1] for x in od if x[0] == "field"), truth != neg))
                for cx in rules.comparisons(g):
                    br = rules.cmp_branches(g, cx)
                    if br and br[0] == sb:
                        oo = g.origins(cx["a"], deep=True) | g.origins(cx["b"], deep=True)
                        side = True if br[1] in ([tb for v, tb in st["t"] if v == val] + ([st["o"]] if val == "otherwise" else [])) else False
                        out.append(("cmp:" + cx["op"], frozenset([x[1] for x in oo if x[0] == "field"] + ["lit%s" % x[1] for x in oo if x[0] == "lit"] + [x[1].split("::")[-1] for x in oo if x[0] == "call"]), side))
            return out
        for n, (bi, t) in enumerate(rem):
            if bi not in f.reach_from(f.succ(bi)):
                continue
            cond = reached_under(f, bi, same_loop=True)
            ok = any(c[0] == "is_empty" and "children" in c[1] and c[2] for c in cond) and any((c[0] == "is_some" and "value" in c[1] and not c[2]) or (c[0] == "is_none" and "value" in c[1] and c[2]) for c in cond)
            ck.ob("DOM", f.path, "ancestor-removed-only-if-empty-and-unlocked#%d" % n, ok,
                  "an ancestor lock-trie node is freed only when it has no children left and holds no lock" if ok else
                  "the back-up loop frees an ancestor under %s: a node that still has children (locks below it) or a lock of its own can be freed" % [(c[0], c[2]) for c in cond], f.loc(bi))
        nz = f.calls(r"NonZero[A-Za-z0-9<>:]*::new_unchecked$")
        ck.ob("DOM", f.path, "sites:count-decrement", len(nz) == 1, "%d reference-count updates" % len(nz), f.loc(), nontrivial=False)
        for (bi, t) in nz:
            o = f.origins(t["args"][0], deep=True)
            dec = any(a[0] == "bin" and a[1].startswith("Sub") for a in o) and ("lit", 1) in o and has_call_origin(o, r"::get$")
            cond = reached_under(f, bi)
            grd = any(c[0] == "cmp:Gt" and "lit1" in c[1] and "get" in c[1] and c[2] for c in cond) or any(c[0] == "cmp:Ge" and "lit2" in c[1] and "get" in c[1] and c[2] for c in cond)
            ck.ob("DOM", f.path, "count-decremented-by-one-while-above-one", dec and grd,
                  "the lock count becomes count - 1 only when count > 1 (otherwise the lock is removed)" if dec and grd else
                  "the lock count update is not `count - 1 under count > 1` (decrement: %s, guard: %s): a lock is never released, or the count reaches 0 inside a NonZeroU32" % (dec, [(c[0], c[2]) for c in cond]), f.loc(bi))
        rootclr = [bi for bi in f.reachable() for s2 in f.stmts(bi) if "lhs" in s2 and s2["lhs"][1] and str(s2["lhs"][1][-1]).endswith(":root") and
                   ((s2["rv"].get("k") == "agg" and s2["rv"].get("variant") == "None") or
                    (s2["rv"].get("k") == "use" and any(a[0] == "agg" and a[1].endswith("Option::None") for a in f.origins(s2["rv"]["a"]))))]
        for bi in rootclr:
            cond = reached_under(f, bi)
            ok = any(c[0] == "contains" and not c[2] for c in cond)
            ck.ob("DOM", f.path, "root-cleared-only-when-removed", ok, "self.root = None only when the root node is no longer in the slab" if ok else
                  "the root pointer is cleared under %s: all remaining locks are forgotten while their nodes exist" % [(c[0], c[2]) for c in cond], f.loc(bi))
        ck.ob("DOM", f.path, "sites:root-clear", len(rootclr) == 1, "%d assignments root = None" % len(rootclr), f.loc(), nontrivial=False)

    stale_handle_rules(ck, c)
    IS = E + "::v1::types::InstanceState::<'a, BackingStore>::"

    # handle ids are never reused within a generation: a handle table (`entry_mapping`, `iterators`) only grows by push, the id
    # handed out is the table's length taken just before that push, and a slot is written afterwards only to retire it
    # (`None` in iterator_delete). Reusing a retired slot makes the old handle valid again - for somebody else's iterator
    IS = E + "::v1::types::InstanceState::<'a, BackingStore>::"
    nh = 0
    for p in sorted(c.paths()):
        if not p.startswith(IS) or "{closure" in p:
            continue
        for b in c.get_all(p):
            f = Fn(b)
            for tbl in ("entry_mapping", "iterators"):
                pushes_ = [(bi, t) for (bi, t) in f.calls(r"Vec::<T, A>::push$|Vec::<T>::push$") if ("field", tbl) in f.origins(t["args"][0], deep=True)]
                if not pushes_:
                    continue
                nh += 1
                lens = [bi for (bi, t) in f.calls(r"Vec::<T, A>::len$|Vec::<T>::len$") if ("field", tbl) in f.origins(t["args"][0], deep=True)]
                ok_len = all(any(f.dominates(lb, pb) for lb in lens) for (pb, _) in pushes_)
                if not ok_len:
                    # the equivalent form: push first, then id = len() - 1
                    subs = [st for bi in f.reachable() for st in f.stmts(bi) if st.get("rv", {}).get("k") == "bin" and st["rv"]["op"].startswith("Sub")
                            and op_const(st["rv"]["b"]) is not None and const_int(op_const(st["rv"]["b"])) == 1 and has_call_origin(f.origins(st["rv"]["a"], deep=False), r"::len$")]
                    ok_len = bool(subs) and all(any(f.dominates(pb, lb) for lb in lens) for (pb, _) in pushes_)
                # slot writes that store a live value (not the retiring None)
                wr = []
                for (bi, t) in f.calls(r"ops::IndexMut::index_mut$|::get_mut$|Vec::<.*>::(insert|swap_remove|remove)$|iter::Iterator::position$"):
                    if t["args"] and ("field", tbl) in f.origins(t["args"][0], deep=True):
                        wr.append(bi)
                ck.ob("DEFUSE", f.path, "fresh-handle-id:%s" % tbl, ok_len and not wr,
                      "new handles get the table length taken before the push; no slot is reused" if ok_len and not wr else
                      "the %s table is also written by index / searched for a free slot in the function that creates handles: a retired id is handed out again and the old handle becomes valid for another object" % tbl, f.loc(wr[0]) if wr else f.loc(pushes_[0][0]))
    ck.floor("DEFUSE", "handle-creating sites", nh, 4)

    # changed flag before mutation
    mutating = re.compile(r"MutableTrie::(insert|delete|delete_prefix|get_mut|set)$")
    nm = 0
    for p in sorted(c.paths()):
        if not p.startswith(IS):
            continue
        for b in c.get_all(p):
            f = Fn(b)
            mc = f.calls(mutating)
            if not mc:
                continue
            nm += 1
            flag = []
            for bi in f.reachable():
                for s in f.stmts(bi):
                    if "lhs" in s and any(pr == "f%s:changed" % pr.split(":")[0][1:] for pr in s["lhs"][1] if pr.endswith(":changed")):
                        k = op_const(s["rv"].get("a", {})) if s["rv"]["k"] == "use" else None
                        if k is not None and const_int(k) == 1:
                            flag.append(bi)
            ok = flag and all(any(f.dominates(fb, mb) for fb in flag) for (mb, _) in mc)
            ck.ob("DOM", f.path, "changed-before-mutation", ok, "changed = true dominates %d mutating trie calls" % len(mc), f.loc())
    ck.floor("DOM", "mutating InstanceState methods", nm, 5)
    f = getfn(ck, "sc", E, IS + "migrate")
    if f:
        sw = f.switches()
        ok = False
        for (sb, st) in sw:
            o = f.origins(st["d"])
            if ("arg", 1) in o:
                ok = True
        adds = [s for bi in f.reachable() for s in f.stmts(bi) if s.get("rv", {}).get("k") == "bin" and s["rv"]["op"].startswith("Add")]
        ck.ob("CMP", f.path, "generation-bumped-iff-updated", ok and len(adds) >= 1, "branch on state_updated; the generation is incremented in one branch only", f.loc())

    # tombstones
    for name in ("delete", "delete_prefix"):
        f = getfn(ck, "sc", E, MT + name)
        if f:
            tomb = 0
            sites = []
            for (bi, t) in f.calls(r"std::mem::replace$"):
                o = f.origins(t["args"][1], deep=True)
                if any(a[0] == "agg" and a[1].endswith("Entry::Deleted") for a in o) or "Entry::Deleted" in str(t["args"][1]):
                    tomb += 1
                    sites.append(bi)
            # the same effect written as an assignment `entries[i] = Entry::Deleted`
            for bi in f.reachable():
                for st in f.stmts(bi):
                    rv = st.get("rv", {})
                    if "lhs" in st and st["lhs"][1] and (rv.get("k") == "agg" and rv.get("variant") == "Deleted" and rv.get("adt", "").endswith("low_level::Entry") or
                                                      rv.get("k") == "use" and any(a[0] == "agg" and a[1].endswith("Entry::Deleted") for a in f.origins(rv["a"]))):
                        tomb += 1
                        sites.append(bi)
            ck.ob("TAB", f.path, "writes-tombstone", tomb >= 1, "%d entries replaced by Entry::Deleted" % tomb, f.loc())
            if name == "delete_prefix" and sites:
                # every entry of the removed subtree is tombstoned, whatever kind of entry it is (read-only entries inherited
                # from the persistent tree or an older generation included)
                kinds = []
                for bi in sites:
                    for (k2, nn, v) in conditions_at(f, bi, same_loop=True):
                        if k2.startswith("call:is_owned") or "is_owned" in nn or any(x in nn for x in ("Mutable", "ReadOnly")):
                            kinds.append((k2, v))
                ck.ob("DOM", f.path, "tombstone-unconditional", not kinds, "inside the loop over the removed subtree the tombstone does not depend on the kind of the entry" if not kinds else
                      "the tombstone is written only for some kinds of entries (%s): handles to the others stay usable after the prefix was deleted" % kinds, f.loc(sites[0]))
    ent = c.adts.get(LL + "Entry")
    if ck.anchor(ent is not None, "TAB", "Entry", "enum exists"):
        didx = [i for i, v in enumerate(ent["variants"]) if v["name"] == "Deleted"]
        for name in ("with_entry", "get_mut", "set"):
            f = getfn(ck, "sc", E, MT + name)
            if not (f and didx):
                continue
            ok = False
            for (sb, st) in f.switches():
                if ("discr",) not in f.origins(st["d"]):
                    continue
                tgt = [tb for v, tb in st["t"] if v == str(didx[0])]
                if not tgt:
                    continue
                # straight-line continuation from the Deleted arm produces None
                b = tgt[0]
                for _ in range(4):
                    for s in f.stmts(b):
                        rv = s.get("rv", {})
                        if (rv.get("k") == "agg" and rv.get("variant") == "None") or (rv.get("k") == "use" and op_const(rv["a"]) and "None" in op_const(rv["a"]).get("s", "")):
                            ok = True
                    if f.term(b)["k"] == "goto":
                        b = f.term(b)["target"]
                    else:
                        break
            ck.ob("TAB", f.path, "tombstone-reads-absent", ok, "the Deleted arm yields None", f.loc())

    iterator_step_rules(ck, c)
    nibble_carry_rules(ck, c)


def stale_handle_rules(ck, c):
    """handles of another generation are refused before any table is touched (shared by C15 and C14)"""
    # stale handles
    IS = E + "::v1::types::InstanceState::<'a, BackingStore>::"
    handle_methods = []
    for p in c.paths():
        if p.startswith(IS):
            for b in c.get_all(p):
                if any(HANDLE_TYPES.search(t) for t in b.get("inputs", [])):
                    handle_methods.append(Fn(b))
    ck.floor("DOM", "handle-taking InstanceState methods", len(handle_methods), 8)
    for f in sorted(handle_methods, key=lambda x: x.path):
        comps = []
        for cmpx in rules.comparisons(f):
            oa = f.origins(cmpx["a"], deep=True)
            ob = f.origins(cmpx["b"], deep=True)
            if (has_call_origin(oa, r"::split$") and ("field", "current_generation") in ob) or (has_call_origin(ob, r"::split$") and ("field", "current_generation") in oa):
                comps.append(cmpx)
        if not ck.ob("CMP", f.path, "generation-compared", len(comps) == 1, "%d comparisons of the handle's generation with current_generation" % len(comps), f.loc()):
            continue
        cx = comps[0]
        ck.ob("CMP", f.path, "generation-compared-for-equality", cx["op"] in ("Eq", "Ne"),
              "the handle's generation must EQUAL the current one" if cx["op"] in ("Eq", "Ne") else
              "the handle's generation is compared with `%s`: handles of an older (or newer) generation pass" % cx["op"], f.loc(cx["bb"]))
        sw = [(sb, st) for (sb, st) in f.switches() if op_place(st["d"]) and op_place(st["d"])[0] == cx["res"]]
        if not ck.ob("CMP", f.path, "generation-branched", len(sw) == 1, "the comparison is branched on", f.loc(cx["bb"])):
            continue
        sb, st = sw[0]
        f_t = [tb for v, tb in st["t"] if v == "0"][0]
        t_t = st["o"]
        eq_t, ne_t = (f_t, t_t) if cx["op"] == "Ne" else (t_t, f_t)
        users = [b for b in f.reachable() if block_fields(f, b) & {"entry_mapping", "iterators", "state_trie"}]
        bad = [b for b in users if not f.dominates(eq_t, b)]
        ck.ob("DOM", f.path, "stale-handle-refused", len(users) >= 1 and not bad,
              "%d blocks touch entry_mapping/iterators/state_trie, all only reachable when the generation matches" % len(users) if not bad
              else "block at %s uses handle tables without a generation match" % f.loc(bad[0]), f.loc(sb))
        # the mismatch branch returns the invalid encoding (u32::MAX / NEW_ERR) without other work
        stale = f.reach_from([ne_t], avoid={sb})
        calls = [b for b in stale if f.term(b)["k"] == "call" and not callee_match(f.term(b), r"FromResidual|drop")]
        ck.ob("DOM", f.path, "stale-branch-does-nothing", not calls, "the mismatch branch performs no calls before returning", f.loc(ne_t))


def iterator_step_rules(ck, c):
    """MutableTrie::next: a child is visited only if its index is below the number of children, and the position recorded
    for the way back is the NEXT child (otherwise iteration revisits the same child forever)"""
    f = getfn(ck, "sc", E, MT + "next")
    if not f:
        return
    idx = [(bi, t) for (bi, t) in f.calls(r"ops::Index::index$") if "KeyIndexPair" in (t["f"].get("self") or "")]
    ok = len(idx) == 1 and any(k == "cmp:Lt" and v is True and "children" in nn and "len" in nn for (k, nn, v) in conditions_at(f, idx[0][0]))
    ck.ob("BOUNDS", f.path, "child-index-below-number-of-children", ok, "children[next_child] is reached only under next_child < children.len()", f.loc(idx[0][0]) if idx else f.loc())
    # the iterator descends only through make_owned: that call is what copies a child list owned by an OLDER generation into
    # the current one (fresh nodes, fresh read-only entries); reading an already owned list directly hands out the older
    # generation's nodes and entry handles (stale after a delete, writable across a rollback)
    idx_all = [(bi, t) for (bi, t) in f.calls(r"ops::Index::index$") if "KeyIndexPair" in (t["f"].get("self") or "")]
    via = [(bi, t) for (bi, t) in idx_all if has_call_origin(f.origins(t["args"][0], deep=True), r"low_level::make_owned$")]
    direct = f.calls(r"ChildrenCow::<.*>::get_owned(_mut)?$|ChildrenCow::get_owned(_mut)?$")
    ck.ob("DEFUSE", f.path, "descends-only-through-make_owned", len(idx_all) >= 1 and len(via) == len(idx_all) and not direct,
          "every child taken by the iterator comes out of make_owned (migrated to the current generation)" if len(via) == len(idx_all) and not direct else
          "the iterator reads a child list without make_owned (%d of %d child reads, %d direct get_owned): children owned by an older generation are visited in place" % (len(idx_all) - len(via), len(idx_all), len(direct)),
          f.loc(direct[0][0]) if direct else f.loc())
    # exhaustion is final: when next() reports the end (Ok(None) with an empty stack) the position it leaves behind is not the
    # initial one (next_child == None means "this node has not been entered yet"). Every path from a point where next_child is
    # cleared - an assignment of None or Option::take - to the exhausted return passes an assignment of Some(..)
    def _variant_of(local):
        vs = set()
        for (b2, s2, it) in f.defs().get(local, []):
            rv = it.get("rv", {}) if s2 != "t" else {}
            if rv.get("k") == "agg" and rv.get("adt", "").endswith("Option"):
                vs.add(rv.get("variant"))
            elif rv.get("k") == "use" and op_const(rv["a"]) is not None:
                vs.add("None" if str(op_const(rv["a"]).get("s", "")).endswith("None") else "?")
            else:
                vs.add("?")
        return vs
    clears, sets_ = set(), set()
    for bi in sorted(f.reachable()):
        for st in f.stmts(bi):
            if "lhs" in st and st["lhs"][1] and re.search(r":next_child$", str(st["lhs"][1][-1])):
                pl = op_place(st["rv"].get("a")) if st["rv"].get("k") == "use" else None
                vs = _variant_of(pl[0]) if pl and not pl[1] else ({st["rv"].get("variant")} if st["rv"].get("k") == "agg" else {"?"})
                (clears if vs == {"None"} else sets_).add(bi)
    for (bi, t) in f.calls(r"Option::<T>::take$|mem::take$|mem::replace$"):
        if any(("field", "next_child") in f.origins(a) for a in t["args"]):
            clears.add(bi)
    done = set()
    for (bi, si, it) in f.defs().get(0, []):
        rv = it.get("rv", {}) if si != "t" else {}
        if rv.get("k") == "agg" and rv.get("variant") == "Ok":
            pl = op_place(rv["ops"][0])
            k0 = op_const(rv["ops"][0])
            if (k0 is not None and str(k0.get("s", "")).endswith("None")) or (pl and not pl[1] and _variant_of(pl[0]) == {"None"}):
                done.add(bi)
    # (judged within one iteration of the stepping loop: across the back edge the cleared value is what makes the next
    # iteration take the "enter this node" branch, which sets it; a path-insensitive walk through the header would not know)
    heads = set()
    for lp in natural_loops(f):
        hs = [b for b in lp if all(f.dominates(b, x) for x in lp)]
        heads |= set(hs)
    leak = sorted(d for d in done if any(d in f.reach_from(f.succ(cb), avoid=sets_ | heads) for cb in clears))
    ck.ob("DOM", f.path, "exhaustion-is-final", len(done) >= 1 and len(sets_) >= 1 and not leak,
          "%d clearing and %d setting writes of next_child; the exhausted return is reached from a clearing write only through a setting one" % (len(clears), len(sets_)) if done and not leak else
          "the exhausted return (Ok(None)) can be reached with next_child cleared and not set again: the next call starts over at the iterator's root and yields every entry a second time", f.loc(leak[0]) if leak else f.loc())
    pushes = [(bi, t) for (bi, t) in f.calls(r"Vec::<T, A>::push$") if ("field", "stack") in f.origins(t["args"][0], deep=True)]
    ok = False
    for (bi, t) in pushes:
        pl = op_place(t["args"][1])
        for (b2, si, it) in (f.defs().get(pl[0], []) if pl else []):
            if si != "t" and it["rv"].get("k") == "agg" and it["rv"].get("agg") == "tuple" and len(it["rv"]["ops"]) == 3:
                o = f.origins(it["rv"]["ops"][1], deep=True)
                ok = any(a[0] == "bin" and a[1].startswith("Add") for a in o) and ("lit", 1) in o
    ck.ob("DEFUSE", f.path, "resumes-at-next-child", len(pushes) == 1 and ok, "the position saved for the parent is next_child + 1", f.loc(pushes[0][0]) if pushes else f.loc())


def nibble_carry_rules(ck, c):
    """MutStem::extend rebuilds the iterator's key by shifting a run of bytes by one nibble. A value carried from one byte to
    the next (a local assigned inside the loop and initialised before it) must be taken from the byte as it was BEFORE this
    iteration overwrote it: a load of `*place` that follows a store to `*place` in the same iteration yields the shifted
    byte, and the nibble handed on is the wrong one (keys reported by the iterator are not the keys stored)."""
    f = getfn(ck, "sc", E, LL + "MutStem::extend")
    if not f:
        return
    n = 0
    for lp in natural_loops(f):
        stores = [(bi, si, st["lhs"][0]) for bi in sorted(lp) for si, st in enumerate(f.stmts(bi))
                  if "lhs" in st and [str(x) for x in st["lhs"][1]] == ["*"] and f.locals[st["lhs"][0]] == "&mut u8"]
        carried = sorted(l for l, ds in f.defs().items() if f.locals[l] == "u8" and any(b in lp for (b, _, _) in ds) and any(b not in lp for (b, _, _) in ds))
        for x in carried:
            n += 1
            bad, seen, work = [], set(), [x]
            while work:
                l = work.pop()
                if l in seen:
                    continue
                seen.add(l)
                for (bi, si, it) in f.defs().get(l, []):
                    if bi not in lp or si == "t":
                        continue
                    for pl in _places_of_rv(it["rv"]):
                        if [str(q) for q in pl[1]] == ["*"] and f.locals[pl[0]] == "&mut u8":
                            if any(p2 == pl[0] and ((b2 == bi and s2 < si) or (b2 != bi and f.dominates(b2, bi))) for (b2, s2, p2) in stores):
                                bad.append(bi)
                        elif not pl[1]:
                            work.append(pl[0])
            ck.ob("DEFUSE", f.path, "carried-nibble-read-before-the-byte-is-overwritten:%s" % f.names().get(x, "_%d" % x), not bad,
                  "the value handed to the next byte derives from loads that precede every store to the byte in the iteration" if not bad else
                  "the value handed to the next byte is loaded from the byte AFTER this iteration stored to it: the carried nibble is taken from the shifted byte", f.loc(bad[0]) if bad else f.loc(sorted(lp)[0]))
    ck.floor("DEFUSE", "loop-carried nibbles in MutStem::extend", n, 1)
