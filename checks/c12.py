"""C12 — encrypted amounts: structural necessary conditions on transfer generation and verification."""
from .common import *
import json
from vlib import transcript

META = dict(
    technique="static analysis: enforcement/comparison-polarity/def-use/transcript-agreement rules over compiler MIR",
    text=("Structural necessary conditions: transfers exceeding the balance are refused by an enforced comparison; the "
          "verifiers enforce the sigma proof and every range proof; each range proof uses the commitment key of the right "
          "party and the chunk bit-width; the context (global context and keys) is appended to the oracle before "
          "verification, identically on the proving and verifying side. Arithmetic of chunks, homomorphic aggregation and "
          "decryption are not decided."),
)

CB = "concordium_base"
E = CB + "::encrypted_transfers::"
G = E + "proofs::generate_proofs::"


def enctrans_sibling_rule(ck):
    # the accounting relation combines the chunk randomness / responses of BOTH amounts with powers of two: prover (commit
    # message) and verifier (extracted commit message) of EncTrans form the same number of linear combinations, and the verifier
    # walks no more sequences in lockstep than it does today (merging the two response vectors chunk-wise with zip drops the
    # surplus chunks of the longer one from the balance equation)
    cbx = crate("rs", CB)
    pe = [Fn(b) for p0 in cbx.paths() if re.search(r"enc_trans::EncTrans<C> as .*SigmaProtocol>::compute_commit_message$", p0) for b in cbx.get_all(p0)]
    ve = [Fn(b) for p0 in cbx.paths() if re.search(r"enc_trans::EncTrans<C> as .*SigmaProtocol>::extract_commit_message$", p0) for b in cbx.get_all(p0)]
    if ck.anchor(len(pe) == 1 and len(ve) == 1, "SIB", "EncTrans", "prover and verifier commit functions"):
        LC = r"linear_combination_with_powers_of_two$"
        npc, nvc = len(pe[0].calls(LC)), len(ve[0].calls(LC))
        ck.ob("SIB", ve[0].path, "linear-combinations-agree", npc == nvc and nvc >= 2,
              "prover and verifier both form %d power-of-two combinations (one per amount)" % nvc if npc == nvc and nvc >= 2 else
              "the prover forms %d power-of-two combinations, the verifier %d: the verifier does not weigh the responses of each amount on their own" % (npc, nvc), ve[0].loc())


def run(ck):
    ck.explanation = ("Decides enforcement and orientation of the balance check, enforcement of every proof verification, "
                      "the def-use binding of commitment keys to parties, the range-proof bit widths, and prover/verifier "
                      "agreement of the context transcript.")
    ck.undecided = "decrypt∘encrypt = id, homomorphic aggregation, conservation of value (chunk arithmetic), cryptographic soundness."
    ck.rules_text = "CMP/ENF/DEFUSE/SIB over MIR of encrypted_transfers"

    for name in ("gen_enc_trans", "gen_sec_to_pub_trans"):
        f = getfn(ck, "rs", CB, G + name)
        if not f:
            continue
        # `if s < a { return None }` : s is the balance (arg s), a the amount
        lts = [c for c in rules.comparisons(f) if c["op"] == "Lt" and c["kind"] == "call" and "Amount" in (c.get("self_ty") or "")]
        ok = False
        for c in lts:
            rel, d = rules.cmp_rejects(f, c)
            oa = f.origins(c["a"])
            ob = f.origins(c["b"])
            sidx = 8 if name == "gen_enc_trans" else 7
            if rel == "Lt" and ("arg", sidx) in oa and ("arg", sidx + 1) in ob:
                ok = True
        ck.ob("CMP", f.path, "balance<amount-refused", ok, "%d Amount comparisons; require: reject when s < a with s the balance argument and a the amount" % len(lts), f.loc())
        enf_calls(ck, f, r"sigma_protocols::common::prove$", "sigma prove")

    f = getfn(ck, "rs", CB, G + "verify_enc_trans")
    if f:
        enf_calls(ck, f, r"sigma_protocols::common::verify$", "sigma verify")
        sites = enf_calls(ck, f, r"range_proof::verify_efficient$", "verify_efficient", floor=2)
        ck.ob("ENF", f.path, "two-range-proofs", len(sites) == 2, "%d range proof verifications" % len(sites), f.loc())
        if len(sites) == 2:
            sites.sort(key=lambda x: x[1]["line"])
            keys = []
            for (bi, t) in sites:
                o = f.origins(t["args"][6], deep=True)
                c = f.origins(t["args"][3], deep=True, outflow=True)
                p = f.origins(t["args"][4], deep=True)
                keys.append((o, c, p))
            ck.ob("DEFUSE", f.path, "first-proof:receiver-key", ("arg", 5) in keys[0][0] and ("arg", 4) not in keys[0][0], "transfer-amount proof uses the receiver's key (arg 5)", f.loc(sites[0][0]))
            ck.ob("DEFUSE", f.path, "second-proof:sender-key", ("arg", 4) in keys[1][0] and ("arg", 5) not in keys[1][0], "remaining-amount proof uses the sender's key (arg 4)", f.loc(sites[1][0]))
            ck.ob("DEFUSE", f.path, "first-proof:transfer-amount", ("field", "transfer_amount") in keys[0][1] and ("field", "transfer_amount_correct_encryption") in keys[0][2], "commitments and proof of the transfer amount", f.loc(sites[0][0]))
            ck.ob("DEFUSE", f.path, "second-proof:remaining-amount", ("field", "remaining_amount") in keys[1][1] and ("field", "remaining_amount_correct_encryption") in keys[1][2], "commitments and proof of the remaining amount", f.loc(sites[1][0]))
            for n, (bi, t) in enumerate(sites):
                o = f.origins(t["args"][2], deep=True)
                ck.ob("CONST", f.path, "bits=CHUNK_SIZE#%d" % n, any(a[0] == "const" and a[1].endswith("CHUNK_SIZE") for a in o), "bit width derives from CHUNK_SIZE", f.loc(bi))
        v = f.calls(r"sigma_protocols::common::verify$")
        for (bi, t) in f.calls(r"generate_proofs::gen_enc_trans_proof_info$"):
            oa = [f.origins(a, deep=True) for a in t["args"]]
            ck.ob("DEFUSE", f.path, "statement-binding", ("arg", 4) in oa[0] and ("arg", 5) in oa[1] and ("arg", 6) in oa[2]
                  and ("field", "transfer_amount") in oa[3] and ("field", "remaining_amount") in oa[4],
                  "sigma statement = (pk_sender, pk_receiver, S, transfer_amount, remaining_amount)", f.loc(bi))
    f = getfn(ck, "rs", CB, G + "verify_sec_to_pub_trans")
    if f:
        enf_calls(ck, f, r"sigma_protocols::common::verify$", "sigma verify")
        sites = enf_calls(ck, f, r"range_proof::verify_efficient$", "verify_efficient")
        for (bi, t) in sites:
            o = f.origins(t["args"][6], deep=True)
            ck.ob("DEFUSE", f.path, "proof:own-key", ("arg", 4) in o, "remaining-amount proof uses the account's key", f.loc(bi))
            c = f.origins(t["args"][3], deep=True, outflow=True)
            ck.ob("DEFUSE", f.path, "proof:remaining-amount", ("field", "remaining_amount") in c, "commitments of the remaining amount", f.loc(bi))
            ob = f.origins(t["args"][2], deep=True)
            ck.ob("CONST", f.path, "bits=64/num_chunks", any(a[0] == "const" and a[1].endswith("CHUNK_SIZE") for a in ob), "bit width derives from CHUNK_SIZE", f.loc(bi))
        for (bi, t) in f.calls(r"generate_proofs::gen_enc_trans_proof_info$"):
            oa = [f.origins(a, deep=True) for a in t["args"]]
            ck.ob("DEFUSE", f.path, "statement-binding", ("arg", 4) in oa[0] and ("arg", 4) in oa[1] and ("arg", 5) in oa[2]
                  and ("field", "transfer_amount") in oa[3] and ("field", "remaining_amount") in oa[4],
                  "sigma statement = (pk, pk, S, dummy encryption of the public amount, remaining_amount)", f.loc(bi))

    # context binding and sibling agreement
    ref = {"transfer": [("domain", "EncryptedTransfer"), ("append_message", "ctx"), ("append_message", "receiver_pk"), ("append_message", "sender_pk")],
           "sec_to_pub": [("domain", "SecToPubTransfer"), ("append_message", "ctx"), ("append_message", "pk")]}
    for kind, mk, vf, inner in (("transfer", "make_transfer_data", "verify_transfer_data", "verify_enc_trans"),
                                ("sec_to_pub", "make_sec_to_pub_transfer_data", "verify_sec_to_pub_transfer_data", "verify_sec_to_pub_trans")):
        m = getfn(ck, "rs", CB, E + mk)
        v = getfn(ck, "rs", CB, E + vf)
        if not (m and v):
            continue
        sm = transcript.seq_key(transcript.sequence(m))
        sv = transcript.seq_key(transcript.sequence(v))
        ck.ob("SIB", E + kind, "context-agrees", sm == sv, "maker %s verifier %s" % (sm, sv), v.loc(), sample=dict(rule="SIB", maker=sm, verifier=sv))
        ck.ob("SIB", E + kind, "context-reference", sv == ref[kind], "context sequence equals the protocol's", v.loc())
        inner_calls = v.calls(r"generate_proofs::" + inner + "$")
        if ck.anchor(len(inner_calls) == 1, "ENF", v.path, inner + " call"):
            bi, t = inner_calls[0]
            r = rules.enforcement(v, bi)
            ck.ob("ENF", v.path, inner, rules.enforced_ok(r), r["status"] + ": " + r["detail"], v.loc(bi))
            apps = v.calls(r"random_oracle::.*append_message$")
            ck.ob("DOM", v.path, "context-before-verify", all(v.dominates(b, bi) for (b, _) in apps) and len(apps) >= 2, "context appended before verification", v.loc(bi))
            # every key/context parameter is appended
            srcs = set()
            for (_, at) in apps:
                srcs |= v.origins(at["args"][2], deep=True)
            nkeys = 3 if kind == "transfer" else 2
            ck.ob("COV", v.path, "params-in-context", all(("arg", i) in srcs for i in range(1, nkeys + 1)), "global context and all public keys are appended", v.loc())
            # the same oracle is handed to the verifier, and before_amount/transfer_data are its inputs
            oa = [v.origins(a, deep=True) for a in t["args"]]
            ck.ob("DEFUSE", v.path, "inputs", ("arg", nkeys + 1) in oa[-1] and ("arg", nkeys + 2) in oa[2], "balance before and transfer data are verified", v.loc(bi))
            if kind == "transfer":
                ck.ob("DEFUSE", v.path, "sender-receiver-order", ("arg", 3) in oa[3] and ("arg", 2) in oa[4], "verify_enc_trans receives (sender_pk, receiver_pk) in that order", v.loc(bi))

    # "any alteration of ciphertexts, keys, index or proof fails verification": every field of the transfer data is READ somewhere
    # in the verification closure (a field nothing reads can be altered freely). Field reads are place projections in MIR
    from vlib.callgraph import CallGraph as _CG
    cb0 = crate("rs", CB)
    cg0 = _CG([cb0])
    for root, ty in ((E + "verify_transfer_data", "EncryptedAmountTransferData"), (E + "verify_sec_to_pub_transfer_data", "SecToPubAmountTransferData")):
        adtn = [k for k in cb0.adts if k.endswith("encrypted_transfers::types::" + ty)]
        if not ck.anchor(len(adtn) == 1 and root in cg0.bodies, "COV", root, "verifier and %s exist" % ty):
            continue
        fields = [x["name"] for x in cb0.adts[adtn[0]]["variants"][0]["fields"]]
        used = set()
        for p0 in cg0.reach([root]):
            if not p0.startswith(CB + "::encrypted_transfers"):
                continue
            for b in cg0.bodies.get(p0, []):
                txt = json.dumps(b["blocks"])
                for fl in fields:
                    if re.search(r'"f\d+:%s"' % re.escape(fl), txt):
                        used.add(fl)
        for fl in fields:
            ck.ob("COV", root, "transfer-data-field-read:" + fl, fl in used,
                  "field `%s` of the transfer data is read during verification" % fl if fl in used else
                  "field `%s` of %s is read nowhere in the verification: altering it does not make verification fail" % (fl, ty), Fn(cg0.bodies[root][0]).loc())
    enf_module_sweep(ck, crate("rs", CB), re.compile(r"concordium_base::(encrypted_transfers|elgamal)::"), 1, "encrypted_transfers/elgamal")

    # c'. the accounting proof (EncTrans) zips each vector of chunk statements with its own vector of responses only after
    #     comparing exactly those two lengths: a truncated zip drops a chunk from the linear balance relation
    nz = extract_zip_sweep(ck, crate("rs", CB), re.compile(r"sigma_protocols::(enc_trans|com_enc_eq|elgamal_dec|com_eq|dlog)::.*SigmaProtocol>::extract_commit_message$"))
    ck.floor("CMP", "chunk statement/response zips in the accounting proof", nz, 2)
    enctrans_sibling_rule(ck)

    # c''. decrypted chunks are LIMBS that may exceed their nominal width after homomorphic aggregation (the sum of two 32-bit
    #      chunks can be 2^32): they are recombined by addition, never by bit-wise or
    for pth in [x for x in crate("rs", CB).paths() if re.search(r"encrypted_transfers::decrypt_amount$|elgamal::ChunkSize::chunks_to_u64$", x)]:
        g = Fn(crate("rs", CB).get(pth))
        o = g.origins(0, deep=True)
        bitwise = [a[1] for a in o if a[0] == "bin" and a[1] in ("BitOr", "BitXor")]
        adds = any(a[0] == "bin" and a[1].startswith("Add") for a in o) or has_call_origin(o, r"chunks_to_u64$|::checked_add$|::wrapping_add$")
        ck.ob("DEFUSE", pth, "chunks-recombined-by-addition", adds and not bitwise,
              "the result is the sum of the shifted limbs" if adds and not bitwise else
              "the limbs are combined with %s: a carry out of the low chunk (possible after aggregation) is lost or overlaps the next limb" % (bitwise or "something other than addition"), g.loc())

    # c3. aggregation is the homomorphic sum of BOTH operands on every path: every value `aggregate` (and Cipher::combine)
    #     can return derives from both of its arguments (a shortcut that returns one operand unchanged drops the other's
    #     value unless that one is the identity encryption in both components)
    for pth, want in ((CB + "::encrypted_transfers::aggregate", r"::combine$"),
                      (CB + "::elgamal::cipher::Cipher::<C>::combine", r"Curve::plus_point$")):
        g = getfn(ck, "rs", CB, pth)
        if not g:
            continue
        rets = [(bi, si, it) for (bi, si, it) in g.defs().get(0, []) if bi in g.reachable()]
        bad = []
        for (bi, si, it) in rets:
            o = set()
            if si == "t":
                for a in it["args"]:
                    o |= g.origins(a, deep=True)
            elif it["rv"].get("k") == "use":
                o = g.origins(it["rv"]["a"], deep=True)
            else:
                for x in it["rv"].get("ops", []):
                    o |= g.origins(x, deep=True)
            if not (("arg", 1) in o and ("arg", 2) in o):
                bad.append(bi)
        comb = g.calls(want)
        ck.ob("DEFUSE", pth, "result-combines-both-operands", not bad and len(rets) >= 1 and len(comb) >= 2,
              "every returned value derives from both operands through %d component-wise combinations" % len(comb) if not bad and len(comb) >= 2 else
              "a returned value does not derive from both operands (%d paths) or fewer than two component combinations are made (%d)" % (len(bad), len(comb)), g.loc(bad[0]) if bad else g.loc())

    # d. chunking constants
    c = crate("rs", CB)
    adt = c.adts.get(CB + "::encrypted_transfers::types::EncryptedAmount")
    if ck.anchor(adt is not None, "CONST", "EncryptedAmount", "type exists"):
        ty = adt["variants"][0]["fields"][0]["ty"]
        m = re.search(r";\s*(\d+)\]$", ty)
        ck.ob("CONST", "EncryptedAmount", "two-chunks", m is not None and int(m.group(1)) == 2, "encryptions: %s" % ty, "")
    f = getfn(ck, "rs", CB, CB + "::elgamal::<impl std::convert::From<concordium_base::elgamal::ChunkSize> for u8>::from")
    if f:
        vals = set()
        for bi in f.reachable():
            for s in f.stmts(bi):
                if s.get("lhs") == [0, []] and s["rv"]["k"] == "use" and op_const(s["rv"]["a"]):
                    vals.add(const_int(op_const(s["rv"]["a"])))
        ck.ob("CONST", f.path, "chunk-sizes-divide-64", vals and all(v and 64 % v == 0 for v in vals), "chunk sizes %s all divide 64" % sorted(vals), f.loc())

    narrowing_len_sweep(ck, crate("rs", "concordium_base"), re.compile(r"concordium_base::encrypted_transfers::"), re.compile(r"verify[a-z_0-9]*(::\{closure#\d+\})*$"))
    conditional_transcript_sweep(ck, crate("rs", "concordium_base"), re.compile(r"concordium_base::encrypted_transfers::"), floor=1)
    geometric_weight_sweep(ck, crate("rs", "concordium_base"), re.compile(r"concordium_base::(encrypted_transfers|elgamal|sigma_protocols::enc_trans)"), floor=2)
    gated_verification_sweep(ck, crate("rs", "concordium_base"), re.compile(r"concordium_base::encrypted_transfers::"), floor=3)
    eq_polarity_sweep(ck, crate("rs", "concordium_base"), re.compile(r"concordium_base::encrypted_transfers::"), re.compile(r"verify[a-z_0-9]*(::\{closure#\d+\})*$"))
