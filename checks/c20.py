"""C20 — group/scalar decoders are the checked canonical ones; derivations are deterministic."""
from .common import *
from vlib.callgraph import CallGraph, NONDET

META = dict(
    technique="static analysis: required/forbidden-callee, enforcement, comparison-polarity and effect-freedom rules over compiler MIR and the call graph",
    text=("Structural necessary conditions: every Deserial implementation of a group element or scalar goes through the "
          "validating canonical decoder of its library (deserialize_compressed, from_bigint, from_canonical_bytes, decompress) "
          "and rejects when it fails; no Deserial implementation in the crate calls an unchecked or reducing decoder; hash-to-group, "
          "scalar_from_bytes, BLS key generation and every hierarchical key derivation reach no randomness/clock/environment; "
          "SLIP-10 derivation refuses non-hardened indices and out-of-range seeds with correctly oriented comparisons. "
          "Multi-exponentiation and Lagrange reconstruction are arithmetic and are not decided."),
)

CB = "concordium_base"
CA = CB + "::curve_arithmetic::"
FORBIDDEN = re.compile(r"(deserialize_compressed_unchecked$|deserialize_uncompressed|deserialize_with_mode$|from_bytes_mod_order|from_(be|le)_bytes_mod_order|Validate::No|Scalar::from_bits$|(Affine|Projective)<.*>::new_unchecked$|bytes_to_curve_unchecked$)")


def run(ck):
    ck.explanation = ("Decides which library decoder each group/scalar Deserial implementation calls and that its failure "
                      "rejects; sweeps all Deserial implementations for unchecked/reducing decoders; decides effect freedom "
                      "of hashing-to-group and all key derivations over the cross-crate call graph; decides orientation of the "
                      "hardened-index and seed-length comparisons.")
    ck.undecided = "multi-exponentiation equals the naive sum; Lagrange reconstruction; distinctness of derived keys (collision resistance)."
    ck.rules_text = "CALLEE/ENF/CMP/EFF over MIR of curve_arithmetic, key_derivation, ed25519_hd_key_derivation, keygen_bls"
    c = crate("rs", CB)

    canonical_decoders(ck, c)

    # determinism
    crs = [c, crate("rs", "key_derivation"), crate("rs", "ed25519_hd_key_derivation"), crate("rs", "keygen_bls")]
    cg = CallGraph(crs)
    roots = [p for p in cg.bodies if re.search(r"curve_arithmetic::.*::(hash_to_group|scalar_from_bytes|hash_to_curve|hash_to_field|hash_bytes_to_curve_arkworks)[a-z_0-9]*$", p)]
    roots += [p for p in cg.bodies if re.match(r"key_derivation::ConcordiumHdWallet::(get_|make_)", p)]
    roots += [p for p in cg.bodies if re.match(r"key_derivation::(words_to_seed|words_to_seed_with_passphrase|bls_key_bytes_from_seed)$", p)]
    roots += [p for p in cg.bodies if re.match(r"ed25519_hd_key_derivation::(derive|derive_from_parsed_path|ckd_priv|get_master_key_from_seed|parse_path|harden|checked_harden)$", p)]
    roots += [p for p in cg.bodies if p == "keygen_bls::keygen_bls"]
    ck.floor("EFF", "deterministic derivation functions", len(roots), 22)
    for r in sorted(set(roots)):
        ch = cg.path_to_ext([r], NONDET)
        ck.ob("EFF", r, "no-nondeterminism", ch is None, "no path to RNG/clock/env" if ch is None else " -> ".join(ch), "")

    # SLIP-10 hardened indices and seed bounds
    H = "ed25519_hd_key_derivation"
    f = getfn(ck, "rs", H, H + "::ckd_priv")
    if f:
        found = rules.find_cmp(f, [("bin", "BitAnd"), ("const", "HARDENED_OFFSET"), ("arg", 2)], [("lit", 0)])
        ck.ob("CMP", f.path, "non-hardened-rejected", any(x[1] == "Eq" for x in found), "index & HARDENED_OFFSET == 0 rejects", f.loc())
    f = getfn(ck, "rs", H, H + "::checked_harden")
    if f:
        found = rules.find_cmp(f, [("bin", "BitAnd"), ("const", "HARDENED_OFFSET"), ("arg", 1)], [("lit", 0)])
        ck.ob("CMP", f.path, "already-hardened-rejected", any(x[1] == "Ne" for x in found), "index & HARDENED_OFFSET != 0 rejects", f.loc())
    f = getfn(ck, "rs", H, H + "::derive_from_parsed_path")
    if f:
        lo = rules.find_cmp(f, [("arg", 2), ("call", r"::len$")], [("lit", 16)])
        hi = rules.find_cmp(f, [("arg", 2), ("call", r"::len$")], [("lit", 64)])
        ck.ob("CMP", f.path, "seed-too-short", any(x[1] == "Lt" for x in lo), "seed.len() < 16 rejects", f.loc())
        ck.ob("CMP", f.path, "seed-too-long", any(x[1] == "Gt" for x in hi), "seed.len() > 64 rejects", f.loc())
        enf_calls(ck, f, r"ed25519_hd_key_derivation::ckd_priv$", "ckd_priv")
    f = getfn(ck, "rs", H, H + "::parse_path")
    if f:
        enf_calls(ck, f, r"Regex::is_match$", "path grammar")
        found = rules.find_cmp(f, [("call", r"str::<impl str>::parse$|::parse$")], [("lit", 2147483648)])
        ck.ob("CMP", f.path, "index-out-of-range", any(x[1] == "Ge" for x in found), "segment >= 2^31 rejects", f.loc())
    K = "key_derivation"
    for name in ("make_path", "make_verifiable_credential_path"):
        f = getfn(ck, "rs", K, K + "::ConcordiumHdWallet::" + name)
        if f:
            enf_calls(ck, f, r"ed25519_hd_key_derivation::checked_harden$", "checked_harden")
            pushes = f.calls(r"Vec::<T, A>::push$|Vec::<T>::push$")
            for n_, (bi, t) in enumerate(pushes):
                o = f.origins(t["args"][1], deep=True)
                ck.ob("DEFUSE", f.path, "pushed-index-hardened#%d" % n_, has_call_origin(o, r"checked_harden$|::harden$"), "every pushed index comes from (checked_)harden", f.loc(bi))
    # distinct paths for distinct keys (structural part): every derivation function puts all its index parameters into the
    # path, and two functions that use the same root and the same path length differ in a literal component
    kc = crate("rs", K)
    shapes = {}
    for p in sorted(kc.paths()):
        if not re.search(r"ConcordiumHdWallet::get_[a-z_]+$", p):
            continue
        f = Fn(kc.get_all(p)[0])
        mk = f.calls(r"ConcordiumHdWallet::make_(verifiable_credential_)?path$")
        if not mk:
            continue        # wrappers (public keys from secret keys) derive nothing themselves
        root = mk[0][1]["f"]["path"].split("::")[-1]
        arr = [st["rv"] for b2 in sorted(f.reachable()) for st in f.stmts(b2) if st.get("rv", {}).get("k") == "agg" and st["rv"].get("agg") == "array"]
        used = set()
        shape = None
        if arr:
            shape = []
            for x in arr[-1]["ops"]:
                k = op_const(x)
                if k is not None and const_int(k) is not None:
                    shape.append(("lit", const_int(k)))
                else:
                    ps = sorted(a[1] for a in f.origins(x, deep=True) if a[0] == "arg")
                    used |= set(ps)
                    shape.append(("par",) + tuple(ps))
        shapes[p] = (root, shape)
        params = [i for i in range(2, f.argc + 1)]
        if shape is not None:
            missing = [f.names().get(i, "arg%d" % i) for i in params if i not in used]
            ck.ob("COV", p, "every-index-parameter-in-the-path", not missing,
                  "all %d index parameters are components of the derivation path" % len(params) if not missing else
                  "parameter(s) %s do not reach the derivation path: different inputs derive the same key" % missing, f.loc(mk[0][0]))
    ck.floor("COV", "derivation functions that build a path", len(shapes), 7)
    ps_ = sorted(shapes)
    for i, a in enumerate(ps_):
        for b in ps_[i + 1:]:
            (ra, sa), (rb, sb) = shapes[a], shapes[b]
            if ra != rb or sa is None or sb is None or len(sa) != len(sb):
                continue
            differ = any(x[0] == "lit" and y[0] == "lit" and x[1] != y[1] for x, y in zip(sa, sb))
            ck.ob("CMP", a, "path-differs-from:" + b.split("::")[-1], differ,
                  "same root and length, separated by a literal component" if differ else
                  "%s and %s build paths of the same shape with no differing literal component: the two keys coincide for equal indices" % (a.split("::")[-1], b.split("::")[-1]), "")
    # the issuer's contract index/subindex reach the path through split_u64_into_chunks: it must be injective (every input
    # bit occurs exactly once in the four components) and each component must stay below 2^31 so that hardening keeps it
    f = getfn(ck, "rs", K, K + "::split_u64_into_chunks")
    if f:
        from vlib import bitprov
        v = bitprov.local(f, 0, [], 0)
        bits, unk = bitprov.input_bits(v)
        lost = sorted(set(range(64)) - set(b for (_, b) in bits))
        dup = len(bits) != len(set(bits))
        ck.ob("COV", f.path, "every-input-bit-in-exactly-one-component", v is not None and not unk and not lost and not dup,
              "all 64 bits of the index occur exactly once in the path components" if v is not None and not unk and not lost and not dup else
              ("bit(s) %s of the index reach no path component: distinct issuers derive the same key" % lost if lost else
               "the packing could not be followed bit by bit (unknown parts: %s, duplicated bits: %s)" % (unk, dup)), f.loc())
        small = isinstance(v, tuple) and all(isinstance(e, list) and all(b == 0 for b in e[31:32]) for e in v[1])
        ck.ob("CMP", f.path, "components-below-2^31", small, "bit 31 of every component is zero (checked_harden never refuses them)" if small else "a component can reach 2^31", f.loc())
    # windowed multi-exponentiation recodes scalars with exact machine arithmetic: carries propagate, nothing saturates (the
    # equality multiexp = sum of scalar multiples itself is value-level and not decided here)
    cb_ = crate("rs", CB)
    nme = 0
    for p0 in sorted(cb_.paths()):
        if not re.search(r"curve_arithmetic::GenericMultiExp<.*> as .*MultiExp>::(multiexp|new)$|curve_arithmetic::GenericMultiExp::<.*>::new$|curve_arithmetic::multiexp[a-z_]*$", p0) or re.search(r"::tests?::", p0):
            continue
        for b in cb_.get_all(p0):
            f = Fn(b)
            nme += 1
            sat = f.calls(r"::saturating_[a-z_]+$|::clamp$")
            ck.ob("CALLEE", p0, "digit-recoding-without-saturating-arithmetic", not sat,
                  "no saturating/clamping integer operation" if not sat else "%s in the scalar recoding: at the saturation point a carry is lost and the result is off by a multiple of the base" % sat[0][1]["f"]["name"], f.loc(sat[0][0]) if sat else f.loc(), nontrivial=False)
    ck.floor("CALLEE", "multi-exponentiation functions", nme, 2)
    # reconstruction interpolates over ALL the shares it is given, at their own x-coordinates: nothing is filtered, skipped or
    # truncated between the argument and the Lagrange sum (dropping a share that happens to be zero changes the node set and with
    # it every coefficient)
    nrev = 0
    for p0 in sorted(cb_.paths()):
        if not re.search(r"id::secret_sharing::(reveal|reveal_in_group)$", p0):
            continue
        for b in cb_.get_all(p0):
            f = Fn(b)
            nrev += 1
            cut = f.calls(r"Iterator::(filter|filter_map|take|skip|take_while|skip_while|step_by)$|::retain$|::truncate$|::dedup[a-z_]*$")
            lag = f.calls(r"Iterator::fold$|Iterator::sum$|Iterator::map$")
            ck.ob("COV", p0, "all-shares-interpolated", not cut and len(lag) >= 1,
                  "every given share takes part in the interpolation" if not cut else
                  "%s is applied to the shares before interpolating: the Lagrange coefficients are computed for a different node set" % cut[0][1]["f"]["name"], f.loc(cut[0][0]) if cut else f.loc(), nontrivial=False)
    ck.floor("COV", "reconstruction functions", nrev, 2)
    # threshold sharing: the polynomial has degree EXACTLY threshold - 1, i.e. its highest coefficient is sampled non-zero
    # (with a zero leading coefficient fewer than threshold shares already determine the secret)
    f = getfn(ck, "rs", CB, CB + "::id::secret_sharing::share")
    if f:
        nz = f.calls(r"generate_non_zero[a-z_]*$")
        pushed = [bi for (bi, t) in f.calls(r"Vec::<T, A>::push$|Vec::<T>::push$") if has_call_origin(f.origins(t["args"][1], deep=True), r"generate_non_zero[a-z_]*$")]
        ck.ob("CALLEE", f.path, "leading-coefficient-non-zero", len(nz) >= 1 and len(pushed) >= 1,
              "the highest coefficient comes from generate_non_zero" if nz and pushed else
              "no coefficient of the sharing polynomial is sampled with generate_non_zero: the degree can drop below threshold - 1", f.loc())
    f = getfn(ck, "rs", "keygen_bls", "keygen_bls::keygen_bls")
    if f:
        enf_calls(ck, f, r"Hkdf::<H, I>::expand$|::expand$", "hkdf expand")


def canonical_decoders(ck, c):
    """group elements and scalars are decoded with the validating canonical decoders, failures reject, and no Deserial
    implementation of the crate calls an unchecked or reducing constructor"""
    def deserial_impl(self_pat):
        res = []
        for p in c.paths():
            if p.endswith("::deserial") and "common::serialize::Deserial" in p:
                for b in c.get_all(p):
                    if re.search(self_pat, b.get("impl_self", "")):
                        res.append(Fn(b))
        return res

    table = [
        (r"^concordium_base::curve_arithmetic::arkworks_instances::ArkGroup<G>$", r"CanonicalDeserialize::deserialize_compressed$", "ArkGroup"),
        (r"^ark_ff::Fp<ark_ff::MontBackend<ark_bls12_381::FrConfig, 4>, 4>$", r"PrimeField::from_bigint$", "Fr"),
        (r"^curve25519_dalek::Scalar$", r"Scalar::from_canonical_bytes$", "ed25519 Scalar"),
        (r"^curve25519_dalek::RistrettoPoint$", r"CompressedRistretto::decompress$", "RistrettoPoint"),
    ]
    for self_pat, callee, what in table:
        fs = deserial_impl(self_pat)
        if not ck.anchor(len(fs) == 1, "CALLEE", what, "Deserial impl (%d found)" % len(fs)):
            continue
        f = fs[0]
        sites = f.calls(callee)
        ck.ob("CALLEE", f.path, "uses:" + what, len(sites) == 1, "%d calls of the validating decoder %s" % (len(sites), callee), f.loc())
        for (bi, t) in sites:
            r = rules.enforcement(f, bi)
            if r["status"] == "untyped":
                # CtOption -> Option via Into, then ok_or: follow by def-use
                o = f.origins(0, deep=True)
                ok = has_call_origin(o, callee) and has_call_origin(o, r"Option::<T>::ok_or$")
                ck.ob("ENF", f.path, "failure-rejects:" + what, ok, "result converted to Option and returned through ok_or (None becomes Err)", f.loc(bi))
            else:
                ck.ob("ENF", f.path, "failure-rejects:" + what, rules.enforced_ok(r), r["status"] + ": " + r["detail"], f.loc(bi))
        # the decoded value is what is returned
        o = f.origins(0, deep=True)
        ck.ob("RET", f.path, "returns-decoded:" + what, has_call_origin(o, callee), "the returned value derives from the validating decoder", f.loc())
    for nm, callee in ((CA + "arkworks_instances::<impl concordium_base::curve_arithmetic::PrimeField for concordium_base::curve_arithmetic::arkworks_instances::ArkField<F>>::from_repr", r"PrimeField::from_bigint$"),
                       (CA + "ed25519_instance::<impl concordium_base::curve_arithmetic::PrimeField for concordium_base::curve_arithmetic::field_adapters::FFField<curve25519_dalek::Scalar>>::from_repr", r"Scalar::from_canonical_bytes$")):
        cands = [p for p in c.paths() if p.endswith("::from_repr") and ("ArkField<F>" in p if "arkworks" in nm else "Scalar" in p) and "PrimeField" in p]
        if ck.anchor(len(cands) >= 1, "CALLEE", nm.split("::")[2], "from_repr impl"):
            f = Fn(c.get_all(cands[0])[0])
            ck.ob("CALLEE", f.path, "from_repr-canonical", len(f.calls(callee)) == 1, "from_repr goes through %s" % callee, f.loc())
            ck.ob("CALLEE", f.path, "from_repr-no-reduction", not f.calls(FORBIDDEN), "no reducing/unchecked constructor", f.loc())

    # forbidden callees in every Deserial implementation of the crate
    n = 0
    for p in sorted(c.paths()):
        if not (p.endswith("::deserial") and "common::serialize::Deserial" in p):
            continue
        for b in c.get_all(p):
            f = Fn(b)
            n += 1
            bad = f.calls(FORBIDDEN)
            if bad:
                for (bi, t) in bad:
                    ck.ob("CALLEE", f.path, "forbidden:" + t["f"]["name"], False, "Deserial implementation calls %s" % t["f"]["path"], f.loc(bi))
    ck.ob("CALLEE", "-", "deserial-sweep", True, "%d Deserial implementations scanned for unchecked/reducing decoders" % n, "", nontrivial=False)
    ck.floor("CALLEE", "Deserial implementations", n, 326)
