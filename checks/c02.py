"""C02 — energy metering (structural part)."""
import json, os
from .common import *
from vlib import sym, consteval
from vlib.callgraph import CallGraph

META = dict(
    technique="static analysis: dominance/ordering rules on the metering transformation, symbolic evaluation of the cost schedule against a frozen protocol table, enforcement of charge results over compiler MIR",
    text=("Structural necessary conditions: the transformation adds the scheduled cost of every instruction before dispatching on it; "
          "each control-transfer instruction (loop, if, else, end, return, unreachable, br, br_if, br_table, call, call_indirect) has "
          "its own arm in which the accumulated charge is flushed before the instruction is emitted; memory growth is preceded by the "
          "memory-accounting call; the taken branch of br_if is charged in both arities; calls are re-indexed by exactly the number of "
          "injected imports; the cost of every opcode under both schedules and the cost functions, evaluated symbolically, equal the "
          "frozen protocol schedule, and every control transfer costs at least 1; out-of-energy results are propagated by the "
          "interpreter and the hosts, and the energy counter rejects exactly when the balance is smaller than the charge. The exact sum "
          "along every path, the linear step bound and budget monotonicity are NOT decided."),
)

W = "concordium_wasm"
E = "concordium_smart_contract_engine"
M = W + "::metering_transformation::"
SPEC = os.path.join(os.path.dirname(os.path.dirname(os.path.abspath(__file__))), "spec", "cost_schedule.json")
CONTROL = ["Loop", "If", "Else", "End", "Return", "Unreachable", "Br", "BrIf", "BrTable", "Call", "CallIndirect"]
MUST_COST = ["Br", "BrIf", "BrTable", "Call", "CallIndirect", "Return"]
COST_FNS = ["invoke_after", "branch", "br_table", "invoke_before", "call_indirect"]


def opcode_switch(f, c, argn=1, minarms=8):
    for (sb, st) in f.switches():
        o = f.origins(st["d"])
        if ("discr",) in o and len(st["t"]) >= minarms:
            if ("arg", argn) in o or has_call_origin(o, r"Iterator::next$"):
                return sb, st
    return None


def cost_table(c, cgb, ver):
    f = Fn(c.get(M + ver + "::get_cost"))
    names = [v["name"] for v in c.adts[W + "::types::OpCode"]["variants"]]
    sw = opcode_switch(f, c, 1, 50)
    if sw is None:
        return None, None
    tab = {}
    for v, tb in sw[1]["t"]:
        region = sym.dominated(f, tb)
        val = None
        for b in sorted(region):
            for s in f.stmts(b):
                if "lhs" in s and not s["lhs"][1] and val is None and f.names().get(s["lhs"][0]) == "res":
                    fm = consteval._def_form(cgb, f, b, 0, s, 0, set())
                    if fm is not None:
                        val = consteval.fmt(fm)
            t = f.term(b)
            if t["k"] == "call" and val is None and f.names().get(t["dest"][0]) == "res":
                callee = t["f"].get("res", t["f"]["path"])
                # the arguments matter too (which label a branch cost is computed from): summarise their sources
                srcs = set()
                for a in t["args"]:
                    for at in f.origins(a, deep=True):
                        if at[0] in ("call", "callres") and not re.search(r"Try::branch|from_residual|ok_or|deref|anyhow|Context", at[1]):
                            srcs.add(at[1].split("::")[-1])
                        elif at[0] == "field":
                            srcs.add("." + at[1])
                # control dependence: an argument chosen by a branch depends on what the branch tests
                from vlib.mir import path_conditions
                for a in t["args"]:
                    pl = op_place(a)
                    if pl is None:
                        continue
                    r = rules.root_local(f, a)
                    ds = f.defs().get(r[0], []) if r else []
                    if len(ds) > 1:
                        for (db, si, it) in ds:
                            for (sb2, v2) in path_conditions(f, db):
                                if sb2 in region:
                                    for at in f.origins(f.term(sb2)["d"], deep=True):
                                        if at[0] in ("call", "callres") and not re.search(r"Try::branch|from_residual|ok_or|deref|anyhow|Context|PartialEq", at[1]):
                                            srcs.add("if:" + at[1].split("::")[-1])
                val = "call:" + callee.split("::")[-1] + ("{" + ",".join(sorted(srcs)) + "}" if srcs else "")
        tab[names[int(v)]] = val
    wildcard = f.term(sw[1]["o"])["k"] != "unreachable"
    fns = {}
    for fn in COST_FNS:
        p = M + ver + "::" + fn
        fns[fn] = consteval.fmt(consteval.return_form(cgb, p)) if p in cgb else None
    return dict(opcodes=tab, functions=fns), wildcard


def min_cost(entry, fns):
    """lower bound of a cost entry over non-negative arguments"""
    if entry is None:
        return None
    if entry.startswith("call:"):
        e = fns.get(entry[5:].split("{")[0])
        if e is None:
            return None
        entry = e
    # all cost expressions are monotone in their non-negative arguments: the minimum is the value at 0
    ex = re.sub(r"\[[^\]]*\]", "", entry)
    ex = re.sub(r"\bp\d+\b", "0", ex)
    ex = re.sub(r"(\d+)\*0", "0", ex)
    if not re.match(r"^[0-9A-Za-z(),+ ]*$", ex):
        return None
    env = {"Add": lambda a, b: a + b, "Mul": lambda a, b: a * b, "Div": lambda a, b: a // b if b else 0, "Sub": lambda a, b: a - b,
           "__builtins__": {}}
    try:
        return int(eval(ex, env))
    except Exception:
        return None


def run(ck):
    ck.explanation = ("Decides ordering/dominance facts of the metering transformation, the evaluated cost schedule against the frozen "
                      "protocol table with positivity of control transfers, and propagation/orientation of energy charging.")
    ck.undecided = ("the charged total equals the schedule summed over executed instructions on every path; the linear bound on interpreter "
                    "steps; a larger budget changes only the remaining energy (these follow from the decided facts by an argument that is "
                    "not machine-checked here).")
    ck.rules_text = "DOM/TAB/CONST(frozen)/ERR/CMP over MIR of metering_transformation, machine and the hosts"
    c = crate("sc", W)
    e = crate("sc", E)
    cg = CallGraph([c])
    names = [v["name"] for v in c.adts[W + "::types::OpCode"]["variants"]]

    # a/b/c/d: the transformer
    f = getfn(ck, "sc", W, M + "InstrSeqTransformer::<'b, CostConfig, C>::run")
    if f:
        gc = f.calls(r"CostConfiguration::get_cost$")
        ae = f.calls(r"InstrSeqTransformer::<'b, CostConfig, C>::add_energy$")
        sw = opcode_switch(f, c, 2, 8)
        if ck.anchor(len(gc) == 1 and len(ae) == 1 and sw is not None, "DOM", f.path, "get_cost, add_energy and the opcode dispatch"):
            enf = rules.enforcement(f, gc[0][0])
            ck.ob("ERR", f.path, "get_cost-propagated", rules.enforced_ok(enf), enf["status"] + ": " + enf["detail"], f.loc(gc[0][0]))
            o = f.origins(ae[0][1]["args"][1], deep=True)
            ck.ob("DOM", f.path, "cost-added-before-dispatch", has_call_origin(o, r"get_cost$") and f.dominates(ae[0][0], sw[0]) and f.dominates(gc[0][0], ae[0][0]),
                  "add_energy(get_cost(instr)) dominates the dispatch on the instruction", f.loc(ae[0][0]))
            same_instr = f.origins(gc[0][1]["args"][1]) & f.origins(sw[1]["d"])
            ck.ob("DEFUSE", f.path, "cost-of-dispatched-instruction", bool(same_instr), "the costed instruction is the dispatched one", f.loc(gc[0][0]))
            arms = {names[int(v)]: tb for v, tb in sw[1]["t"]}
            dflt = sw[1]["o"]
            for op in CONTROL:
                tb = arms.get(op)
                if not ck.ob("TAB", f.path, "own-arm:" + op, tb is not None and tb != dflt, "control instruction %s has its own arm (does not fall into the pending default)" % op, f.loc(sw[0])):
                    continue
                region = sym.dominated(f, tb)
                flush = [(bi, t) for (bi, t) in f.calls(r"account_energy_push_pending$|add_instr_account_energy$") if bi in region]
                emits = [(bi, t) for (bi, t) in f.calls(r"InstrSeqTransformer::<'b, CostConfig, C>::add_to_new$") if bi in region]
                pend = [(bi, t) for (bi, t) in f.calls(r"add_to_pending$") if bi in region]
                ok = len(flush) >= 1 and all(any(f.dominates(fb, eb) for (fb, _) in flush) for (eb, _) in emits) and not pend
                ck.ob("DOM", f.path, "flush-before-emit:" + op, ok, "%d flushes dominate %d emissions; nothing is deferred" % (len(flush), len(emits)), f.loc(tb))
                for (fb, t) in flush:
                    enf = rules.enforcement(f, fb)
                    ck.ob("ERR", f.path, "flush-propagated:%s@bb%d" % (op, fb), rules.enforced_ok(enf), enf["status"], f.loc(fb), nontrivial=False)
            # memory grow
            tb = arms.get("MemoryGrow")
            if ck.ob("TAB", f.path, "own-arm:MemoryGrow", tb is not None and tb != dflt, "memory.grow has its own arm", f.loc(sw[0])):
                region = sym.dominated(f, tb)
                pend = [(bi, t) for (bi, t) in f.calls(r"add_to_pending$") if bi in region]
                ok = len(pend) == 2
                if ok:
                    first, second = (pend[0], pend[1]) if f.dominates(pend[0][0], pend[1][0]) else (pend[1], pend[0])
                    o1 = f.origins(first[1]["args"][1], deep=True)
                    o2 = f.origins(second[1]["args"][1], deep=True)
                    ok = any(a[0] == "const" and a[1].endswith("FN_IDX_MEMORY_ALLOC") for a in o1) and any(a[0] == "agg" and a[1].endswith("OpCode::Call") for a in o1) \
                        and not any(a[0] == "const" and a[1].endswith("FN_IDX_MEMORY_ALLOC") for a in o2)
                ck.ob("DOM", f.path, "memory-accounting-call-first", ok, "Call(FN_IDX_MEMORY_ALLOC) is queued before memory.grow", f.loc(tb))
            # br_if
            tb = arms.get("BrIf")
            if tb is not None:
                region = sym.dominated(f, tb)
                acc = [(bi, t) for (bi, t) in f.calls(r"InstrSeqTransformer::<'b, CostConfig, C>::account_energy$") if bi in region]
                okb = len(acc) == 2 and all(has_call_origin(f.origins(t["args"][1], deep=True), r"CostConfiguration::branch$") for (_, t) in acc)
                ck.ob("DOM", f.path, "br_if-taken-branch-charged", okb, "both arities charge config.branch(arity) inside the generated if", f.loc(tb))
                emits = [(bi, t) for (bi, t) in f.calls(r"add_to_new$") if bi in region]
                ck.ob("DOM", f.path, "br_if-charge-inside-if", okb and all(any(f.dominates(eb, ab) and eb != ab for (eb, _) in emits) for (ab, _) in acc),
                      "each branch charge follows the emission of the opening if", f.loc(tb))
            # call re-indexing
            tb = arms.get("Call")
            if tb is not None:
                region = sym.dominated(f, tb)
                calls = [(bi, t) for (bi, t) in f.calls(r"add_instr_account_energy$") if bi in region]
                ok = bool(calls) and all(any(a[0] == "const" and a[1].endswith("NUM_ADDED_FUNCTIONS") for a in f.origins(t["args"][1], deep=True)) for (_, t) in calls)
                ck.ob("DEFUSE", f.path, "call-reindexed-by-NUM_ADDED_FUNCTIONS", ok, "Call(idx + NUM_ADDED_FUNCTIONS)", f.loc(tb))
        # trailing flush: what is still pending when the sequence ends must be charged and emitted; the only way to a
        # successful return around the flush is the edge on which nothing is pending
        fl = [(bi, t) for (bi, t) in f.calls(r"account_energy_push_pending$|add_instr_account_energy$")]
        empties = set()
        for (sb, st) in f.switches():
            o = f.origins(st["d"])
            if any(a[0] == "call" and a[1].endswith("::is_empty") for a in o) and ("field", "pending_instructions") in f.origins(st["d"], deep=True):
                neg = sum(1 for a in o if a[0] == "un" and a[1] == "Not") % 2 == 1
                f_t = [tb for v, tb in st["t"] if v == "0"]
                if f_t:
                    # edge taken when is_empty() is true
                    empties.add((sb, f_t[0] if neg else st["o"]))
        acc, _ = f.accept_points()
        # a successful return of run() is reached from the main loop's exit; only paths that do not pass a flush count
        flush_bbs = set(b for (b, _) in fl)
        loop_heads = [bi for (bi, t) in f.calls(r"Iterator::next$") if bi in f.reach_from(f.succ(bi))]
        seen, work = set(), list(loop_heads) or [0]
        while work:
            x = work.pop()
            if x in seen or x in flush_bbs:
                continue
            seen.add(x)
            for y in f.succ(x):
                if (x, y) not in empties:
                    work.append(y)
        leak = sorted(set(acc) & seen)
        ck.ob("DOM", f.path, "trailing-instructions-flushed", bool(fl) and not leak,
              "from the instruction loop every successful return passes a flush of the pending instructions unless none are pending" if not leak else
              "a successful return (bb%s) is reachable from the instruction loop without flushing the pending instructions and their charge" % leak, f.loc())
    g = getfn(ck, "sc", W, M + "InstrSeqTransformer::<'b, CostConfig, C>::add_instr_account_energy")
    if g:
        fl = g.calls(r"account_energy_push_pending$")
        em = g.calls(r"add_to_new$")
        ck.ob("DOM", g.path, "flush-before-emit", len(fl) == 1 and len(em) == 1 and g.dominates(fl[0][0], em[0][0]), "the flush precedes the emission", g.loc())
        if fl:
            enf = rules.enforcement(g, fl[0][0])
            ck.ob("ERR", g.path, "flush-propagated", rules.enforced_ok(enf), enf["status"], g.loc(fl[0][0]))
    g = getfn(ck, "sc", W, M + "InstrSeqTransformer::<'b, CostConfig, C>::account_energy_push_pending")
    if g:
        ac = g.calls(r"InstrSeqTransformer::<'b, CostConfig, C>::account_energy$")
        ap = g.calls(r"Vec::<T, A>::append$")
        ok = len(ac) == 1 and ("field", "energy") in g.origins(ac[0][1]["args"][1])
        ck.ob("DEFUSE", g.path, "charges-accumulated-energy", ok, "account_energy(self.energy)", g.loc())
        okg, d = rules.guarded_site(g, ac[0][0], [("field", "energy")], [("lit", 0)], "Le") if ac else (False, "")
        if not okg and ac:
            # energy is unsigned: `energy != 0` says the same as `energy > 0`
            cds = conditions_at(g, ac[0][0])
            if any((k2 == "cmp:Ne" and v is True or k2 == "cmp:Eq" and v is False) and "energy" in nn and "lit0" in nn for (k2, nn, v) in cds):
                okg, d = True, "the charge is reached exactly when energy != 0 (unsigned: the same as > 0)"
        ck.ob("CMP", g.path, "skip-only-zero-charge", okg, d or "the charge is skipped only when the accumulated energy is 0", g.loc())
        # must-pass-through: every accepting return is reached either through the charge or through the edge taken when the
        # accumulated energy is not positive (no other way around the charge, e.g. "nothing pending")
        zero_edges = set()
        for cx in rules.comparisons(g):
            oa, ob = g.origins(cx["a"]), g.origins(cx["b"])
            br = rules.cmp_branches(g, cx)
            if br is None:
                continue
            sb, tt, ft = br
            if ("field", "energy") in oa and ("lit", 0) in ob:
                if cx["op"] in ("Gt", "Ne"):
                    zero_edges.add((sb, ft))
                elif cx["op"] in ("Eq", "Le"):
                    zero_edges.add((sb, tt))
            if ("field", "energy") in ob and ("lit", 0) in oa and cx["op"] in ("Lt", "Ne"):
                zero_edges.add((sb, ft))
        acc, _rej = g.accept_points()
        charge_bbs = set(b for (b, _) in ac)
        seen, work = set(), [0]
        while work:
            x = work.pop()
            if x in seen or x in charge_bbs:
                continue
            seen.add(x)
            for y in g.succ(x):
                if (x, y) not in zero_edges:
                    work.append(y)
        leak = sorted(set(acc) & seen)
        ck.ob("DOM", g.path, "no-way-around-the-charge", bool(ac) and bool(zero_edges) and not leak,
              "every successful return passes the TickEnergy emission unless the accumulated energy is zero" if not leak else
              "a successful return (bb%s) is reachable without emitting the accumulated charge and without the energy being zero" % leak, g.loc())
        resets = [bi for bi in g.reachable() for s in g.stmts(bi) if "lhs" in s and any(p.endswith(":energy") for p in s["lhs"][1]) and s["rv"]["k"] == "use" and const_int(op_const(s["rv"]["a"]) or {}) == 0]
        ck.ob("DOM", g.path, "reset-after-charge", bool(resets) and bool(ac) and all(g.dominates(ac[0][0], r) for r in resets), "energy := 0 only after the charge was emitted", g.loc())
        ck.ob("DOM", g.path, "pending-moved", len(ap) == 1 and ("field", "pending_instructions") in g.origins(ap[0][1]["args"][1], deep=True) and ("field", "new_seq") in g.origins(ap[0][1]["args"][0], deep=True),
              "pending instructions are appended to the output after the charge", g.loc())
        if ac and ap:
            ck.ob("DOM", g.path, "charge-before-pending", all(b not in g.reach_from([ap[0][0]]) or True for (b, _) in ac) and not g.dominates(ap[0][0], ac[0][0]), "the TickEnergy is emitted before the pending instructions", g.loc())
    g = getfn(ck, "sc", W, M + "InstrSeqTransformer::<'b, CostConfig, C>::account_energy")
    if g:
        pu = g.calls(r"Vec::<T, A>::push$")
        ok = len(pu) == 1 and any(a[0] == "agg" and a[1].endswith("OpCode::TickEnergy") for a in g.origins(pu[0][1]["args"][1], deep=True)) and ("arg", 2) in g.origins(pu[0][1]["args"][1], deep=True)
        ck.ob("DEFUSE", g.path, "emits-TickEnergy(e)", ok, "pushes TickEnergy(e) for the given amount", g.loc())
        enf_calls(ck, g, r"TryInto::try_into$|TryFrom::try_from$", "u32 conversion", floor=1)

    # e. the schedule
    ref = json.load(open(SPEC)) if os.path.exists(SPEC) else {}
    for ver in ("cost_v0", "cost_v1"):
        tab, wildcard = cost_table(c, cg.bodies, ver)
        if not ck.anchor(tab is not None, "CONST", M + ver + "::get_cost", "opcode dispatch"):
            continue
        ck.ob("TAB", M + ver + "::get_cost", "every-opcode-costed", len(tab["opcodes"]) == len(names) and not wildcard and all(v is not None for v in tab["opcodes"].values()),
              "%d opcodes each have an explicit, evaluable cost (no default arm)" % len(tab["opcodes"]), "")
        fr = ref.get(ver, {})
        changed = [(k, fr["opcodes"][k], tab["opcodes"].get(k)) for k in fr.get("opcodes", {}) if tab["opcodes"].get(k) != fr["opcodes"][k]]
        ck.ob("CONST", M + ver + "::get_cost", "schedule-equals-protocol", bool(fr) and not changed, "%d opcode costs equal the frozen protocol schedule" % len(fr.get("opcodes", {})) if not changed else "changed: %s" % changed[:5], "",
              sample=dict(rule="CONST", schedule=ver, sample={k: tab["opcodes"][k] for k in ("I32Add", "Br", "Call", "I64Store", "MemoryGrow") if k in tab["opcodes"]}))
        changedf = [(k, fr["functions"][k], tab["functions"].get(k)) for k in fr.get("functions", {}) if tab["functions"].get(k) != fr["functions"][k]]
        ck.ob("CONST", M + ver, "cost-functions-equal-protocol", bool(fr) and not changedf, "cost functions %s" % tab["functions"] if not changedf else "changed: %s" % changedf, "")
        for op in MUST_COST:
            mc = min_cost(tab["opcodes"].get(op), tab["functions"])
            ck.ob("CONST", M + ver + "::get_cost", "positive:" + op, mc is not None and mc >= 1, "cost of %s is at least %s (a zero cost would make a loop free)" % (op, mc), "")

    # f. out of energy stops execution
    rc = getfn(ck, "sc", W, W + "::machine::<impl concordium_wasm::artifact::Artifact<I, R>>::run_config")
    if rc:
        for pat, what, fl in ((r"machine::Host::tick_energy$", "tick_energy", 1), (r"machine::Host::track_call$", "track_call", 2), (r"machine::Host::call$", "host.call", 2)):
            enf_calls(ck, rc, pat, what, floor=fl, rule="ERR")
    rn = getfn(ck, "sc", W, W + "::machine::<impl concordium_wasm::artifact::Artifact<I, R>>::run")
    if rn:
        enf_calls(ck, rn, r"machine::Host::tick_initial_memory$", "tick_initial_memory", rule="ERR")
    te = getfn(ck, "sc", E, E + "::InterpreterEnergy::tick_energy")
    if te:
        found = rules.find_cmp(te, [("field", "energy")], [("arg", 2)])
        ck.ob("CMP", te.path, "rejects-iff-energy<amount", any(x[1] == "Lt" for x in found), "rejects exactly when energy < amount", te.loc())
        bad = te.calls(r"(saturating|wrapping)_sub$")
        ck.ob("CALLEE", te.path, "no-saturating-subtraction", not bad, "the accepted path subtracts exactly", te.loc())
    cm = getfn(ck, "sc", E, E + "::InterpreterEnergy::charge_memory_alloc")
    if cm:
        enf_calls(ck, cm, r"InterpreterEnergy::tick_energy$", "tick_energy", rule="ERR")
        o = cm.origins(cm.calls(r"tick_energy$")[0][1]["args"][1], deep=True)
        ck.ob("DEFUSE", cm.path, "pages*factor", ("arg", 2) in o and any(a[0] == "const" and a[1].endswith("MEMORY_COST_FACTOR") for a in o), "charge = num_pages * MEMORY_COST_FACTOR", cm.loc())
    nh = 0
    for p in sorted(e.paths()):
        if re.search(r"as concordium_wasm::machine::Host<.*>>::tick_energy$", p) and "::utils::" not in p:  # utils::{TestHost,TrapHost} are off-chain test hosts
            for b in e.get_all(p):
                hf = Fn(b)
                nh += 1
                sites = hf.calls(r"InterpreterEnergy::tick_energy$")
                ok = len(sites) == 1 and rules.enforced_ok(rules.enforcement(hf, sites[0][0]))
                ck.ob("ERR", p, "returns-counter-verdict", ok, "Host::tick_energy returns the result of InterpreterEnergy::tick_energy", hf.loc())
    ck.floor("ERR", "Host::tick_energy implementations", nh, 4)
    # inject_metering: the number of added imports
    k = c.consts.get(M + "NUM_ADDED_FUNCTIONS")
    ck.ob("CONST", M + "NUM_ADDED_FUNCTIONS", "value", k is not None and k.get("v") == "1", "NUM_ADDED_FUNCTIONS = %s" % (k.get("v") if k else None), "")

    # the function-entry charge is computed from the number of declared locals = num_locals - number of parameters (the
    # length of the `locals` list counts run-length GROUPS of locals, not locals)
    f = getfn(ck, "sc", W, M + "inject_accounting")
    if f:
        sites = f.calls(r"CostConfiguration::invoke_after$|::invoke_after$")
        ck.ob("DEFUSE", f.path, "sites:invoke_after", len(sites) == 1, "%d entry charges" % len(sites), f.loc(), nontrivial=False)
        for (bi, t) in sites:
            o = f.origins(t["args"][-1], deep=True)
            ok = ("field", "num_locals") in o and ("field", "parameters") in o and has_call_origin(o, r"::checked_sub$") and ("field", "locals") not in o
            ck.ob("DEFUSE", f.path, "entry-charge-counts-declared-locals", ok,
                  "invoke_after(num_locals - number of parameters)" if ok else
                  "the entry charge is not computed from num_locals - parameters (sources: %s): locals declared in groups are undercharged" % sorted(set(a[1] for a in o if a[0] == "field")), f.loc(bi))
    # energy amounts are formed at 64 bits: the run-time charges (InterpreterEnergy and the constants::*_cost formulas) multiply
    # and add u64 values only. A product formed at 32 bits and widened afterwards wraps for large requests (memory.grow of
    # 2^26 pages would cost 4 instead of 4 * 10^9) or panics in builds with overflow checks
    eng = crate("sc", E)
    nar_, nsites = [], 0
    for p0 in sorted(eng.paths()):
        if not re.search(r"::InterpreterEnergy::[a-z_]+$|::constants::[a-z0-9_]+_cost$", p0):
            continue
        for b in eng.get_all(p0):
            g = Fn(b)
            for bi in sorted(g.reachable()):
                for st in g.stmts(bi):
                    rv = st.get("rv", {})
                    if rv.get("k") != "bin" or not re.match(r"^(Mul|Add|Shl)", rv["op"]):
                        continue
                    nsites += 1
                    for x in (rv["a"], rv["b"]):
                        k = op_const(x)
                        pl = op_place(x)
                        ty = k.get("ty") if k is not None else (g.locals[pl[0]] if pl and not pl[1] else None)
                        if ty is not None and ty != "u64":
                            nar_.append((p0, rv["op"], ty, g.loc(bi)))
    ck.ob("CONST", E + "::constants / InterpreterEnergy", "energy-arithmetic-at-64-bits", not nar_,
          "%d additions/multiplications in the run-time charge formulas, all on u64 operands" % nsites if not nar_ else
          "%s in %s is formed on %s operands and widened afterwards: the charge wraps (or the host panics) for large arguments" % (nar_[0][1], nar_[0][0].split("::")[-1], nar_[0][2]), nar_[0][3] if nar_ else "")
    ck.floor("CONST", "arithmetic sites in run-time charge formulas", nsites, 40)
    # call costs are looked up in the ORIGINAL index space: the per-function transformation runs before the import and type
    # lists are extended by the metering imports (afterwards every function index is shifted by NUM_ADDED_FUNCTIONS, and a
    # lookup with the unshifted index prices `call k` with the signature of function k - 1)
    f = getfn(ck, "sc", W, M + "<impl concordium_wasm::types::Module>::inject_metering")
    if f:
        calls_ = f.calls(r"metering_transformation::inject_accounting$")
        wr = [bi for bi in f.reachable() for st in f.stmts(bi) if "lhs" in st and st["lhs"][1] and re.search(r":(imports|types)$", str(st["lhs"][1][-1]))]
        late = [cb for (cb, _) in calls_ if any(cb in f.reach_from(f.succ(wb)) for wb in wr)]
        ck.ob("DOM", f.path, "functions-transformed-before-imports-are-shifted", len(calls_) >= 1 and len(wr) >= 2 and not late,
              "inject_accounting runs for all functions before the %d writes that extend the import/type lists" % len(wr) if calls_ and not late else
              "inject_accounting is reachable after the import/type lists were extended: call costs are looked up in a shifted index space", f.loc(late[0]) if late else f.loc())
    compiled_charge_rules(ck, c)


def freeze():
    c = crate("sc", W)
    cg = CallGraph([c])
    out = {}
    for ver in ("cost_v0", "cost_v1"):
        tab, _ = cost_table(c, cg.bodies, ver)
        out[ver] = tab
    os.makedirs(os.path.dirname(SPEC), exist_ok=True)
    json.dump(out, open(SPEC, "w"), indent=1, sort_keys=True)
    return out


def compiled_charge_rules(ck, c):
    """Every TickEnergy instruction of the metered module becomes its own interpreter instruction: the compiler arm is a
    straight line that emits the opcode and the amount carried by the instruction (no merging, no condition), and the
    interpreter charges exactly the amount it reads."""
    from .c01 import enum_switch, opname
    hp = [p for p in c.paths() if re.search(r"BackPatch as concordium_wasm::validate::Handler<Ctx, &concordium_wasm::types::OpCode>>::handle_opcode$", p)]
    if not ck.anchor(len(hp) == 1, "TAB", "BackPatch::handle_opcode", "function exists"):
        return
    hf = Fn(c.get(hp[0]))
    onames = [v["name"] for v in c.adts[W + "::types::OpCode"]["variants"]]
    hsw = enum_switch(hf, 90)
    if not ck.anchor(hsw is not None, "TAB", hf.path, "opcode dispatch"):
        return
    tbs = [tb for v, tb in hsw[1]["t"] if onames[int(v)] == "TickEnergy"]
    if not ck.anchor(len(tbs) == 1, "TAB", hf.path, "TickEnergy arm"):
        return
    tb = tbs[0]
    rr = hf.reject_region()
    # walk the arm: it must be a straight line up to the point where all arms meet
    entries = sorted(set(t2 for _, t2 in hsw[1]["t"]))
    common = None
    for e in entries[:40]:
        r = hf.reach_from([e])
        common = r if common is None else (common & r)
    cur, seq, straight, steps = tb, [], True, 0
    while cur is not None and cur not in (common or set()) and steps < 80:
        steps += 1
        t = hf.term(cur)
        if t["k"] == "call":
            p = t["f"].get("path", "")
            if re.search(r"artifact::Instructions::push$", p):
                seq.append("OP:" + (opname(hf, t["args"][1]) or "?"))
            elif re.search(r"artifact::Instructions::push_u32$", p):
                o = hf.origins(t["args"][1], deep=True)
                seq.append("u32:" + ("payload" if ("arg", 5) in o or any(a[0] == "field" for a in o) else "?"))
            elif re.search(r"artifact::(Instructions|BackPatch)::", p):
                seq.append(p.split("::")[-1])
            cur = t.get("target")
        elif t["k"] == "goto":
            cur = t["target"]
        elif t["k"] == "switch":
            live = sorted(set(b for b in ([x for _, x in t["t"]] + [t["o"]]) if b not in rr and hf.term(b)["k"] != "unreachable"))
            if len(live) != 1:
                straight = False
                break
            cur = live[0]
        elif t["k"] in ("drop", "assert"):
            cur = t.get("target")
        else:
            break
    ok = straight and seq[:2] == ["OP:TickEnergy", "u32:payload"] and len(seq) == 2
    ck.ob("TAB", hf.path, "charge-compiled-one-to-one", ok,
          "the TickEnergy arm unconditionally emits the opcode followed by the instruction's own amount" if ok else
          "the TickEnergy arm is not the straight line [opcode, amount] (found %s, straight: %s): charges that are merged, moved or dropped no longer sit in front of the segment they pay for" % (seq, straight), hf.loc(tb))
