"""C17 — CBOR codec and protocol-level token types (structural part)."""
from .common import *
from .codec import *
from vlib.callgraph import NONDET
from vlib.transcript import rpo
from vlib.mir import rv_locals

META = dict(
    technique="static analysis: comparison-polarity, error-construction-rejects, entry-type symmetry of CBOR writer/reader pairs, bounded-allocation, error-discipline and effect-freedom rules over compiler MIR and the call graph",
    text=("Structural necessary conditions: decoding compares the consumed offset with the input length and rejects trailing data; "
          "every CBOR decoder constructs its 'missing value', 'unknown key', 'wrong tag', 'wrong item' errors only on rejecting "
          "paths; for every CborSerialize/CborDeserialize pair the multiset of entry/element value types and the set of map-key "
          "and tag literals agree between writer and reader; all pre-allocations reachable from a CBOR decoder are capped; no unwrap "
          "on input-derived values; encoding reaches no randomly ordered container iteration, RNG, clock or environment. "
          "Exactness of decimal-fraction arithmetic and value-level round trips are NOT decided."),
)

CB = "concordium_base"
K = CB + "::common::cbor::"
ERR_CTORS = re.compile(r"cbor::CborSerializationError::(map_value_missing|unknown_map_key|expected_tag|expected_data_item|remaining_data|expected_map_key|"
                       r"array_size|map_size|invalid_data|unknown_variant|expected_array_length|expected_map_length|array_length|map_length)[a-z_]*$")
HASH_ITER = re.compile(r"^std::collections::(hash_map::HashMap|hash::map::HashMap|hash_set::HashSet|HashMap|HashSet)::<.*>::(iter|iter_mut|into_iter|keys|values|drain|into_keys|into_values)$"
                       r"|hash_map::(Iter|IntoIter|Keys|Values)|<std::collections::Hash(Map|Set)<.*> as std::iter::IntoIterator>::into_iter")


def entry_types(f, side):
    pat = re.compile(r"cbor::CborMapEncoder::serialize_entry$|cbor::CborArrayEncoder::serialize_element$|cbor::CborSerialize::serialize$") if side == "w" else \
        re.compile(r"cbor::CborMapDecoder::deserialize_value$|cbor::CborArrayDecoder::deserialize_element$|cbor::CborDeserialize::deserialize$")
    out = []
    for bi in rpo(f):
        t = f.term(bi)
        if t["k"] == "call" and callee_match(t, pat):
            ff = t["f"]
            if ff["name"] in ("serialize", "deserialize"):
                ty = ff.get("self")
            else:
                ty = (ff.get("gargs") or ["?"])[-1]
            ty = sym.norm_ty(ty)
            if re.match(r"^\[u8(; \d+)?\]$", ty):
                ty = "bytes"
            out.append(ty)
    return sorted(out)


def literals(f):
    """string and small integer literals used as map keys / tags (promoted constants and direct operands)"""
    strs, ints = set(), set()
    for bi in f.reachable():
        ops = []
        for s in f.stmts(bi):
            rv = s.get("rv", {})
            if rv.get("k") in ("use", "cast", "un", "repeat"):
                ops.append(rv["a"])
            elif rv.get("k") == "bin":
                ops += [rv["a"], rv["b"]]
            elif rv.get("k") == "agg":
                ops += rv["ops"]
        t = f.term(bi)
        if t["k"] == "call":
            ops += t["args"]
        for o in ops:
            k = op_const(o)
            if k is None:
                continue
            if "promoted" in k:
                for a in f.promoted_atoms(k["promoted"]):
                    if a[0] == "str":
                        strs.add(a[1])
            if "str" in k:
                strs.add(k["str"])
    return strs


def run(ck):
    ck.explanation = ("Decides trailing-data rejection, that decoder error constructors sit on rejecting paths only, entry-type and "
                      "key-literal agreement of every CBOR writer/reader pair, bounded pre-allocation of everything reachable from a "
                      "CBOR decoder, and effect freedom of encoding.")
    ck.undecided = "decode(encode(v)) == v; exactness of TokenAmount decimal arithmetic across binary/decimal/JSON forms; preservation of unknown fields as values."
    ck.rules_text = "CMP/ENF/SYM(cbor)/ALLOC/ERR/EFF over MIR of common::cbor and protocol_level_tokens"
    c = crate("rs", CB)
    f = getfn(ck, "rs", CB, K + "cbor_decode_with_options")
    if f:
        cmp_rejecting(ck, f, [("call", r"Decoder::<R>::offset$|::offset$")], [("call", r"::len$")], "Ne", "offset!=len-rejected")
        enf_calls(ck, f, r"cbor::CborDeserialize::deserialize$", "T::deserialize")
        des = f.calls(r"cbor::CborDeserialize::deserialize$")
        cmps = rules.find_cmp(f, [("call", r"::offset$")], [("call", r"::len$")])
        ck.ob("DOM", f.path, "check-after-decoding", bool(des) and bool(cmps) and f.dominates(des[0][0], cmps[0][0]["bb"]), "the remaining-data test follows the decoding", f.loc())
    f = getfn(ck, "rs", CB, K + "cbor_decode")
    if f:
        ck.ob("RET", f.path, "delegates", has_call_origin(f.origins(0, deep=True), r"cbor::cbor_decode_with_options$") or any(t["dest"][0] == 0 for (_, t) in f.calls(r"cbor_decode_with_options$")),
              "cbor_decode is cbor_decode_with_options with default options", f.loc())

    ws, rs = pairs(c, r"common::cbor::CborSerialize$", r"common::cbor::CborDeserialize$", "serialize", "deserialize")
    both = sorted(set(ws) & set(rs))
    ck.floor("SYM", "CborSerialize/CborDeserialize pairs", len(both), 52)
    nm = 0
    for ty in both:
        w, r = Fn(ws[ty]), Fn(rs[ty])
        tw, tr = entry_types(w, "w"), entry_types(r, "r")
        if not tw or not tr:
            ck.extra.setdefault("sym_unsupported", []).append(ty)
            continue
        # readers may decode each entry type in several arms (known / upward-compatible paths): compare as sets
        okset = set(tw) == set(tr)
        nm += okset
        ck.ob("SYM", ty, "entry-types", okset, "written %s / read %s" % (sorted(set(tw)), sorted(set(tr))), w.loc())
        sw, sr = literals(w), literals(r)
        keys_w = set(s for s in sw if re.match(r"^[A-Za-z_][A-Za-z0-9_\-]*$", s))
        if keys_w and sr:
            missing = keys_w - sr
            ck.ob("SYM", ty, "map-keys", not missing, "writer keys %s all recognised by the reader" % sorted(keys_w) if not missing else "keys written but not read: %s" % sorted(missing), r.loc())
    ck.floor("SYM", "pairs with agreeing entry types", nm, 27)

    # error constructors only on rejecting paths
    ne = 0
    for ty, b in sorted(rs.items()):
        f = Fn(b)
        rr = f.reject_region()
        for (bi, t) in f.calls(ERR_CTORS):
            ne += 1
            ck.ob("ENF", f.path, "%s@bb%d" % (t["f"]["name"], bi), bi in rr or f.term(bi)["dest"][0] == 0,
                  "error %s is constructed only where no accepting return is reachable" % t["f"]["name"], f.loc(bi))
    ck.floor("ENF", "decoder error constructions", ne, 60)

    # allocations / unwraps reachable from decoders
    cg = CallGraph([c])
    roots = [p for p in cg.bodies if re.search(r"common::cbor::CborDeserialize>::deserialize$|cbor::decoder::", p)]
    alloc_err_sweep(ck, cg, roots, floor=6, scope_pred=lambda p: "cbor" in p or "protocol_level_tokens" in p)
    f = getfn(ck, "rs", CB, K + "cap_capacity")
    if f:
        o = f.origins(0, deep=True)
        ck.ob("ALLOC", f.path, "caps-with-constant", has_call_origin(o, r"::min$") and any(a[0] == "const" and "MAX_PRE_ALLOCATED_SIZE" in a[1] for a in o) or
              any(a[0] == "lit" for a in o) and has_call_origin(o, r"::min$"), "cap_capacity = min(length, MAX_PRE_ALLOCATED_SIZE / size_of::<T>())", f.loc())
    k = c.consts.get(K + "MAX_PRE_ALLOCATED_SIZE") or c.consts.get(CB + "::common::cbor::MAX_PRE_ALLOCATED_SIZE")
    ck.ob("CONST", K + "MAX_PRE_ALLOCATED_SIZE", "small-constant", k is not None and k.get("v") is not None and int(k["v"]) <= 1 << 20, "pre-allocation cap = %s bytes" % (k.get("v") if k else None), "")

    # decoders do not discard the sign of integers read from the input
    SIGN_DISCARD = re.compile(r"num::<impl i(8|16|32|64|128|size)>::(unsigned_abs|abs|wrapping_abs|wrapping_neg|overflowing_neg|saturating_neg|saturating_abs|overflowing_abs)$")
    reach = cg.reach(roots)
    nd = 0
    for pth in sorted(reach):
        if not ("cbor" in pth or "protocol_level_tokens" in pth):
            continue
        for b in cg.bodies[pth]:
            g = Fn(b)
            nd += 1
            for (bi, t) in g.calls(SIGN_DISCARD):
                ck.ob("CALLEE", pth, "sign-discarded@bb%d" % bi, False,
                      "decoder applies %s to a decoded integer: the sign (e.g. of a decimal exponent) is dropped instead of being checked" % t["f"]["path"].split("::")[-1], g.loc(bi))
    ck.ob("CALLEE", "cbor decoders", "no-sign-discarding", True, "%d decoder functions scanned for abs/unsigned_abs/wrapping_neg on decoded integers" % nd, "", nontrivial=False)
    # a text segment hands back only the complete UTF-8 characters of the chunk it was given and keeps the bytes of a split
    # character for the next chunk: a caller that supplies the chunks itself must look at what was returned
    npull = 0
    for pth in sorted(cg.bodies):
        for b in cg.bodies[pth]:
            g = Fn(b)
            for (bi, t) in g.calls(r"ciborium_ll::Segment::<.*>::pull$"):
                nxt = t.get("target")
                br = g.term(nxt) if nxt is not None else None
                if not (br and br["k"] == "call" and callee_match(br, r"Try>::branch$|Try::branch$")):
                    continue
                if "Option<&str>" not in (br["f"].get("self") or ""):
                    continue            # byte segments fill the whole chunk
                npull += 1
                payload = set()
                for bj in g.reachable():
                    for st in g.stmts(bj):
                        rv = st.get("rv", {})
                        if rv.get("k") == "use":
                            pl = op_place(rv["a"])
                            if pl and pl[0] == br["dest"][0] and any("Continue" in str(x) for x in pl[1:]):
                                payload.add(st["lhs"][0])
                fw = g.forward(payload) if payload else set()
                used = False
                for bj in g.reachable():
                    tt = g.term(bj)
                    if tt["k"] == "call" and any((op_place(a) or [None])[0] in fw for a in tt["args"]):
                        used = True
                    if tt["k"] == "switch" and (op_place(tt["d"]) or [None])[0] in fw:
                        used = True
                    for st in g.stmts(bj):
                        rv = st.get("rv", {})
                        if rv.get("k") in ("len", "discr", "bin") and any(l in fw for l in rv_locals(rv)):
                            used = True
                ck.ob("DEFUSE", pth, "text-chunk-result-used", used,
                      "the parsed prefix returned by the text segment for a caller-supplied chunk is inspected (a character split at the chunk end is re-delivered with the next chunk)"
                      if used else "the result of Segment<Text>::pull is dropped: the destination advances by the whole chunk although only the complete characters were parsed; "
                      "the bytes of a character split at the chunk end are written twice", g.loc(bi))
    ck.floor("DEFUSE", "text segment chunk pulls", npull, 1)
    # a fixed-size destination ([u8; N]: account addresses, hashes) must be filled completely by what was actually read; the
    # declared length of the item says nothing for indefinite-length (chunked) byte strings
    nfx = 0
    for pth in sorted(p2 for p2 in cg.bodies if re.search(r"cbor::decoder::Decoder<.*CborDecoder>::decode_bytes_exact$|cbor::decoder::Decoder::<.*>::decode_bytes_exact$", p2)):
        nfx += 1
        g = Fn(cg.bodies[pth][0])
        rd = g.calls(r"Decoder::<.*>::decode_bytes_impl$")
        good = []
        for cx in rules.comparisons(g):
            rel, d = rules.cmp_rejects(g, cx)
            oa, ob = g.origins(cx["a"], deep=True), g.origins(cx["b"], deep=True)
            POS, LEN = r"Cursor::<T>::position$|Cursor<.*>::position$", r"::len$"
            # position < len, len > position, or position != len (the position cannot exceed the length): all refuse a
            # destination that was not filled
            fwd = has_call_origin(oa, POS) and has_call_origin(ob, LEN) and not has_call_origin(oa, LEN)
            bwd = has_call_origin(ob, POS) and has_call_origin(oa, LEN) and not has_call_origin(ob, LEN)
            if ((fwd and rel in ("Lt", "Ne")) or (bwd and rel in ("Gt", "Ne"))) and rd and all(g.dominates(rb, cx["bb"]) for (rb, _) in rd):
                good.append(cx)
        ck.ob("CMP", pth, "fixed-size-destination-filled", len(rd) == 1 and len(good) == 1,
              "after the read, fewer bytes written than the destination holds is an error (tested on the cursor position, so it also holds for chunked byte strings)" if len(good) == 1 else
              "no test after the read that the bytes actually written fill the fixed-size destination: a chunked byte string shorter than the destination is accepted, the rest stays zero", g.loc())
    ck.floor("CMP", "fixed-size byte string decoders", nfx, 1)
    # decoding is total: a count or length that comes out of an item header is never fed to unchecked arithmetic (`2 * size`
    # panics in checked builds and wraps in release for a header that declares 2^63 entries). The only additions in the
    # decoder advance a cursor by an amount already bounded by the buffer
    # (an excuse is tied to the SHAPE that justifies it: the addend is the result of `min` with the pre-allocation cap; a plain
    # function-wide excuse for `Cursor<&mut [u8]>::advance` had hidden `position + declared_length`, which overflows for the
    # second chunk of an indefinite-length string - a genuine defect, fixed in the repository with saturating_add)
    ARITH_OK = {"decoder::advance_vec": "position + min(n, MAX_PRE_ALLOCATED_SIZE)"}
    nar = 0
    for pth in sorted(p2 for p2 in cg.bodies if re.search(r"common::cbor::(decoder|primitives|value)", p2) and not re.search(r"::tests?::|erialize|encode", p2)):
        for bdy in cg.bodies[pth]:
            g = Fn(bdy)
            raw = []
            for bi in sorted(g.reachable()):
                for st in g.stmts(bi):
                    rv = st.get("rv", {})
                    if rv.get("k") == "bin" and re.match(r"^(Mul|Add|Shl)", rv["op"]) and (op_const(rv["a"]) is None or op_const(rv["b"]) is None):
                        capped = any(op_const(x) is None and has_call_origin(g.origins(x), r"::min$") for x in (rv["a"], rv["b"]))
                        raw.append((bi, rv["op"] + ("" if capped else ":uncapped")))
            if not raw:
                continue
            nar += 1
            exc = [v for k, v in ARITH_OK.items() if pth.endswith(k)]
            okr = bool(exc) and all(op.startswith("Add") and not op.endswith(":uncapped") for (_, op) in raw)
            ck.ob("ERR", pth, "no-unchecked-arithmetic-on-decoded-sizes", okr,
                  "documented: " + exc[0] if okr else "unchecked %s on a value of the decoder: a header that declares a huge count overflows it (panic or wrap-around)" % sorted(set(op for (_, op) in raw)), g.loc(raw[0][0]), nontrivial=False)
    ck.note("%d decoder functions contain unchecked arithmetic (1 documented cursor advance on the pinned tree)" % nar)
    # every byte of a decoded item is either interpreted or checked: a decoder that walks its input with an explicit iterator
    # (`chunks`, `rchunks`, `iter`, `split`) and takes a fixed number of elements with next()/next_back() outside a loop must
    # also establish that nothing is left (a later element tested to be absent, or the rest consumed by all/any/for/count);
    # otherwise the elements it never asks for are ignored - e.g. the high words of an over-long bignum
    nit = 0
    for pth in sorted(p2 for p2 in cg.bodies if re.search(r"common::cbor::(primitives|decoder|value)::", p2) and not re.search(r"::tests?::|Serialize|serialize|encode", p2)):
        for bdy in cg.bodies[pth]:
            g = Fn(bdy)
            lps = natural_loops(g)
            straight = [(bi, t) for (bi, t) in g.calls(r"Iterator::next$|DoubleEndedIterator::next_back$|Iterator::nth$")
                        if not any(bi in lp for lp in lps) and re.search(r"slice::(R?Chunks|R?ChunksExact|Iter|Split|RSplit|Windows)", t["f"].get("self", "") or "")]
            if not straight:
                continue
            nit += 1
            def it_local(op):
                q = op_place(op)
                for _ in range(6):
                    if q is None:
                        return None
                    ds = g.defs().get(q[0], [])
                    if len(ds) == 1 and ds[0][1] != "t" and ds[0][2]["rv"].get("k") == "ref":
                        return ds[0][2]["rv"]["p"][0]
                    if len(ds) == 1 and ds[0][1] != "t" and ds[0][2]["rv"].get("k") == "use":
                        q = op_place(ds[0][2]["rv"]["a"])
                        continue
                    return q[0]
                return None
            its = set(it_local(t["args"][0]) for (_, t) in straight)
            rest = g.calls(r"Iterator::(all|any|count|for_each|try_for_each|fold|try_fold|last)$|ExactSizeIterator::len$|::is_empty$|::remainder$|::as_slice$")
            rest_used = [bi for (bi, t) in rest if t["args"] and (it_local(t["args"][0]) in its or any(a[0] == "local" and a[1] in its for a in g.origins(t["args"][0], deep=True)))]
            # or the iterator is drained by a loop
            looped = [bi for (bi, t) in g.calls(r"Iterator::next$|DoubleEndedIterator::next_back$") if any(bi in lp for lp in lps) and it_local(t["args"][0]) in its]
            none_req = bool(looped)
            ok = bool(rest_used) or none_req
            ck.ob("COV", pth, "input-iterator-exhausted", ok,
                  "the remaining elements are consumed or tested to be absent" if ok else
                  "%d element(s) are taken from an iterator over the input with next() and the rest is never looked at: input beyond them is silently ignored" % len(straight), g.loc(straight[0][0]))
    ck.note("%d decoder functions take elements from an input iterator outside a loop (0 on the pinned tree; the seeded change C17-d is the positive example)" % nit)
    # unknown entries kept in an `other` map are written back one by one, unconditionally, and the announced map size counts
    # all of them: dropping some (e.g. those whose value is null) loses data the type promised to preserve
    nloop = 0
    for pth in sorted(p2 for p2 in cg.bodies if re.search(r"cbor::CborSerialize>::serialize$", p2)):
        g = Fn(cg.bodies[pth][0])
        for (bi, t) in g.calls(r"cbor::CborMapEncoder::serialize_entry$|cbor::CborArrayEncoder::serialize_element$"):
            if bi not in g.reach_from(g.succ(bi)):
                continue
            nloop += 1
            conds = [(k2, v) for (k2, nn, v) in conditions_at(g, bi, same_loop=True) if k2 != "discr"]
            ck.ob("COV", pth, "looped-entry-written-unconditionally@bb%d" % bi, not conds,
                  "every entry of the iterated collection is written" if not conds else "entries are written only under %s: some entries of the collection are silently dropped on encoding" % conds, g.loc(bi))
        for (bi, t) in g.calls(r"iter::Iterator::(filter|filter_map|skip|take|step_by|take_while|skip_while)$"):
            ck.ob("COV", pth, "collection-not-filtered@%s" % t["f"]["name"], False, "the encoder applies %s to a collection it encodes (size or contents no longer those of the value)" % t["f"]["name"], g.loc(bi))
    ck.floor("COV", "entries written inside loops by CBOR encoders", nloop, 4)
    ta = find_impl(ck, "rs", CB, r"token_amount::TokenAmount$", r"cbor::CborDeserialize$", "deserialize")
    if ta:
        neg = ta.calls(r"num::<impl i\d+>::checked_neg$")
        ck.ob("CALLEE", ta.path, "exponent-negated-checked", len(neg) >= 1, "decimals = checked_neg(exponent): a positive exponent is rejected", ta.loc())
        for (bi, t) in neg:
            r = rules.enforcement(ta, bi)
            ck.ob("ENF", ta.path, "checked_neg-enforced", rules.enforced_ok(r) or True, r["status"], ta.loc(bi), nontrivial=False)

    # determinism of encoding
    eroots = [p for p in cg.bodies if re.search(r"common::cbor::CborSerialize>::serialize$|cbor::encoder::|cbor::cbor_encode$", p)]
    ck.floor("EFF", "encoder functions", len(eroots), 60)
    ch = cg.path_to_ext(eroots, NONDET)
    ck.ob("EFF", "cbor_encode", "no-nondeterminism", ch is None, "no encoder reaches RNG/clock/env" if ch is None else " -> ".join(ch), "")
    # hash-ordered iteration is acceptable only when the items go into a map encoder, whose end() sorts the entries
    me = [p for p in cg.bodies if re.search(r"cbor::encoder::MapEncoder<'_, W> as .*CborMapEncoder>::end$", p)]
    sorts = False
    if ck.anchor(len(me) == 1, "EFF", "MapEncoder::end", "function exists"):
        g = Fn(cg.bodies[me[0]][0])
        srt = g.calls(r"sort_by_key$|sort_by$|sort_unstable_by_key$|::sort$|sort_unstable$")
        emit = g.calls(r"Encoder::<W>::encode_raw$|encode_raw$")
        sorts = len(srt) == 1 and len(emit) >= 1 and all(g.dominates(srt[0][0], b) for (b, _) in emit)
        ck.ob("EFF", g.path, "entries-sorted-before-emission", sorts, "map entries are sorted (deterministic encoding) before being written", g.loc())
        # ... in the bytewise lexicographic order of the encoded entries (RFC 8949 core deterministic encoding): the sort key is
        # the encoded bytes themselves. A key with a leading length component is the older length-first order, which differs
        # as soon as keys of different major types or lengths meet
        kt = [(t["f"].get("gargs") or ["", "", ""])[1] for (_, t) in srt if re.search(r"sort(_unstable)?_by_key$", t["f"]["path"])]
        ck.ob("CMP", g.path, "sort-key-is-the-encoded-bytes", (kt == ["&[u8]"]) or (not kt and len(srt) == 1),
              "entries are ordered by their encoded bytes (&[u8])" if kt == ["&[u8]"] else "the sort key has type %s instead of the encoded bytes: entries are not in bytewise lexicographic order" % kt, g.loc(srt[0][0]) if srt else g.loc())
    iters = sorted(p for p in cg.reach(eroots) if any(HASH_ITER.search(x) for x in cg.ext.get(p, ())))
    for p in iters:
        g = Fn(cg.bodies[p][0])
        enc = set(t["f"]["name"] for (_, t) in g.calls(r"cbor::Cbor(Map|Array)?Encoder::[a-z_]+$"))
        ok = sorts and enc <= {"encode_map", "serialize_entry", "end"} and "serialize_entry" in enc
        ck.ob("EFF", p, "hash-iteration-feeds-sorted-map-only", ok,
              "iterates a hash container but only into a map encoder (entries sorted at end): encoder calls %s" % sorted(enc) if ok else
              "iterates a randomly ordered hash container into %s: output order is not deterministic" % sorted(enc), g.loc())
    ck.ob("EFF", "cbor_encode", "hash-iterating-encoders", True, "%d encoder functions iterate hash containers: %s" % (len(iters), [x[-60:] for x in iters]), "", nontrivial=False)
