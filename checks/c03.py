"""C03 — contract state as an ordered map: checkpoint/rollback and generation isolation (structural part)."""
from .common import *
from vlib.callgraph import CallGraph

META = dict(
    technique="static analysis: field-coverage (both directions) and who-may-call reachability over compiler MIR and the call graph",
    text=("Structural necessary conditions of the rollback and isolation clauses only: the checkpoint records the length of "
          "each of the four append-only tables before anything is appended, rollback (normalize) truncates each table with the "
          "checkpoint field of the same role and truncates the generation stack; the only way to mutate a node or value shared "
          "with persistent state (Link::borrow_mut / RwLock::write) is called from exactly the caching, storing, migrating and "
          "deserialising functions and is unreachable from every mutable-trie operation and every host function. The central "
          "clause - contents equal an ordered byte-string map under every history, ascending iteration - is value-level and is "
          "NOT decided by this family."),
)

E = "concordium_smart_contract_engine"
LL = E + "::v1::trie::low_level::"
MT = LL + "MutableTrie::"
ROLE = {"num_nodes": "nodes", "num_values": "values", "num_borrowed_nodes": "borrowed_values", "num_entries": "entries"}


def marked_rules(ck):
    """in-place changes are marked as modified (shared by C03: contents survive freezing, and C04: the frozen hash reflects them)"""
    # a node whose value or stem is changed in place is marked as modified (origin = None); otherwise freezing reuses the
    # persistent original of the node and the change is lost in the frozen state
    nmut = 0
    for name in ("insert", "delete", "delete_prefix"):
        f = getfn(ck, "sc", E, LL + "MutableTrie::" + name)
        if not f:
            continue
        vn = f.names()
        clears, muts = [], []
        for bi in f.reachable():
            for st in f.stmts(bi):
                if "lhs" in st and st["lhs"][1] and str(st["lhs"][1][-1]).endswith(":origin"):
                    clears.append((bi, st["lhs"][0]))
                rv = st.get("rv", {})
                if rv.get("k") == "ref" and rv.get("mut") and rv["p"][1] and re.search(r":(value|path)$", str(rv["p"][1][-1])) and "MutableNode" in f.locals[rv["p"][0]]:
                    muts.append((bi, rv["p"][0], str(rv["p"][1][-1]).split(":")[-1]))
                if "lhs" in st and st["lhs"][1] and re.search(r":(value|path)$", str(st["lhs"][1][-1])) and "MutableNode" in f.locals[st["lhs"][0]]:
                    muts.append((bi, st["lhs"][0], str(st["lhs"][1][-1]).split(":")[-1]))
        for k, (bi, l, fld) in enumerate(muts):
            ok = any(l2 == l and (f.dominates(b2, bi) or f.dominates(bi, b2)) for (b2, l2) in clears)
            nmut += 1
            ck.ob("DEFUSE", f.path, "modified-node-marked:%s.%s#%d" % (vn.get(l, "_%d" % l), fld, k), ok,
                  "the node whose %s is changed has its origin cleared on the same path" % fld if ok else
                  "`%s.%s` is changed but `%s.origin` is not cleared on that path: freeze() will reuse the node's persistent original and drop the change" % (vn.get(l, l), fld, vn.get(l, l)), f.loc(bi))
    ck.floor("DEFUSE", "in-place changes of a node's value or stem", nmut, 6)

    # the same for a node's children: `make_owned(i, ..)` hands out node i's child list for modification; when that list is
    # changed, `origin` of the node with the SAME index must be cleared (clearing another node's origin leaves node i tied
    # to its persistent original, and freeze() resurrects the removed subtree)
    nch = 0
    for name in ("insert", "delete", "delete_prefix"):
        f = getfn(ck, "sc", E, LL + "MutableTrie::" + name)
        if not f:
            continue
        vn = f.names()

        def idx_of(op):
            r = rules.root_local(f, op)
            return r[0] if r and not r[1] else None
        # origin clears keyed by the index the node reference was obtained with
        cleared = []
        for bi in f.reachable():
            for st in f.stmts(bi):
                if "lhs" in st and st["lhs"][1] and str(st["lhs"][1][-1]).endswith(":origin"):
                    # the node reference: result of get_unchecked_mut / index_mut / get_mut on the node table
                    work, seen = [st["lhs"][0]], set()
                    while work:
                        l = work.pop()
                        if l in seen:
                            continue
                        seen.add(l)
                        for (b2, si, it) in f.defs().get(l, []):
                            if si == "t":
                                if re.search(r"get_unchecked_mut$|IndexMut::index_mut$|index_mut$|::get_mut$", it["f"].get("path", "")) and len(it["args"]) >= 2:
                                    cleared.append((bi, idx_of(it["args"][1])))
                                elif re.search(r"::(expect|unwrap|unwrap_unchecked|deref_mut|as_mut)$", it["f"].get("path", "")) and it["args"]:
                                    q = op_place(it["args"][0])
                                    if q:
                                        work.append(q[0])
                                continue
                            rv = it["rv"]
                            q = op_place(rv.get("a")) if rv.get("k") in ("use", "cast") else (rv.get("p") if rv.get("k") == "ref" else None)
                            if q:
                                work.append(q[0])
        for (mb, mt) in f.calls(r"low_level::make_owned$"):
            dest = mt["dest"][0]
            idx = idx_of(mt["args"][0])
            # is the child list (3rd component) changed?
            changes = []
            for (cb, ct) in f.calls(r"Vec::<.*>::(remove|push|insert|pop|clear|truncate|swap_remove|retain)$|IndexMut::index_mut$|index_mut$"):
                if not ct["args"]:
                    continue
                o = f.origins(ct["args"][0], deep=True)
                if any(a[0] == "call" and len(a) > 2 and a[2] == mb for a in o) and f.dominates(mb, cb):
                    changes.append(cb)
            if not changes:
                continue
            nch += 1
            ok = idx is not None and any(i2 == idx and (f.dominates(b2, changes[0]) or f.dominates(changes[0], b2)) for (b2, i2) in cleared)
            ck.ob("DEFUSE", f.path, "children-changed-node-marked:%s#%d" % (vn.get(idx, "_%s" % idx), nch), ok,
                  "the node whose child list is changed has its origin cleared (same index)" if ok else
                  "the child list of node `%s` is changed but the origin of that node is not cleared (cleared indices: %s): freeze() reuses the persistent original with the old children" % (vn.get(idx, idx), sorted(set(vn.get(i2, str(i2)) for _, i2 in cleared))), f.loc(changes[0]))
    ck.floor("DEFUSE", "child lists changed through make_owned", nch, 3)

    # freezing reuses the persistent original of a node (`(false, origin)`) only when neither its value nor any child changed
    f = getfn(ck, "sc", E, LL + "MutableTrie::freeze")
    if f:
        nre = 0
        rem = f.calls(r"HashMap::<.*>::remove$")
        for (bi, t) in f.calls(r"HashMap::<.*>::insert$"):
            o = f.origins(t["args"][2], deep=False) if len(t["args"]) > 2 else set()
            if not (("field", "origin") in o and ("lit", 0) in o):
                continue
            nre += 1
            cond = rules.conditions_at(f, bi)
            fv = [v for (k, names, v) in cond if k == "call:freeze_value"]
            ch = [v for (k, names, v) in cond if k in ("call:remove", "call:unwrap")]
            need_children = any(f.dominates(rb, bi) for (rb, _) in rem)
            ok = fv == [False] and (not need_children or (ch and not any(ch)))
            ck.ob("DOM", f.path, "origin-reused-only-if-unchanged#%d" % nre, ok,
                  "the persistent original is reused only when the value is unchanged%s" % (" and no child changed" if need_children else "") if ok else
                  "the persistent original of a node is reused under (value changed: %s, child changed: %s): a changed node is frozen as its old self" % (fv, ch), f.loc(bi))
        ck.floor("DOM", "origin reuse sites in freeze", nre, 2)

    # a node that freeze() REBUILDS (a fresh CachedRef::Memory around a newly hashed Node) is reported to its parent as changed -
    # with the literal `true`, not with a flag that only knows about the value: the node may have been rebuilt because its stem
    # or children changed, and a parent that is told "unchanged" keeps its persistent original with the old subtree and old hash
    f = getfn(ck, "sc", E, MT + "freeze")
    if f:
        nins = 0
        for (bi, t) in f.calls(r"HashMap::<K, V, S(, A)?>::insert$|HashMap<.*>::insert$"):
            if len(t["args"]) < 3:
                continue
            tup = op_place(t["args"][2])
            if tup is None or tup[1]:
                continue
            for (b2, s2, it) in f.defs().get(tup[0], []):
                rv = it.get("rv", {}) if s2 != "t" else {}
                if rv.get("k") != "agg" or len(rv.get("ops", [])) != 2:
                    continue
                o = f.origins(rv["ops"][1], deep=False)
                fresh = any(a[0] == "agg" and a[1].endswith("CachedRef::Memory") for a in o) or has_call_origin(o, r"Hashed::<.*>::new$|Hashed::new$")
                if not fresh:
                    continue
                nins += 1
                k0 = op_const(rv["ops"][0])
                flag = const_int(k0) if k0 is not None else None
                ck.ob("DEFUSE", f.path, "rebuilt-node-reported-as-changed#%d" % nins, flag == 1,
                      "a rebuilt node is recorded with changed = true" if flag == 1 else
                      "a rebuilt node is recorded with a computed flag instead of `true`: when only its stem or children changed the parent keeps its persistent original (old contents, old hash)", f.loc(b2))
        ck.floor("DEFUSE", "rebuilt nodes recorded in freeze", nins, 2)

    # freeze_value reports `changed = false` only for a link that already exists in persistent storage (a clone of a borrowed
    # value, or no value at all); a link it creates itself (Link::new(InlineOrHashed::new(..))) is new data and must be
    # reported as changed, otherwise freeze() keeps the node's persistent original and the written value is lost
    f = getfn(ck, "sc", E, LL + "freeze_value")
    if f:
        nfv = 0
        for (bi, si, it) in f.defs().get(0, []):
            if bi not in f.reachable() or si == "t" or it["rv"].get("k") != "agg" or len(it["rv"].get("ops", [])) != 2:
                continue
            nfv += 1
            k0 = op_const(it["rv"]["ops"][0])
            flag = const_int(k0) if k0 is not None else None
            o = f.origins(it["rv"]["ops"][1], deep=True)
            fresh = has_call_origin(o, r"low_level::Link::<.*>::new$|Link::new$|InlineOrHashed::new$")
            ok = not fresh or flag == 1
            ck.ob("DEFUSE", f.path, "fresh-link-reported-as-changed#%d" % nfv, ok,
                  "changed = %s for %s" % (flag, "a newly created link" if fresh else "an existing link / no value") if ok else
                  "a newly created value link is returned with changed = %s: a node whose value was written keeps its persistent original" % flag, f.loc(bi))
        ck.floor("DEFUSE", "results of freeze_value", nfv, 3)

    # path compression keeps the tree canonical: a node is merged into its only child exactly when it has no value and exactly
    # one child (all three collapse sites of delete / delete_prefix)
    ncol = 0
    for name in ("delete", "delete_prefix"):
        f = getfn(ck, "sc", E, LL + "MutableTrie::" + name)
        if not f:
            continue
        for (bi, t) in f.calls(r"prepend_parts$"):
            ncol += 1
            cond = rules.conditions_at(f, bi)
            one = [v for (k, names, v) in cond if k == "cmp:Eq" and "len" in names and "lit1" in names]
            hv = [v for (k, names, v) in cond if k == "call:make_owned"]
            ok = bool(one) and one[-1] is True and not any(hv)
            ck.ob("DOM", f.path, "collapse-iff-no-value-and-one-child#%d" % ncol, ok,
                  "the node is merged into its child under `children.len() == 1`%s" % (" and no value" if hv else " (its value was just removed)") if ok else
                  "a node is merged into a child under (one child: %s, has value: %s): the tree shape is no longer canonical / entries are lost" % (one, hv), f.loc(bi))
    ck.floor("DOM", "path-compression sites", ncol, 3)

    # positions recorded on the way down: `father = Some((slot in the father's child list, index of the father))` etc. When a
    # node's child list is indexed or cut at a recorded slot, slot and node index must come out of the SAME record; a slot
    # taken from another record (the deleted leaf's slot in its father used in the grandfather's list) rewires the wrong child
    def record_of(f, op):
        """(root local, field number) when the operand is a copy of `<local as Some>.0.<n>` / `<local>.<n>`"""
        r = rules.root_local(f, op)
        if not r or r[1]:
            return None
        ds = f.defs().get(r[0], [])
        if len(ds) != 1 or ds[0][1] == "t" or ds[0][2]["rv"].get("k") != "use":
            return None
        q = op_place(ds[0][2]["rv"]["a"])
        if not q or len(q[1]) < 1:
            return None
        m = re.search(r"f(\d+)", str(q[1][-1]))
        if not m:
            return None
        return (q[0], tuple(str(x) for x in q[1][:-1]), int(m.group(1)))
    nrec = 0
    for name in ("delete", "delete_prefix"):
        f = getfn(ck, "sc", E, LL + "MutableTrie::" + name)
        if not f:
            continue
        sites_ = [(bi, t["args"][1], t["args"][0]) for (bi, t) in f.calls(r"ops::IndexMut::index_mut$|Vec::<.*>::remove$") if len(t["args"]) >= 2]
        # built-in slice indexing `&mut list[slot]` is a place projection, not a call
        for bi in sorted(f.reachable()):
            for st in f.stmts(bi):
                rv = st.get("rv", {})
                if rv.get("k") == "ref" and rv.get("mut"):
                    for x in rv["p"][1]:
                        m = re.match(r"^i(\d+)$", str(x))
                        if m:
                            sites_.append((bi, {"c": [int(m.group(1)), []]}, {"c": [rv["p"][0], []]}))
        for (bi, posop, recvop) in sites_:
            pos = record_of(f, posop)
            if pos is None:
                continue
            # which node does the list belong to: the index handed to make_owned / get_unchecked_mut / index_mut on the node table
            node_recs = set()
            # walk back from the list to the node it belongs to (precisely: no loop-carried merging)
            work, seen_ = [op_place(recvop)], set()
            while work:
                q = work.pop()
                if q is None or q[0] in seen_:
                    continue
                seen_.add(q[0])
                for (b2, si, it) in f.defs().get(q[0], []):
                    if si == "t":
                        pth = it["f"].get("path", "")
                        if pth.endswith("low_level::make_owned"):
                            rr_ = record_of(f, it["args"][0])
                            if rr_ is not None:
                                node_recs.add(rr_[:2])
                        elif re.search(r"get_unchecked_mut$|ops::IndexMut::index_mut$|::get_mut$", pth) and len(it["args"]) > 1:
                            rr_ = record_of(f, it["args"][1])
                            if rr_ is not None:
                                node_recs.add(rr_[:2])
                        elif re.search(r"get_owned_mut$|deref_mut$|as_mut$|::expect$|::unwrap$|as_mut_slice$", pth) and it["args"]:
                            work.append(op_place(it["args"][0]))
                        continue
                    rv = it["rv"]
                    if rv.get("k") in ("use", "cast"):
                        work.append(op_place(rv["a"]))
                    elif rv.get("k") == "ref":
                        work.append(rv["p"])
            if not node_recs:
                continue
            nrec += 1
            ok = pos[:2] in node_recs
            ck.ob("DEFUSE", f.path, "slot-and-node-from-the-same-record#%d" % nrec, ok,
                  "the child list of a recorded node is changed at the slot recorded with it" if ok else
                  "a child list is changed at a slot that was recorded for a DIFFERENT node (slot from %s, list of %s): the wrong child pointer is rewired" % (pos[:2], sorted(node_recs)), f.loc(bi))
    ck.floor("DEFUSE", "recorded slots used on recorded nodes", nrec, 3)

    # indices of nodes that insert is about to push are the CURRENT length of the node table: make_owned may append thawed or
    # migrated nodes on the way down, so the length has to be read in the iteration that uses it (or taken from make_owned's
    # result). A length read once before the descent names nodes that were appended meanwhile
    f = getfn(ck, "sc", E, LL + "MutableTrie::insert")
    if f:
        loops = natural_loops(f)
        inloop = set().union(*loops) if loops else set()
        nki = 0
        for (bi, t) in f.calls(r"low_level::KeyIndexPair::<.*>::new$|KeyIndexPair::new$"):
            if len(t["args"]) < 2 or not inloop:
                continue
            lens = [a[2] for a in f.origins(t["args"][1], deep=False) if a[0] == "call" and len(a) > 2 and re.search(r"Vec::<.*>::len$|::len$", a[1])
                    and ("field", "nodes") in f.origins(f.term(a[2])["args"][0], deep=False)]
            if not lens:
                continue
            nki += 1
            stale = [lb for lb in lens if lb not in inloop and (f.reach_from([lb]) & inloop)]      # read before the loop on a path that enters it
            ck.ob("DEFUSE", f.path, "new-node-index-is-the-current-table-length#%d" % nki, not stale,
                  "the index written into the parent's child list is a table length read inside the descent loop" if not stale else
                  "the index of a node about to be pushed is computed from a table length read BEFORE the descent loop: nodes appended by make_owned on the way down shift the real position", f.loc(bi))
        ck.floor("DEFUSE", "child links created by insert", nki, 2)

    # values written by an older generation are never overwritten in place: `values[i] = ..` / `&mut values[i]` is reached
    # only for an entry of the current generation (`Entry::Mutable`, directly or through `is_owned()`); every other kind of
    # entry gets a fresh slot (an in-place write through a read-only entry changes the generation it was inherited from)
    def mutable_guard(f, bi):
        for (sb, st) in f.switches():
            if not f.dominates(sb, bi) or sb == bi:
                continue
            p = op_place(st["d"])
            src_ty, via_is_owned = None, False
            for (b2, si, it) in (f.defs().get(p[0], []) if p else []):
                if si != "t" and it["rv"].get("k") == "discr":
                    q = it["rv"].get("p")
                    if q:
                        src_ty = f.locals[q[0]] if not q[1] else "proj"
                        for (b3, s3, i3) in f.defs().get(q[0], []):
                            if s3 == "t" and re.search(r"Entry::is_owned$", i3["f"].get("path", "")):
                                via_is_owned = True
                        if "low_level::Entry" in (f.locals[q[0]] or "") or any("Entry" in str(x) for x in q[1]) or ("Entry" in f.locals[q[0]]):
                            src_ty = "Entry"
            if not (via_is_owned or src_ty == "Entry"):
                continue
            edges = [v for v, tb in st["t"] if f.dominates(tb, bi)]
            others = [v for v, tb in st["t"] if not f.dominates(tb, bi)]
            if edges == ["1"] and not (st["o"] is not None and f.dominates(st["o"], bi)):
                return True
        return False
    nvw = 0
    c = crate("sc", E)
    for p0 in sorted(c.paths()):
        if not p0.startswith(MT) or "{closure" in p0:
            continue
        for b in c.get_all(p0):
            f = Fn(b)
            for (bi, t) in f.calls(r"ops::IndexMut::index_mut$|::get_mut$|get_unchecked_mut$"):
                o = f.origins(t["args"][0], deep=True)
                if not (("field", "values") in o and ("field", "borrowed_values") not in o):
                    continue
                nvw += 1
                ok = mutable_guard(f, bi)
                ck.ob("DOM", f.path, "in-place-value-write-only-for-own-entries@%d" % nvw, ok,
                      "the in-place access to values[..] is reached only for Entry::Mutable" if ok else
                      "values[..] is written/handed out mutably for an entry that is not known to be Entry::Mutable: a value inherited from an older generation is changed in place", f.loc(bi))
    ck.floor("DOM", "in-place accesses to the values table", nvw, 5)


def run(ck):
    ck.explanation = ("Decides checkpoint completeness (every table length recorded, every table truncated with its own field) and "
                      "that persistent nodes cannot be written from mutable-trie operations or host functions (call-graph reachability).")
    ck.undecided = ("observable contents equal an ordered byte-string map after any operation sequence; ascending iteration order; "
                    "stem splitting / path collapse correctness; copy-on-write before child mutation (loop-carried, not armed).")
    ck.rules_text = "COV (writer and reader of Checkpoint) + WHO (Link::borrow_mut, RwLock::write) over MIR of v1::trie::low_level"
    c = crate("sc", E)
    cp = c.adts.get(LL + "Checkpoint")
    if ck.anchor(cp is not None, "COV", "Checkpoint", "struct exists"):
        fields = [f["name"] for f in cp["variants"][0]["fields"]]
        ck.ob("COV", LL + "Checkpoint", "fields-have-roles", set(fields) == set(ROLE), "checkpoint fields %s each have a table to truncate" % fields, "")
    f = getfn(ck, "sc", E, MT + "new_generation")
    if f:
        aggs = []
        for bi in f.reachable():
            for s in f.stmts(bi):
                rv = s.get("rv", {})
                if rv.get("k") == "agg" and rv.get("adt", "").endswith("low_level::Checkpoint"):
                    aggs.append((bi, rv))
        ck.ob("COV", f.path, "checkpoint-built", len(aggs) >= 1, "%d Checkpoint constructions" % len(aggs), f.loc())
        pushes = f.calls(r"Vec::<T, A>::push$|MutableNode::migrate$")
        for (bi, rv) in aggs:
            for i, fld in enumerate(rv["fields"]):
                o = f.origins(rv["ops"][i], deep=True)
                want = ROLE.get(fld)
                ok = want is not None and ("field", want) in o and any(a[0] == "call" and a[1].endswith("::len") for a in o) and \
                    not any(("field", other) in o for other in ROLE.values() if other != want)
                ck.ob("COV", f.path, "records:" + fld, ok, "%s = self.%s.len()" % (fld, want), f.loc(bi))
                lens = [a[2] for a in o if a[0] == "call" and a[1].endswith("::len")]
                ck.ob("DOM", f.path, "recorded-before-append:" + fld, lens and all(f.dominates(lb, pb) and lb != pb for lb in lens for (pb, _) in pushes),
                      "the length is taken before the new root is migrated/pushed", f.loc(bi))
        # ... and every generation that is pushed carries that checkpoint (a generation pushed with a default, all-zero
        # checkpoint makes the rollback to its parent truncate every table to length 0)
        gp = [(bi, t) for (bi, t) in f.calls(r"Vec::<T, A>::push$|Vec::<T>::push$") if len(t["args"]) > 1 and op_place(t["args"][1]) and "Generation" in f.locals[op_place(t["args"][1])[0]]]
        for n_, (bi, t) in enumerate(gp):
            o = f.origins(t["args"][1], deep=True)
            ok = any(a[0] == "agg" and "low_level::Checkpoint" in a[1] for a in o) and has_call_origin(o, r"Generation::new_with_checkpoint$")
            ck.ob("DEFUSE", f.path, "pushed-generation-carries-the-checkpoint#%d" % n_, ok,
                  "the pushed generation is built with the checkpoint of the current table lengths" if ok else
                  "a generation is pushed without the checkpoint recorded above (Generation::new uses an all-zero checkpoint): rolling back to its parent truncates the tables of older generations", f.loc(bi))
        ck.floor("DEFUSE", "generations pushed by new_generation", len(gp), 2)
    for name in ("normalize",):
        f = getfn(ck, "sc", E, MT + name)
        if not f:
            continue
        seen = {}
        for (bi, t) in f.calls(r"Vec::<T, A>::truncate$"):
            recv = f.origins(t["args"][0])
            arg = f.origins(t["args"][1], deep=True)
            tables = [a[1] for a in recv if a[0] == "field" and a[1] in list(ROLE.values()) + ["generations"]]
            cps = [a[1] for a in arg if a[0] == "field" and a[1] in ROLE]
            for tb in tables:
                seen[tb] = (cps, bi)
        for fld, tb in ROLE.items():
            ent = seen.get(tb)
            ck.ob("COV", f.path, "truncates:" + tb, ent is not None and ent[0] == [fld], "self.%s.truncate(checkpoint.%s)%s" % (tb, fld, "" if ent else " is missing"), f.loc(ent[1]) if ent else f.loc())
        g = seen.get("generations")
        ck.ob("COV", f.path, "truncates:generations", g is not None, "the generation stack is truncated as well", f.loc())
        if g:
            bi = g[1]
            o = f.origins(f.term(bi)["args"][1], deep=True)
            ck.ob("DEFUSE", f.path, "keeps-root+1-generations", ("arg", 2) in o and ("lit", 1) in o, "new length = root + 1", f.loc(bi))

    # a'. prefix deletion descends only into children owned by the node's own generation
    f = getfn(ck, "sc", E, MT + "delete_prefix")
    if f:
        pushes = [(bi, t) for (bi, t) in f.calls(r"Vec::<T, A>::push$") if has_call_origin(f.origins(t["args"][1], deep=True), r"::index$")]
        ck.ob("CMP", f.path, "sites:subtree-descent", len(pushes) >= 1, "%d places queue a child for invalidation" % len(pushes), f.loc(), nontrivial=False)
        for n, (bi, t) in enumerate(pushes):
            ok, d = rules.guarded_site(f, bi, [("field", "generation")], [("call", r"ChildrenCow(::<V>)?::get_owned$")], "Ne")
            ck.ob("CMP", f.path, "descend-only-into-own-generation#%d" % n, ok,
                  "children are queued for invalidation only when node.generation == children's generation (older generations are never written): " + d if ok else
                  "the generation guard of the invalidation loop does not decide equality: entries of older generations can be tombstoned (" + d + ")", f.loc(bi))

    # b. who may mutate persistent nodes
    cg = CallGraph([c])
    allowed = {LL + "Node::cache", LL + "Node::migrate::{closure#0}", LL + "Node::store_update_buf", LL + "Node::store_update_buf::{closure#0}",
               LL + "<impl concordium_smart_contract_engine::v1::trie::types::Hashed<concordium_smart_contract_engine::v1::trie::low_level::Node>>::deserialize"}
    cal = cg.callers(re.compile(r"low_level::Link::<V>::borrow_mut$"))
    ck.ob("WHO", "Link::borrow_mut", "callers", cal <= allowed and len(cal) >= 4, "callers: %s" % sorted(x.split("low_level::")[-1] for x in cal), "")
    wr = cg.callers(re.compile(r"sync::RwLock::<T>::(write|get_mut|try_write)$|sync::Arc::<T.*>::get_mut$"))
    wr_trie = set(x for x in wr if "::v1::trie::" in x)
    ck.ob("WHO", "RwLock::write", "callers", wr_trie <= {LL + "Link::<V>::borrow_mut"}, "direct lock writers in the trie: %s" % sorted(x.split("low_level::")[-1] for x in wr_trie), "")
    ops = ["insert", "delete", "delete_prefix", "get_mut", "set", "iter", "next", "get_entry", "with_entry", "new_generation", "normalize", "delete_iter"]
    for op in ops:
        root = MT + op
        if not ck.anchor(root in cg.bodies, "WHO", root, "function exists"):
            continue
        reach = cg.reach([root])
        bad = reach & (cal | {LL + "Link::<V>::borrow_mut"})
        ck.ob("WHO", root, "cannot-write-persistent-nodes", not bad, "%d functions reachable, none may call Link::borrow_mut" % len(reach) if not bad else "reaches %s" % sorted(bad), "")
    hosts = [p for p in cg.bodies if re.search(r"::v1::host::[a-z_0-9]+$", p)]
    reach = cg.reach(hosts)
    bad = reach & (cal | {LL + "Link::<V>::borrow_mut"})
    ck.ob("WHO", "v1::host::*", "cannot-write-persistent-nodes", len(hosts) >= 25 and not bad, "%d host functions, %d reachable functions, none may call Link::borrow_mut" % (len(hosts), len(reach)), "")

    # checkpoint isolation: a node copied into a newer generation gets a FRESH entry slot for its value; the older
    # generation's slot is never shared, otherwise a write/delete in the newer generation edits it in place and a rollback
    # does not restore it
    f = getfn(ck, "sc", E, LL + "MutableNode::migrate")
    if f:
        vops = []
        for bi in f.reachable():
            for st in f.stmts(bi):
                rv = st.get("rv", {})
                if rv.get("k") == "agg" and rv.get("agg") == "adt" and rv.get("adt", "").endswith("low_level::MutableNode") and "value" in rv.get("fields", []):
                    vops.append((bi, rv["ops"][rv["fields"].index("value")]))
        if ck.anchor(len(vops) >= 1, "DEFUSE", f.path, "constructs the migrated node"):
            for (bi, vop) in vops:
                o = f.origins(vop, deep=True)
                fresh = has_call_origin(o, r"Vec::<.*>::len$")
                shared, how = False, ""
                maps = [(mb, mt) for (mb, mt) in f.calls(r"Option::<T>::(map|and_then|map_or|map_or_else)$") if ("call", mt["f"]["path"], mb) in o]
                if ("field", "value") in o and not maps:
                    shared, how = True, "self.value flows into the new node's value"
                for (mb, mt) in maps:
                    clos = []
                    for x in mt["args"][1:]:
                        pl = op_place(x)
                        for (b2, si, it) in (f.defs().get(pl[0], []) if pl else []):
                            if si != "t" and it["rv"].get("k") == "agg" and it["rv"].get("agg") == "closure":
                                clos.append(it["rv"]["closure"])
                    for cp in clos:
                        for cb in c.get_all(cp):
                            g = Fn(cb)
                            og = g.origins(0, deep=True)
                            fresh = fresh or has_call_origin(og, r"Vec::<.*>::len$")
                            if ("arg", 2) in g.origins(0):
                                shared, how = True, "the closure passed to Option::%s returns the old entry index on some path" % mt["f"]["name"]
                    if not clos:
                        shared, how = True, "self.value is mapped by a function that could not be resolved"
                ck.ob("DEFUSE", f.path, "fresh-entry-slot-per-generation", fresh and not shared,
                      "the migrated node's value index is entries.len() taken before the push of the copied entry; the old index is only used to read the entry" if fresh and not shared else
                      "the migrated node can keep the OLD generation's entry index (%s): both generations then share one entry slot" % (how or "no fresh index from entries.len()"), f.loc(bi))

    marked_rules(ck)

    # ---- lookups descend only through make_owned: that call migrates a child list owned by an OLDER generation into the current
    # one (fresh nodes, fresh read-only entries). Following an already owned list directly hands out the older generation's
    # entry handles (a write through them lands in the checkpointed generation) and, one level further down, rewrites the older
    # node's child table with indices that a rollback truncates
    nlook = 0
    for n in ("get_entry", "iter"):
        f = getfn(ck, "sc", E, LL + "MutableTrie::" + n)
        if not f:
            continue
        reads = [(bi, t) for (bi, t) in f.calls(r"slice::<impl \[T\]>::binary_search_by$|ops::Index::index$") if "KeyIndexPair" in " ".join([t["f"].get("self") or ""] + (t["f"].get("gargs") or []))]
        via = [(bi, t) for (bi, t) in reads if has_call_origin(f.origins(t["args"][0], deep=True), r"low_level::make_owned$")]
        direct = f.calls(r"ChildrenCow::<.*>::get_owned(_mut)?$|ChildrenCow::get_owned(_mut)?$")
        nlook += len(reads)
        okd = len(reads) >= 1 and len(via) == len(reads) and not direct
        ck.ob("DEFUSE", f.path, "descends-only-through-make_owned", okd,
              "every child list the lookup follows comes out of make_owned (migrated to the current generation)" if okd else
              "the lookup follows a child list without make_owned (%d of %d child searches, %d direct get_owned): nodes and entries of an older generation are handed out in place" % (len(reads) - len(via), len(reads), len(direct)),
              f.loc(direct[0][0]) if direct else f.loc())
    ck.floor("DEFUSE", "child searches in get_entry/iter", nlook, 2)

    # ---- the shared trie is cut back to the caller's own generation before anything else is done with it: a generation that
    # was abandoned (rolled back) stays on the shared stack until the next `normalize(root)`, so every owner-side use of the
    # locked trie - in particular starting the next generation - must come after it
    API = E + "::v1::trie::api::"
    nuse = 0
    for p0 in sorted(c.paths()):
        if not p0.startswith(API + "MutableState::"):
            continue
        for b in c.get_all(p0):
            f = Fn(b)
            locks = [bi for (bi, t) in f.calls(r"trie::api::MutableStateInner::lock$")]
            if not locks:
                continue
            norms = []
            for (bi, t) in f.calls(r"low_level::MutableTrie::normalize$"):
                o = f.origins(t["args"][1]) if len(t["args"]) > 1 else set()
                if any(a[0] == "field" and a[1] == "root" for a in o):
                    norms.append(bi)
            uses = [(bi, t) for (bi, t) in f.calls(r"low_level::MutableTrie::[a-z_]+$") if not re.search(r"::(normalize|empty)$", t["f"]["path"])]
            nuse += 1
            ck.ob("DOM", f.path, "normalizes-to-own-generation", len(norms) >= 1,
                  "the locked shared trie is normalised to `inner.root`" if norms else "the shared trie is locked but never normalised to the caller's generation (`normalize(inner.root)`)", f.loc(locks[0]))
            for (bi, t) in uses:
                ok = any(f.dominates(nb, bi) and nb != bi for nb in norms)
                ck.ob("DOM", f.path, "normalized-before:" + t["f"]["path"].split("::")[-1], ok,
                      "normalize(inner.root) dominates the call" if ok else "`%s` runs on the shared trie without a preceding normalize(inner.root): changes of an abandoned generation are still on top and leak into what follows" % t["f"]["path"].split("::")[-1], f.loc(bi))
    ck.floor("DOM", "owner-side uses of the locked shared trie", nuse, 3)
    f = getfn(ck, "sc", E, API + "MutableState::make_fresh_generation")
    if f:
        ng_calls = f.calls(r"low_level::MutableTrie::new_generation$")
        aggs = [(bi, st["rv"]) for bi in sorted(f.reachable()) for st in f.stmts(bi) if st.get("rv", {}).get("k") == "agg" and st["rv"].get("adt", "").endswith("api::MutableStateInner")]
        # every handle the function returns was produced after a new generation was started on the shared trie (directly, or by
        # the function calling itself once the inner trie exists): a handle returned without it - e.g. a clone of `self` for a
        # state that had no inner trie yet - shares the caller's generation, and what is written through it is not rolled back
        rec = f.calls(r"api::MutableState::make_fresh_generation$")
        rets = [bi for bi in f.reachable() if f.term(bi)["k"] == "return"]
        bypass = sorted(set(rets) & f.reach_from([0], avoid={bi for (bi, _) in ng_calls} | {bi for (bi, _) in rec}))
        ck.ob("DOM", f.path, "every-returned-handle-follows-new_generation", bool(ng_calls) and not bypass,
              "every return is reached through new_generation (or through the function's own call on the initialised state)" if ng_calls and not bypass else
              "a return is reachable without starting a generation: the returned handle shares the caller's generation, its writes are visible to the caller after the inner call is abandoned", f.loc(bypass[0]) if bypass else f.loc())
        for (bi, rv) in aggs:
            if not any(f.dominates(nb, bi) for (nb, _) in ng_calls):
                continue        # the handle stored into `self` for a state that had no inner trie yet is generation 0, the literal root
            i = rv["fields"].index("root") if "root" in rv.get("fields", []) else 0
            o = f.origins(rv["ops"][i], deep=True)
            ok = ("field", "root") in o and ("lit", 1) in o and any(a[0] == "bin" and a[1].startswith("Add") for a in o)
            ck.ob("DEFUSE", f.path, "child-generation-is-root+1", ok, "the handle of the new generation carries root + 1" if ok else
                  "the handle returned for the new generation does not carry root + 1: it normalises the shared trie to the wrong generation", f.loc(bi))
    # and nothing but the owner starts generations
    ng = set()
    for p0 in sorted(c.paths()):
        for b in c.get_all(p0):
            f = Fn(b)
            if f.calls(r"low_level::MutableTrie::new_generation$"):
                ng.add(re.sub(r"::\{closure#\d+\}", "", p0))
    ck.ob("WHO", MT + "new_generation", "callers", ng == {API + "MutableState::make_fresh_generation"}, "generations are started by %s" % sorted(x.split("::v1::trie::")[-1] for x in ng), "")
