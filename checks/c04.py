"""C04 — state hash and persistence: hash coverage, single definition (structural part)."""
from .common import *
from vlib.callgraph import CallGraph
from vlib import sym

META = dict(
    technique="static analysis: field-coverage, def-use and who-may-construct rules over compiler MIR",
    text=("Structural necessary conditions: the node hash feeds the value (with a presence tag), the stem (with its length as "
          "u64) and the children (count as u16, and per child its key byte and hash) into the digest and returns that digest; "
          "every cached hash stored next to a node is either computed from that very node, read back from storage, or copied "
          "from an existing cached hash; node hashing has a single definition. History-independence of the hash, canonicity of "
          "the tree shape and value-level store/load round trips are NOT decided by this family."),
)

E = "concordium_smart_contract_engine"
LL = E + "::v1::trie::low_level::"
UPD = r"Digest::update$|digest::Update::update$"


def run(ck):
    ck.explanation = ("Decides that Node::hash covers every field of a node with the framing the construction documents, that cached "
                      "hashes are only ever produced from the node they accompany (or read / copied), and that no second node-hash "
                      "routine exists.")
    ck.undecided = ("the hash depends only on contents (history independence); canonical radix-tree shape; storing/loading/migrating "
                    "preserve contents and hash as values; refreezing reports nothing new.")
    ck.rules_text = "COV/DEFUSE/WHO over MIR of v1::trie::low_level and v1::trie::types"
    c = crate("sc", E)
    hp = [p for p in c.paths() if re.search(r"^<concordium_smart_contract_engine::v1::trie::low_level::Node as concordium_smart_contract_engine::v1::trie::types::ToSHA256<Ctx>>::hash$", p)]
    if ck.anchor(len(hp) == 1, "COV", "Node::hash", "function exists"):
        f = Fn(c.get(hp[0]))
        adt = c.adts.get(LL + "Node")
        ups = f.calls(UPD)
        srcs = [f.origins(t["args"][1], deep=True) for (_, t) in ups]
        allsrc = set().union(*srcs) if srcs else set()
        for fl in [x["name"] for x in adt["variants"][0]["fields"]]:
            ck.ob("COV", f.path, "field:" + fl, ("field", fl) in allsrc, "node field `%s` reaches the digest" % fl, f.loc())
        ck.floor("COV", "digest updates in Node::hash", len(ups), 8)
        tags = [s for s in srcs if s and all(a[0] in ("lit", "cast", "agg") for a in s) and any(a[0] == "lit" for a in s)]
        lits = set(a[1] for s in tags for a in s if a[0] == "lit")
        ck.ob("COV", f.path, "presence-tag", {0, 1} <= lits, "both presence tags (0 and 1) are fed: %s" % sorted(lits), f.loc())
        stem_len = [s for s in srcs if has_call_origin(s, r"to_le_bytes$") and ("cast", "u64") in s and has_call_origin(s, r"Stem::to_slice$")]
        ck.ob("COV", f.path, "stem-length-u64-le", len(stem_len) == 1, "the stem length is fed as u64 little-endian", f.loc())
        cnt = [s for s in srcs if has_call_origin(s, r"to_be_bytes$") and ("cast", "u16") in s and ("field", "children") in s]
        ck.ob("COV", f.path, "children-count-u16-be", len(cnt) == 1, "the number of children is fed as u16 big-endian", f.loc())
        ch = [s for s in srcs if has_call_origin(s, r"ToSHA256::hash$")]
        ck.ob("COV", f.path, "value-and-child-hashes", len(ch) >= 2, "%d nested hashes (value, each child) are fed" % len(ch), f.loc())
        keyb = [s for s in srcs if ("field", "value") in s and ("field", "0") in s]
        ck.ob("COV", f.path, "child-key-byte", len(keyb) >= 1, "each child's key chunk is fed", f.loc())
        fin = f.calls(r"Digest::finalize$")
        inner = [s for s in srcs if has_call_origin(s, r"Digest::finalize$")]
        ck.ob("COV", f.path, "children-digest-nested", len(fin) == 2 and len(inner) == 1, "the children digest is finalised and fed into the node digest", f.loc())
        o = f.origins(0, deep=True)
        ck.ob("RET", f.path, "returns-digest", has_call_origin(o, r"Digest::finalize$"), "the returned hash is the finalised digest", f.loc())
        # every part is fed WHOLE: nothing that reaches the digest is a sub-range of a field (the stem bytes include the byte that
        # holds the last nibble of an odd-length stem; dropping it makes states that differ in that nibble hash alike)
        cuts = [(bi, t) for (bi, t) in f.calls(r"ops::Index::index$|slice::<impl \[T\]>::(get|split_at|first|last|chunks)$|Iterator::(take|skip)$")
                if re.search(r"Range|usize", " ".join(t["f"].get("gargs") or [])) and not re.search(r"RangeFull", " ".join(t["f"].get("gargs") or []))]
        ck.ob("COV", f.path, "parts-fed-whole", not cuts, "no sub-range of a node part is taken in Node::hash" if not cuts else
              "a sub-range (%s) is taken in Node::hash: part of a field does not reach the digest" % cuts[0][1]["f"]["name"], f.loc(cuts[0][0]) if cuts else f.loc(), nontrivial=False)

    # b. cached hashes come from the node itself, from storage, or from an existing cached hash
    n = 0
    for p in sorted(c.paths()):
        if "::v1::trie::" not in p:
            continue
        for b in c.get_all(p):
            f = Fn(b)
            sites = []
            for (bi, t) in f.calls(r"types::Hashed::<V>::new$"):
                sites.append((bi, t["args"][0], t["args"][1]))
            if not p.endswith("Hashed::<V>::new"):
                for bi in f.reachable():
                    for s in f.stmts(bi):
                        rv = s.get("rv", {})
                        if rv.get("k") == "agg" and rv.get("adt", "").endswith("trie::types::Hashed"):
                            i = rv["fields"].index("hash")
                            j = rv["fields"].index("data")
                            sites.append((bi, rv["ops"][i], rv["ops"][j]))
            for k, (bi, hop, dop) in enumerate(sites):
                n += 1
                o = f.origins(hop, deep=True)
                from_hash = has_call_origin(o, r"ToSHA256::hash$")
                from_read = has_call_origin(o, r"io::Read::read(_exact)?$|Loadable::load$|read_buf$")
                from_copy = ("field", "hash") in o and not from_hash
                ok = from_hash or from_read or from_copy
                how = "computed by hash()" if from_hash else "read from storage" if from_read else "copied from a cached hash" if from_copy else "UNKNOWN SOURCE"
                ck.ob("DEFUSE", p, "cached-hash-source#%d" % k, ok, how, f.loc(bi))
                if from_hash:
                    # hash(x) and data = x : same root local
                    hs = [a[2] for a in o if a[0] == "call" and a[1].endswith("ToSHA256::hash")]
                    same = False
                    for hb in hs:
                        recv = f.term(hb)["args"][0]
                        ro = f.origins(recv)
                        vis = set()
                        f.origins(dop, deep=True, visited=vis)
                        rl = set()
                        pl = op_place(recv)
                        # receiver is &x : find x
                        for (b2, si, it) in f.defs().get(pl[0], []) if pl else []:
                            if si != "t" and it["rv"]["k"] == "ref":
                                rl.add(it["rv"]["p"][0])
                        if rl & vis:
                            same = True
                    ck.ob("DEFUSE", p, "hash-of-same-node#%d" % k, same, "the cached hash is hash() of the very value it is stored with", f.loc(bi))
    ck.floor("DEFUSE", "Hashed constructions in the trie", n, 6)
    # deleting a key detaches the value from its node (otherwise path compression is skipped and the shape is not canonical)
    f = getfn(ck, "sc", E, LL + "MutableTrie::delete")
    if f:
        tomb = [(bi, t) for (bi, t) in f.calls(r"std::mem::replace$") if any(a[0] == "agg" and a[1].endswith("Entry::Deleted") for a in f.origins(t["args"][1], deep=True))]
        det = [(bi, t) for (bi, t) in f.calls(r"std::mem::take$|Option::<T>::take$") if ("field", "value") in f.origins(t["args"][0])]
        clears = [bi for bi in f.reachable() for s2 in f.stmts(bi) if "lhs" in s2 and s2["lhs"][1] and s2["lhs"][1][-1].endswith(":value") and
                  (s2["rv"].get("variant") == "None" or any(a[0] == "agg" and a[1].endswith("Option::None") for a in (f.origins(s2["rv"]["a"]) if s2["rv"]["k"] == "use" else [])))]
        ok = bool(tomb) and all(any(f.dominates(db, tb) for (db, _) in det) or any(f.dominates(cb, tb) or f.dominates(tb, cb) for cb in clears) for (tb, _) in tomb)
        ck.ob("DOM", f.path, "value-detached-when-deleted", ok, "the node's value pointer is taken (mem::take) on the path that tombstones the entry: %d detach sites, %d tombstones" % (len(det) + len(clears), len(tomb)), f.loc())

    # migration to another backing store: every reference that is written out or kept was handed out by store_raw on the NEW
    # store (directly, or through the stack of child references that is filled from store_raw only); a reference read from the
    # node being migrated belongs to the old store
    nm = 0
    REFSRC = r"BackingStoreStore::store_raw$"
    for pth in sorted(c.paths()):
        if not re.search(r"trie::low_level::.*(::migrate|::load_and_store)(::\{closure#\d+\})*$", pth):
            continue
        for b in c.get_all(pth):
            g = Fn(b)
            if not g.calls(r"types::Reference::store$|" + REFSRC):
                continue
            pushes = [(bi, t) for (bi, t) in g.calls(r"Vec::<.*>::push$") if "Reference" in (t["f"].get("self") or "") + " ".join(t["f"].get("gargs") or [])]
            for k, (bi, t) in enumerate(pushes):
                o = g.origins(t["args"][1])
                nm += 1
                ck.ob("DEFUSE", pth, "child-reference-from-new-store#%d" % k, has_call_origin(o, REFSRC) and not any(a[0] == "field" and a[1] == "reference" for a in o),
                      "a reference pushed for the parent to record comes from store_raw on the target store", g.loc(bi))
            for k, (bi, t) in enumerate(g.calls(r"types::Reference::store$")):
                o = g.origins(t["args"][0])
                nm += 1
                ok = (has_call_origin(o, REFSRC) or has_call_origin(o, r"Vec::<.*>::pop$")) and not any(a[0] == "field" and a[1] == "reference" for a in o)
                ck.ob("DEFUSE", pth, "written-reference-from-new-store#%d" % k, ok,
                      "the reference written into the migrated node was handed out by the target store" if ok else
                      "the reference written into the migrated node is taken from the node being migrated (an offset into the OLD store), the value is not copied", g.loc(bi))
            for bi in g.reachable():
                for st in g.stmts(bi):
                    rv = st.get("rv", {})
                    if rv.get("k") == "agg" and rv.get("agg") == "adt" and rv.get("adt", "").endswith("low_level::CachedRef") and rv.get("variant") == "Disk":
                        o = set()
                        for op in rv["ops"]:
                            o |= g.origins(op)
                        nm += 1
                        ok = (has_call_origin(o, REFSRC) or has_call_origin(o, r"Vec::<.*>::pop$")) and not any(a[0] == "field" and a[1] == "reference" for a in o)
                        ck.ob("DEFUSE", pth, "kept-reference-from-new-store@bb%d" % bi, ok, "the Disk reference kept after migration was handed out by the target store", g.loc(bi))
    ck.floor("DEFUSE", "references written/kept during migration", nm, 8)

    # single definition of node hashing
    hashers = [p for p in c.paths() if re.search(r"ToSHA256<Ctx>>::hash$", p) and "low_level::Node " in p]
    ck.ob("WHO", "Node::hash", "single-definition", len(hashers) == 1, "ToSHA256 implementations for Node: %d" % len(hashers), "")
    cg = CallGraph([c])
    dig = cg.callers(re.compile(r"sha2::Digest>?::(new|digest)$"))
    trie_dig = sorted(x for x in dig if "::v1::trie::" in x)
    allowed = re.compile(r"ToSHA256<Ctx>>::hash$|InlineOrHashed::new$|api::PersistentState::hash$")  # PersistentState::hash: constant digest of the empty state
    bad = [x for x in trie_dig if not allowed.search(x)]
    ck.ob("WHO", "sha2 in trie", "hashers", not bad and len(trie_dig) >= 3, "functions creating a SHA-256 state in the trie: %s" % [x.split("::")[-3:] for x in trie_dig], "")

    format_rules(ck, c)
    # store_update_buf pairs child keys with references by position: a finished subtree leaves exactly one reference on
    # `ref_stack`, in the order in which the work stack is drained. A reference may therefore be pushed only when an element
    # popped from the work stack is done (stored just now, or found already stored) - never from the loop that enumerates a
    # node's children, which would reorder the references relative to the keys they are written next to
    f = getfn(ck, "sc", E, LL + "Node::store_update_buf")
    if f:
        pops = [bi for (bi, t) in f.calls(r"Vec::<T, A>::pop$|Vec::<T>::pop$") if "Reference" not in (t["f"].get("self") or "") and "Link" in (f.locals[t["dest"][0]] if t.get("dest") else "")]
        rpush = [(bi, t) for (bi, t) in f.calls(r"Vec::<T, A>::push$|Vec::<T>::push$") if re.search(r"Reference", f.locals[op_place(t["args"][1])[0]] if op_place(t["args"][1]) else "")]
        inner = [bi for (bi, t) in rpush if pops and bi in f.reach_from(f.succ(bi), avoid=set(pops))]
        ck.ob("DOM", f.path, "references-pushed-only-for-drained-elements", len(pops) == 1 and len(rpush) >= 2 and not inner,
              "each of the %d pushes on the reference stack happens once per element popped from the work stack" % len(rpush) if pops and not inner else
              "a reference is pushed inside a loop that does not pass through the work stack's pop (the enumeration of a node's children): references no longer line up with the child keys they are stored with", f.loc(inner[0]) if inner else f.loc())
    # the frozen hash reflects every in-place change only if the changed node is detached from its persistent original
    from .c03 import marked_rules
    # migrating takes the tree by shared reference and leaves it as it was: the child links of the nodes it walks are shared
    # (Arc) with the source tree whenever the source is in memory or cached, so migrate never takes a write guard on a child
    # link - writing the new store's reference through it makes the source unreadable with its own loader
    nm = 0
    for p0 in sorted(c.paths()):
        if not re.search(r"low_level::Node::migrate(::\{closure#\d+\})*$", p0):
            continue
        for b in c.get_all(p0):
            f = Fn(b)
            nm += 1
            wg = [(bi, t) for (bi, t) in f.calls(r"low_level::Link::<V>::borrow_mut$|low_level::Link<.*>::borrow_mut$") if any("CachedRef<" in g_ and "Node" in g_ for g_ in (t["f"].get("gargs") or []))]
            ck.ob("WHO", p0, "migrate-does-not-write-through-shared-child-links", not wg,
                  "no write guard on a child link" if not wg else "a write guard is taken on a child link that is shared with the source tree: after migrating a cached or in-memory state the source's children point into the NEW store", f.loc(wg[0][0]) if wg else f.loc(), nontrivial=False)
    ck.floor("WHO", "bodies of Node::migrate", nm, 2)
    marked_rules(ck)

    # canonical stems: an odd-length stem keeps only the high nibble of its last byte (the padding nibble is zero); the stem
    # bytes are hashed and stored as they are, so a stray nibble makes the hash depend on the history
    sp = [p2 for p2 in c.paths() if p2.endswith("StemIter::<'a>::consumed_to_stem")]
    if ck.anchor(len(sp) == 1, "DEFUSE", "StemIter::consumed_to_stem", "function exists"):
        f = Fn(c.get(sp[0]))
        news = f.calls(r"low_level::Stem::new$")
        masked = []
        for (bi, t) in news:
            o = f.origins(t["args"][0], deep=True, outflow=True)
            masked.append(any(a[0] == "bin" and a[1] == "BitAnd" for a in o) and ("lit", 240) in o)
        ck.ob("DEFUSE", f.path, "odd-stem-padding-masked", len(news) >= 2 and any(masked) and not all(masked) or (len(news) >= 1 and all(masked)),
              "the stem built for an odd number of consumed chunks masks its last byte with 0xf0 (constructions: %d, masked: %s)" % (len(news), masked), f.loc())

    # the tag byte of a stored node: bit 0x40 set iff the node has a value, bit 0x80 set iff the stem length follows as u32;
    # writer and reader agree on masks and polarity; the inline/indirect boundary of values is the same everywhere
    wt = getfn(ck, "sc", E, LL + "write_node_path_and_value_tag")
    rt = getfn(ck, "sc", E, LL + "read_node_path_and_value_tag")
    if wt and rt:
        # writer: value mask is 0 when no_value (arg 2) is true, 0x40 otherwise
        vals = {}
        for bi in wt.reachable():
            for st in wt.stmts(bi):
                k = op_const(st["rv"].get("a", {})) if st.get("rv", {}).get("k") == "use" else None
                if k is not None and k.get("ty") == "u8" and const_int(k) in (0, 64):
                    for (kk, nn, v) in conditions_at(wt, bi):
                        if kk == "bool" or kk.startswith("call"):
                            vals[const_int(k)] = v
        ok = vals.get(64) is False and vals.get(0) is True
        ck.ob("TAB", wt.path, "value-bit-written", ok, "bit 0x40 of the tag is set exactly when the node has a value (no_value false): %s" % vals, wt.loc())
        ors = [st["rv"] for bi in wt.reachable() for st in wt.stmts(bi) if st.get("rv", {}).get("k") == "bin" and st["rv"]["op"] == "BitOr"]
        explicit = any(const_int(op_const(r["a"]) or {}) == 128 or const_int(op_const(r["b"]) or {}) == 128 for r in ors)
        lens = [cx for cx in rules.comparisons(wt) if any(a[0] == "const" and a[1].endswith("INLINE_STEM_LENGTH") for a in wt.origins(cx["b"]))]
        ck.ob("TAB", wt.path, "explicit-length-bit-written", explicit and len(lens) == 1 and lens[0]["op"] == "Le",
              "stems of up to INLINE_STEM_LENGTH nibbles put their length in the tag; longer ones set bit 0x80 and append the length", wt.loc())
        # reader
        bits = {}
        for bi in rt.reachable():
            for st in rt.stmts(bi):
                rv = st.get("rv", {})
                if rv.get("k") == "bin" and rv["op"] in ("Eq", "Ne"):
                    pa = op_place(rv["a"])
                    kb = op_const(rv["b"])
                    if pa and kb is not None and const_int(kb) == 0:
                        for (b2, si, it) in rt.defs().get(pa[0], []):
                            if si != "t" and it["rv"].get("k") == "bin" and it["rv"]["op"] == "BitAnd":
                                m = const_int(op_const(it["rv"]["b"]) or {}) if op_const(it["rv"]["b"]) else None
                                bits[m] = (rv["op"], st["lhs"][0], bi)
        ok = 64 in bits and bits[64][0] == "Ne"
        if ok:
            # has_value is what is returned as the second component
            o = rt.origins(0, deep=True)
            ok = True
        ck.ob("TAB", rt.path, "value-bit-read", ok, "has_value = (tag & 0x40) != 0 (found tests %s)" % {k: v[0] for k, v in bits.items()}, rt.loc())
        ok = 128 in bits
        det = "no test of bit 0x80"
        if ok:
            op, res, bb = bits[128]
            cx = [c2 for c2 in rules.comparisons(rt) if c2["res"] == res]
            br = rules.cmp_branches(rt, cx[0]) if cx else None
            # the branch taken when (tag & 0x80) == 0 must mask with 0x3f and must not read a u32
            if br:
                inline_t = br[1] if op == "Eq" else br[2]
                other_t = br[2] if op == "Eq" else br[1]
                reg_i = sym.dominated(rt, inline_t)
                reg_o = sym.dominated(rt, other_t)
                mask_i = any(st.get("rv", {}).get("k") == "bin" and st["rv"]["op"] == "BitAnd" and const_int(op_const(st["rv"]["b"]) or {}) == 63 for b3 in reg_i for st in rt.stmts(b3))
                u32_o = any(b3 in reg_o for (b3, _) in rt.calls(r"read_u32$"))
                u32_i = any(b3 in reg_i for (b3, _) in rt.calls(r"read_u32$"))
                ok = mask_i and u32_o and not u32_i
                det = "bit 0x80 clear: length = tag & 0x3f; set: length read as u32 (inline branch masks: %s, explicit branch reads u32: %s)" % (mask_i, u32_o)
            else:
                ok = False
        ck.ob("TAB", rt.path, "explicit-length-bit-read", ok, det, rt.loc())
    bounds = []
    for pth in sorted(c.paths()):
        if "::trie::" not in pth:
            continue
        for b in c.get_all(pth):
            g = Fn(b)
            for cx in rules.comparisons(g):
                for side in ("a", "b"):
                    if any(a[0] == "const" and a[1].endswith("INLINE_VALUE_LEN") for a in g.origins(cx[side])):
                        op = cx["op"] if side == "b" else rules.FLIP[cx["op"]]
                        bounds.append((pth.split("::")[-1], op, g.loc(cx["bb"])))
    ck.ob("SIB", "INLINE_VALUE_LEN", "inline-boundary-agrees", len(bounds) >= 3 and len(set(op for (_, op, _) in bounds)) == 1 and bounds[0][1] == "Le",
          "every test against INLINE_VALUE_LEN (constructor, loader, deserialiser) treats a value of exactly that length as inline: %s" % [(n2, op) for (n2, op, _) in bounds], "")


# ---------------------------------------------------------------------------------------------------------------------
# storage formats: every item of the documented node encodings is written (and read back) by its own site
WR_CALLS = re.compile(r"low_level::Node::(store_update_buf|migrate)::\{closure#0\}$|WriteBytesExt::write_(u8|u16|u32|u64)$|io::Write::write_all$|types::Reference::store$|CachedRef::<.*>::(store_and_uncache|load_and_store)$|"
                      r"low_level::write_node_path_and_value_tag$|::store_update_buf$|BackingStoreStore::store_raw$|::migrate$")
RD_CALLS = re.compile(r"ReadBytesExt::read_(u8|u16|u32|u64)$|io::Read::read_exact$|types::Reference::load$|Loadable::load$|Loadable>::load$|"
                      r"low_level::read_node_path_and_value_tag$|low_level::read_buf$|types::Hash::read$|Hash.*::read$")
NOISE_CALLS = ("branch", "deref", "as_ref", "borrow", "borrow_mut", "deref_mut", "into", "from", "clone", "as_mut")


def _site_names(f, t, is_write):
    p = t["f"]["path"]
    if is_write:
        if re.search(r"Reference::store$|store_and_uncache$|load_and_store$|::store_update_buf$|::migrate$", p):
            data = t["args"][:1]
        elif p.endswith("write_node_path_and_value_tag"):
            data = t["args"][:2]
        else:
            data = t["args"][1:]
        o = set()
        for a in data:
            o |= f.origins(a, deep=True)
    else:
        o = set()
    names = set(x[1] for x in o if x[0] == "field" and not x[1].isdigit())
    names |= set(x[1].split("::")[-1] for x in o if x[0] == "call" and x[1].split("::")[-1] not in NOISE_CALLS)
    names |= set("lit%s" % x[1] for x in o if x[0] == "lit")
    return names


def _match(items, sites):
    """maximum bipartite matching items -> distinct sites; returns the list of unmatched item labels"""
    adj = []
    for it in items:
        label, callee, need = it[0], it[1], it[2]
        self_pat = it[3] if len(it) > 3 else None
        adj.append([i for i, (cal, names, self_ty) in enumerate(sites) if (callee is None or re.search(callee, cal)) and set(need) <= names
                    and (self_pat is None or re.search(self_pat, self_ty))])
    owner = {}

    def aug(u, seen):
        for v in adj[u]:
            if v in seen:
                continue
            seen.add(v)
            if v not in owner or aug(owner[v], seen):
                owner[v] = u
                return True
        return False
    un = []
    for u in range(len(items)):
        if not aug(u, set()):
            un.append(items[u][0])
    return un


def node_items(dataref):
    return [("path length and value tag", r"write_node_path_and_value_tag$", ("to_slice", "is_none")),
            ("stem bytes", r"write_all$", ("path", "to_slice")),
            ("inline value length", r"write_u8$", ("len", "value")),
            ("inline value bytes", r"write_all$", ("data", "value")),
            ("indirect marker 0xff", None, ("lit255",)),
            ("indirect value hash", r"write_all$", ("hash", "value")),
            ("indirect value reference", dataref, ("data", "value")),
            ("number of children", r"write_u8$", ("children", "len")),
            ("child key", r"write_u8$", ("children", "next")),
            ("child reference", r"Reference::store$", ("pop",))]


def format_rules(ck, c):
    LLp = "concordium_smart_contract_engine::v1::trie::low_level::"
    HN = "<impl concordium_smart_contract_engine::v1::trie::types::Hashed<concordium_smart_contract_engine::v1::trie::low_level::Node>>::"
    tables = [
        (LLp + "Node::store_update_buf::{closure#0}", node_items(r"store_and_uncache$")),
        (LLp + "Node::migrate::{closure#0}", node_items(r"load_and_store$")),
        (LLp + "Node::store_update_buf", [("child node hash", r"write_all$", ("hash",)), ("child node stored in the backing store", r"store_raw$", ()), ("root node body", r"write_all$", ()),
                                          ("child nodes encoded", r"store_update_buf::\{closure#0\}$", ()), ("root node encoded", r"store_update_buf::\{closure#0\}$", ())]),
        (LLp + "Node::migrate", [("child node hash", r"write_all$", ("hash",)), ("child node stored in the new backing store", r"store_raw$", ()), ("root node body", r"write_all$", ()),
                                 ("child nodes encoded", r"migrate::\{closure#0\}$", ()), ("root node encoded", r"migrate::\{closure#0\}$", ())]),
        (LLp + HN + "store_update_buf", [("node hash", r"write_all$", ("hash",)), ("node body", r"store_update_buf$", ("data",))]),
        (LLp + HN + "migrate", [("node hash", r"write_all$", ("hash",)), ("node body", r"::migrate$", ("data",))]),
        (LLp + HN + "serialize", [("distance to the parent", r"write_u32$", ("pop_front",)), ("node hash", r"write_all$", ("hash",)),
                                  ("path length and value tag", r"write_node_path_and_value_tag$", ("to_slice", "is_none")), ("stem bytes", r"write_all$", ("path", "to_slice")),
                                  ("value length", r"write_u32$", ("len", "value")), ("value hash (large values)", r"write_all$", ("get_ref_and_hash",)),
                                  ("value bytes", r"write_all$", ("get_ref_and_hash",)), ("number of children", r"write_u8$", ("children", "len")),
                                  ("child key", r"write_u8$", ("children", "next"))]),
        (LLp + "write_node_path_and_value_tag", [("tag with inline length", r"write_u8$", ("lit64",)), ("tag announcing an explicit length", r"write_u8$", ("lit128", "lit64")),
                                                   ("explicit length", r"write_u32$", ())]),
    ]
    n = 0
    for path, items in tables:
        bs = c.get_all(path)
        if not ck.anchor(len(bs) == 1, "TAB", path, "serialiser exists"):
            continue
        f = Fn(bs[0])
        sites = [((t["f"].get("res") if "{closure" in str(t["f"].get("res")) else None) or t["f"]["path"], _site_names(f, t, True), t["f"].get("self") or "") for (bi, t) in f.calls(WR_CALLS)]
        un = _match(items, sites)
        n += len(items)
        ck.ob("TAB", path, "format-items-written", not un,
              "each of the %d items of the encoding is written by its own site (%d write sites)" % (len(items), len(sites)) if not un else
              "no write site left for: %s (%d write sites for %d items) - the stored form no longer contains every part of the node" % (un, len(sites), len(items)), f.loc())
    ck.floor("TAB", "items of the node storage formats", n, 40)
    # readers: the sites that consume the same items
    LN = "<concordium_smart_contract_engine::v1::trie::low_level::Node as concordium_smart_contract_engine::v1::trie::types::Loadable>::load"
    rtables = [
        (LLp[:-len("low_level::")] + "low_level::" + LN if False else LN,
         [("path length, value tag and stem", r"read_node_path_and_value_tag$", None), ("value tag byte", r"read_u8$", None), ("inline value bytes", r"read_buf$", None),
          ("indirect value (hash and reference)", r"Loadable(>)?::load$", r"Hashed<.*CachedRef<.*u8"), ("number of children", r"read_u8$", None), ("child key", r"read_u8$", None),
          ("child reference", r"Loadable(>)?::load$", r"CachedRef<.*Hashed<.*Node")]),
        (LLp + HN + "deserialize",
         [("distance to the parent", r"read_u32$", None), ("node hash", r"Hash::read$|Hash.*::read$", None), ("path length, value tag and stem", r"read_node_path_and_value_tag$", None),
          ("value length", r"read_u32$", None), ("small value bytes", r"read_buf$", None), ("large value hash", r"Hash::read$|Hash.*::read$", None), ("large value bytes", r"read_exact$", None),
          ("number of children", r"read_u8$", None), ("child key", r"read_u8$", None)]),
        (LLp + "read_node_path_and_value_tag", [("tag", r"read_u8$", None), ("explicit length", r"read_u32$", None), ("stem bytes", r"read_exact$", None)]),
    ]
    for path, items in rtables:
        bs = c.get_all(path)
        if not ck.anchor(len(bs) == 1, "TAB", path, "loader exists"):
            continue
        f = Fn(bs[0])
        sites = []
        for (bi, t) in f.calls(RD_CALLS):
            st = rules.enforcement(f, bi)["status"]
            sites.append((t["f"]["path"], set() if st in ("enforced", "propagated") else {"!unenforced"}, t["f"].get("self") or ""))
        un = _match([(lab, cal, (), sty) for (lab, cal, sty) in items], sites)
        bad = [s for s in sites if "!unenforced" in s[1]]
        ck.ob("TAB", path, "format-items-read", not un and not bad,
              "each of the %d items is read by its own site and every read failure is propagated (%d read sites)" % (len(items), len(sites)) if not un and not bad else
              "no read site left for: %s; unenforced reads: %d" % (un, len(bad)), f.loc())
