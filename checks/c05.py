"""C05 — on-chain binary encodings: writer/reader symmetry, canonical forms, exact consumption, bounded allocation."""
from .common import *
from .codec import *

META = dict(
    technique="static analysis: codec-token symmetry of writer/reader pairs, tag-totality, comparison-polarity, bitmap-canonicity and bounded-allocation sweeps over compiler MIR",
    text=("Structural necessary conditions: for every Serial/Deserial pair in concordium_base (hand-written and derived) the ordered "
          "sequence of codec steps (types and widths, per enum variant: tag literal, constructed variant and payload steps) agrees "
          "between writer and reader where the pair is within the straight-line abstraction; every switch on an integer read from the "
          "input sends unknown values to a rejecting return; ordered maps and sets reject unless keys strictly increase; optional-field "
          "bitmaps reject undefined bits; declared lengths are compared with the bytes consumed; every pre-allocation in "
          "decode-reachable code is bounded (constant, min with a constant, at most 16-bit reads, bounded source type or a dominating "
          "enforced bound); no unwrap/expect on input-derived values. Value-level round-trip equality is NOT decided."),
)

CB = "concordium_base"
# pairs whose asymmetry is intended, with the reason
SYM_EXCEPTIONS = {}
ERR_EXCEPTIONS = {
    "<[T; N] as concordium_base::common::serialize::Deserial>::deserial": "try_into of a vector into which exactly N elements were pushed",
}


def _mask_bit(f, op):
    """k when the operand is the constant 1 << k (literal, or `Shl(1, k)` of literals), else None"""
    k = op_const(op)
    if k is not None:
        v = const_int(k)
        return (v.bit_length() - 1) if v and v & (v - 1) == 0 else None
    p = op_place(op)
    for _ in range(4):
        if p is None or p[1]:
            return None
        ds = f.defs().get(p[0], [])
        if len(ds) != 1 or ds[0][1] == "t":
            return None
        rv = ds[0][2]["rv"]
        if rv.get("k") == "use":
            k = op_const(rv["a"])
            if k is not None:
                v = const_int(k)
                return (v.bit_length() - 1) if v and v & (v - 1) == 0 else None
            p = op_place(rv["a"])
            continue
        if rv.get("k") == "bin" and rv["op"].startswith("Shl"):
            ka, kb = op_const(rv["a"]), op_const(rv["b"])
            if ka is not None and kb is not None and const_int(ka) == 1:
                return const_int(kb)
        return None
    return None


def _fields_set_in(f, region):
    """names of the fields / user variables that are given a `Some(..)` inside the region"""
    out = set()
    vn = f.names()
    somes = set()
    for bi in region:
        for st in f.stmts(bi):
            if "lhs" in st and st["rv"].get("k") == "agg" and st["rv"].get("variant") == "Some" and not st["lhs"][1]:
                somes.add(st["lhs"][0])

    def name_of(l, proj):
        if proj:
            m = re.search(r":([a-z_][a-z_0-9]*)$", str(proj[-1]))
            return m.group(1) if m else None
        return vn.get(l)
    for bi in region:
        for st in f.stmts(bi):
            if "lhs" not in st:
                continue
            l, proj = st["lhs"]
            rv = st["rv"]
            src = op_place(rv.get("a")) if rv.get("k") == "use" else None
            if (rv.get("k") == "agg" and rv.get("variant") == "Some") or (src and not src[1] and src[0] in somes):
                nm = name_of(l, proj)
                if nm:
                    out.add(nm)
    return out


def run(ck):
    ck.explanation = ("Decides writer/reader agreement of codec steps for %s pairs, tag totality of every input-driven switch, strict "
                      "ordering of maps/sets, bitmap canonicity, exact consumption at declared lengths and bounded pre-allocation in "
                      "everything reachable from a Deserial implementation." % CB)
    ck.undecided = ("decode(encode(v)) == v and encode(decode(b)) == b as value equalities; termination; general panic-freedom "
                    "(indexing with computed indices); pairs outside the straight-line/variant abstraction (listed).")
    ck.rules_text = "SYM/TAB(tag totality)/CMP/BITMAP/ALLOC/ERR over MIR of concordium_base (all Serial/Deserial impls incl. derive-generated)"
    c = crate("rs", CB)
    ws, rs = pairs(c, r"common::serialize::Serial$", r"common::serialize::Deserial$")
    ck.floor("SYM", "Serial/Deserial pairs", len(set(ws) & set(rs)), 317)
    sym_sweep(ck, c, ws, rs, 271, 111, exceptions=SYM_EXCEPTIONS)

    # ---- tag totality
    tag_totality(ck, rs, 32)

    # ---- strict ordering of maps and sets
    S = CB + "::common::serialize::"
    for name in ("deserial_map_no_length", "deserial_set_no_length"):
        strict_order(ck, "rs", CB, S + name)

    # ---- specific canonical-form comparisons
    T = CB + "::transactions::"
    f = getfn(ck, "rs", CB, "<" + T + "PayloadSize as concordium_base::common::serialize::Deserial>::deserial")
    if f:
        cmp_rejecting(ck, f, [("call", r"Get::get$")], [("const", r"MAX_PAYLOAD_SIZE$")], "Gt", "size>MAX_PAYLOAD_SIZE-rejected")

    # ---- bitmap canonicity
    nb = 0
    for ty, b in sorted(rs.items()):
        f = Fn(b)
        bm = sweeps.bitmap_locals(f)
        for l, ent in sorted(bm.items()):
            if len(ent["tests"]) < 2:
                continue
            nb += 1
            nm = f.names().get(l, "_%d" % l)
            if ent["rejecting"]:
                ck.ob("BITMAP", f.path, "bitmap-raw-value-tested:%s#%d" % (nm, nb), any(ent.get("raw", [])),
                      "the undefined-bits test looks at the value as read from the input" if any(ent.get("raw", [])) else
                      "the undefined-bits test looks at a copy that was already masked: it can never fail, undefined bits are silently dropped", "%s:%d" % (f.b["file"], ent["line"]))
            ck.ob("BITMAP", f.path, "bitmap:%s@L%d" % (nm, 0 if True else ent["line"]) + ("#%d" % nb),
                  len(ent["rejecting"]) >= 1,
                  "%d bit tests on an input-read integer; %d rejecting comparisons on its bits (undefined bits must be refused)"
                  % (len(ent["tests"]), len(ent["rejecting"])), "%s:%d" % (f.b["file"], ent["line"]))
    # presence bits: a field is read exactly on the branch taken when its bit is SET (the writer sets the bit when the field
    # is present); a flipped test reads the field when it is absent
    npb = 0
    rbits = {}
    for ty, b in sorted(rs.items()):
        f = Fn(b)
        bm = sweeps.bitmap_locals(f)
        if not any(len(e["tests"]) >= 2 for e in bm.values()):
            continue
        for cx in rules.comparisons(f):
            if cx["kind"] != "bin" or cx["op"] not in ("Eq", "Ne"):
                continue
            kb = op_const(cx["b"])
            if kb is None or const_int(kb) != 0:
                continue
            pa = op_place(cx["a"])
            if pa is None:
                continue
            mask = None
            for (b2, si, it) in f.defs().get(pa[0], []):
                if si != "t" and it["rv"].get("k") == "bin" and it["rv"]["op"] == "BitAnd":
                    r0 = rules.root_local(f, it["rv"]["a"])
                    if r0 is not None and not r0[1] and r0[0] in bm and len(bm[r0[0]]["tests"]) >= 2:
                        mo = f.origins(it["rv"]["b"])
                        lits = [a[1] for a in mo if a[0] == "lit"]
                        mask = lits
                        maskop = it["rv"]["b"]
            if mask is None:
                continue
            br = rules.cmp_branches(f, cx)
            if br is None:
                continue
            sb, tt, ft = br
            if tt in f.reject_region() or ft in f.reject_region():
                continue        # the undefined-bits refusal, decided above
            set_t, clr_t = (tt, ft) if cx["op"] == "Ne" else (ft, tt)
            rd = lambda region: [bi for (bi, t) in f.calls(sweeps.READ) if bi in region] + [bi for (bi, t) in f.calls(r"serialize::Get::get$|Deserial::deserial$|deserial_[a-z_]+$") if bi in region]
            reg_set = sym.dominated(f, set_t)
            reg_clr = sym.dominated(f, clr_t) - reg_set if clr_t != set_t else set()
            if not rd(reg_set) and not rd(reg_clr):
                continue        # not a presence bit (e.g. the undefined-bits test)
            npb += 1
            # which field does this bit announce (for the writer/reader agreement below)
            bitno = _mask_bit(f, maskop)
            if bitno is not None:
                for fldname in _fields_set_in(f, reg_set):
                    rbits.setdefault(ty, {}).setdefault(bitno, set()).add(fldname)
            ok = bool(rd(reg_set)) and not [x for x in rd(reg_clr) if x not in reg_set and not f.dominates(set_t, x)]
            # blocks after the join are dominated by neither branch, so only the branch-private blocks count
            ck.ob("BITMAP", f.path, "presence-bit-polarity@bb%d" % cx["bb"], ok,
                  "the field is read on the branch taken when the bit is set" if ok else "the field is read on the branch taken when the bit is CLEAR (test `%s 0` flipped)" % cx["op"], f.loc(cx["bb"]))
    ck.floor("BITMAP", "presence-bit tests", npb, 12)
    # writer and reader agree on WHICH bit announces which field: the writer's `set_if(k, data.<field>.is_some())` against
    # the reader's `if bitmap & (1 << k) != 0 { <field> = Some(read) }`
    nmap = 0
    for ty in sorted(rbits):
        if ty not in ws:
            continue
        w = Fn(ws[ty])
        wbits = {}
        for g in [w] + [Fn(b2) for p2 in sorted(c.paths()) if p2.startswith(w.path + "::{closure") for b2 in c.get_all(p2)]:
            for bi in sorted(g.reachable()):
                for st in g.stmts(bi):
                    rv = st.get("rv", {})
                    if rv.get("k") == "agg" and rv.get("agg") == "tuple" and len(rv["ops"]) == 2:
                        k0 = op_const(rv["ops"][0])
                        if k0 is None or const_int(k0) is None:
                            continue
                        o = g.origins(rv["ops"][1], deep=True)
                        if has_call_origin(o, r"Option::<T>::is_some$"):
                            flds = [a[1] for a in g.origins(rv["ops"][1], deep=True) if a[0] == "field" and not a[1].isdigit() and a[1] not in ("data", "pointer")]
                            for fl in flds:
                                wbits.setdefault(const_int(k0), set()).add(fl)
        if not wbits:
            continue
        nmap += 1
        diff = {k: (sorted(wbits.get(k, ())), sorted(rbits[ty].get(k, ()))) for k in sorted(set(wbits) | set(rbits[ty])) if wbits.get(k, set()) != rbits[ty].get(k, set())}
        ck.ob("BITMAP", ty, "presence-bits-announce-the-same-fields", not diff,
              "writer and reader use the same bit for every optional field (%d bits)" % len(wbits) if not diff else
              "bit -> field differs between writer and reader: %s" % {k: {"writer": v[0], "reader": v[1]} for k, v in diff.items()}, w.loc())
    ck.floor("BITMAP", "types with a writer/reader presence-bit map", nmap, 1)
    ck.floor("BITMAP", "optional-field bitmaps", nb, 3)

    # ---- exact consumption of a declared length: `read`, `read_to_end`, `read_to_string` (also behind `take(l)`) deliver UP TO
    # the requested amount; their count must be compared with the declared length (the repo's idiom: UpdateInstruction).
    # `read_exact` needs no such test
    nsr = 0
    for p0 in sorted(c.paths()):
        if re.search(r"::tests?::|::test_", p0):
            continue
        for b in c.get_all(p0):
            f = Fn(b)
            for (bi, t) in f.calls(r"(^|::)Read::(read|read_to_end|read_to_string)$"):
                nsr += 1
                fw = f.forward({t["dest"][0]})
                ok = False
                for cx in rules.comparisons(f):
                    if cx["kind"] != "bin":
                        continue
                    la, lb = (op_place(cx["a"]) or [None])[0], (op_place(cx["b"]) or [None])[0]
                    if la in fw or lb in fw:
                        rel, d = rules.cmp_rejects(f, cx)
                        if rel in ("Ne", "Lt", "Gt"):
                            ok = True
                ck.ob("CMP", f.path, "short-read-count-checked@%s" % t["f"]["path"].split("::")[-1], ok,
                      "the number of bytes delivered is compared with the declared length and a difference refuses" if ok else
                      "`%s` may deliver fewer bytes than declared and its count is never compared with the declared length: a truncated input decodes to a shorter value" % t["f"]["path"].split("::")[-1], f.loc(bi))
    ck.floor("CMP", "short-read primitives in decoders", nsr, 1)

    # ---- buffers a decoder allocates are filled from the input
    zfns = [Fn(b) for p0 in sorted(c.paths()) if re.search(r"[Dd]eserial|::read_|::get_|from_bytes|parse", p0) for b in c.get_all(p0)]
    zero_buffer_sweep(ck, zfns, "DEFUSE", 25)

    # ---- exact consumption where a length is declared
    inst = [
        (T + "EncodedPayload::decode", [("call", r"Cursor::<T>::position$|::position$")], [("call", r"::len$")], "Ne", "position!=len"),
        (CB + "::common::encoded::Encoded::<A>::decode", [("call", r"::position$")], [("call", r"::len$")], "Ne", "position!=len"),
    ]
    for path, a, b, rel, what in inst:
        f = getfn(ck, "rs", CB, path)
        if f:
            found = rules.find_cmp(f, a, b)
            ck.ob("CMP", f.path, what, any(x[1] in (rel, "Lt", "Gt") for x in found), "the number of bytes consumed is compared with the declared length and a difference rejects", f.loc())
    f = getfn(ck, "rs", CB, "<concordium_base::updates::UpdateInstruction as concordium_base::common::serialize::Deserial>::deserial")
    if f:
        found = rules.find_cmp(f, [("call", r"read_to_end$")], [("call", r"try_into$|TryInto::try_into$")], deep=True)
        ck.ob("CMP", f.path, "read_len==declared", any(x[1] == "Ne" for x in found), "fewer payload bytes than declared rejects", f.loc())

    # a decoder that reads a declared length and then decodes from `source.take(length)` consumes EXACTLY that length: every
    # accepting return after the take passes an enforced test `limit() == 0` (a limited reader only bounds the reads from above;
    # without the test a length prefix larger than the content is accepted and re-encoded differently). Decoders that drain the
    # limited reader with read_to_end compare the count instead (rule above)
    ntake = 0
    for p0 in sorted(c.paths()):
        if re.search(r"::tests?::", p0):
            continue
        for b in c.get_all(p0):
            f = Fn(b)
            tk = f.calls(r"(^|::)Read::take$")
            if not tk or f.calls(r"read_to_end$"):
                continue
            ntake += 1
            tests = []
            for cx in rules.comparisons(f):
                ks = [op_const(cx[s_]) for s_ in ("a", "b")]
                if not any(k is not None and const_int(k) == 0 for k in ks):
                    continue
                if not any(has_call_origin(f.origins(cx[s_]), r"io::Take::<.*>::limit$|io::Take<.*>::limit$") for s_ in ("a", "b") if op_const(cx[s_]) is None):
                    continue
                rel, _ = rules.cmp_rejects(f, cx)
                if rel in ("Ne", "Gt", "Lt"):
                    tests.append(cx["bb"])
            # the other exhausting idiom: the rest is read as data of exactly `limit()` bytes
            for (bi, t) in f.calls(r"serialize::deserial_bytes$|serialize::deserial_vector_no_length$|Read::read_exact$"):
                if any(op_const(a) is None and has_call_origin(f.origins(a, deep=True), r"io::Take::<.*>::limit$|io::Take<.*>::limit$") for a in t["args"][1:]):
                    tests.append(bi)
            acc, _ = f.accept_points()
            escaped = sorted(a for a in acc if any(a in f.reach_from(f.succ(tb), avoid=set(tests)) for (tb, _) in tk))
            okt = len(tests) >= len(tk) and not escaped
            ck.ob("CMP", p0, "limited-reader-exhausted", okt,
                  "%d take(length) readers, %d exhausting sites (enforced limit() == 0, or the rest read as exactly limit() bytes), every accepting return passes one" % (len(tk), len(tests)) if okt else
                  "an accepting return is reached after take(length) without an enforced limit() == 0: a declared length larger than the content is accepted (second encoding of the same value)",
                  f.loc(escaped[0]) if escaped else f.loc(tk[0][0]))
    ck.floor("CMP", "decoders reading through take(declared length)", ntake, 5)

    # ---- bounded pre-allocation, error discipline
    cc = crate("rs", "concordium_contracts_common")
    cg = CallGraph([c, cc])
    roots = [p for p in cg.bodies if p.endswith("::deserial") and "common::serialize::Deserial" in p]
    alloc_err_sweep(ck, cg, roots, bounded_types=("PayloadSize", "UpdateHeader"), floor=15, err_exceptions=ERR_EXCEPTIONS,
                    alloc_exceptions={"concordium_base::transactions::get_encoded_payload": "its length parameter has type PayloadSize, bounded by MAX_PAYLOAD_SIZE in PayloadSize::deserial (CMP instance above)"})

    # canonical decoding of group elements and scalars (shared with C20): a reducing or unchecked decoder gives every
    # proof, key and ciphertext a second accepted encoding
    from .c20 import canonical_decoders
    canonical_decoders(ck, c)

    # strings: the prefix written before `serial_string` announces BYTES (what every decoder reads back): per writer, as many
    # written integers derive from `len()` of a string as there are `serial_string` calls, and none from a character count
    nstr = 0
    for p in sorted(c.paths()):
        if not re.search(r"::serial$", p):
            continue
        for b in c.get_all(p):
            f = Fn(b)
            ss = f.calls(r"serial_string$")
            if not ss:
                continue
            nstr += 1
            ws_ = [(bi, t, f.origins(t["args"][0], deep=True)) for (bi, t) in f.calls(r"Serial::serial$")]
            bylen = [x for x in ws_ if has_call_origin(x[2], r"(String|str|<impl str>)::len$") and not has_call_origin(x[2], r"Iterator::count$|::chars$|char_indices$")]
            bychars = [x for x in ws_ if has_call_origin(x[2], r"Iterator::count$|::chars$|char_indices$")]
            ok = len(bylen) >= len(ss) and not bychars
            ck.ob("DEFUSE", p, "string-length-prefix-is-byte-length", ok,
                  "%d strings written, %d prefixes derived from len() in bytes" % (len(ss), len(bylen)) if ok else
                  "%d strings written but %d prefixes derive from the byte length (%d from a character count): a non-ASCII string is announced shorter than the bytes that follow" % (len(ss), len(bylen), len(bychars)),
                  f.loc(bychars[0][0]) if bychars else f.loc(ss[0][0]))
    ck.floor("DEFUSE", "writers of length-prefixed strings", nstr, 6)
