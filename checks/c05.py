"""C05 — on-chain binary encodings: writer/reader symmetry, canonical forms, exact consumption, bounded allocation."""
from .common import *
from vlib import sym, sweeps
from vlib.callgraph import CallGraph

META = dict(
    technique="static analysis: codec-token symmetry of writer/reader pairs, tag-totality, comparison-polarity, bitmap-canonicity and bounded-allocation sweeps over compiler MIR",
    text=("Structural necessary conditions: for every Serial/Deserial pair in concordium_base (hand-written and derived) the ordered "
          "sequence of codec steps (types and widths, per enum variant: tag literal, constructed variant and payload steps) agrees "
          "between writer and reader where the pair is within the straight-line abstraction; every switch on an integer read from the "
          "input sends unknown values to a rejecting return; ordered maps and sets reject unless keys strictly increase; optional-field "
          "bitmaps reject undefined bits; declared lengths are compared with the bytes consumed; every pre-allocation in "
          "decode-reachable code is bounded (constant, min with a constant, at most 16-bit reads, bounded source type or a dominating "
          "enforced bound); no unwrap/expect on input-derived values. Value-level round-trip equality is NOT decided."),
)

CB = "concordium_base"
# pairs whose asymmetry is intended, with the reason
SYM_EXCEPTIONS = {}
ERR_EXCEPTIONS = {
    "<[T; N] as concordium_base::common::serialize::Deserial>::deserial": "try_into of a vector into which exactly N elements were pushed",
}


def pairs(c, wtrait, rtrait):
    ws, rs = {}, {}
    for p in c.paths():
        for b in c.get_all(p):
            if b.get("name") == "serial" and b.get("impl_trait", "").endswith(wtrait):
                ws[b["impl_self"]] = b
            if b.get("name") == "deserial" and b.get("impl_trait", "").endswith(rtrait):
                rs[b["impl_self"]] = b
    return ws, rs


def sym_sweep(ck, c, ws, rs, floor_struct, floor_enum, rule="SYM"):
    wi = {sym.strip_lt(k): v for k, v in ws.items()}
    ri = {sym.strip_lt(k): v for k, v in rs.items()}
    nm = ne = nu = 0
    unsupported = []
    for ty in sorted(set(ws) & set(rs)):
        w, r = Fn(ws[ty]), Fn(rs[ty])
        v, d = sym.compare_struct(w, r, wi, ri)
        if v == "MATCH":
            nm += 1
            ck.ob(rule, ty, "pair", True, d, w.loc())
            continue
        if v == "MISMATCH":
            exc = SYM_EXCEPTIONS.get(ty)
            ck.ob(rule, ty, "pair", exc is not None, ("documented exception: " + exc) if exc else d, r.loc())
            continue
        base = ty.split("<")[0]
        adt = c.adts.get(base)
        res = sym.compare_enum(w, r, base, None, wi, ri) if adt is not None and adt["kind"] == "Enum" else None
        if res is None:
            nu += 1
            unsupported.append(ty)
            continue
        for (vv, vi, dd) in res:
            vn = adt["variants"][vi]["name"] if vi < len(adt["variants"]) else str(vi)
            if vv == "MATCH":
                ne += 1
                ck.ob(rule, ty, "variant:" + vn, True, dd, w.loc())
            elif vv == "MISMATCH":
                ck.ob(rule, ty, "variant:" + vn, False, dd, r.loc())
            else:
                nu += 1
                unsupported.append(ty + "::" + vn)
    ck.floor(rule, "struct pairs with agreeing codec steps", nm, floor_struct)
    ck.floor(rule, "enum variants with agreeing tag, constructor and payload", ne, floor_enum)
    ck.extra.setdefault("sym_unsupported", []).extend(unsupported[:80])
    ck.note("%d pairs/variants outside the SYM abstraction (listed under sym_unsupported), not decided" % nu)


def run(ck):
    ck.explanation = ("Decides writer/reader agreement of codec steps for %s pairs, tag totality of every input-driven switch, strict "
                      "ordering of maps/sets, bitmap canonicity, exact consumption at declared lengths and bounded pre-allocation in "
                      "everything reachable from a Deserial implementation." % CB)
    ck.undecided = ("decode(encode(v)) == v and encode(decode(b)) == b as value equalities; termination; general panic-freedom "
                    "(indexing with computed indices); pairs outside the straight-line/variant abstraction (listed).")
    ck.rules_text = "SYM/TAB(tag totality)/CMP/BITMAP/ALLOC/ERR over MIR of concordium_base (all Serial/Deserial impls incl. derive-generated)"
    c = crate("rs", CB)
    ws, rs = pairs(c, "common::serialize::Serial", "common::serialize::Deserial")
    ck.floor("SYM", "Serial/Deserial pairs", len(set(ws) & set(rs)), 317)
    sym_sweep(ck, c, ws, rs, 271, 111)

    # ---- tag totality
    nt = 0
    for ty, b in sorted(rs.items()):
        f = Fn(b)
        for (sb, st, rd) in sweeps.tag_switches(f):
            nt += 1
            rr = f.reject_region()
            ck.ob("TAB", f.path, "tag-totality@bb%d" % sb, st["o"] in rr,
                  "unknown values of the input-read integer (accepted: %s) lead to a rejecting return" % [v for v, _ in st["t"]][:12]
                  if st["o"] in rr else "unknown tag values are ACCEPTED (default arm bb%d does not reject)" % st["o"], f.loc(sb))
    ck.floor("TAB", "input-driven tag switches", nt, 32)

    # ---- strict ordering of maps and sets
    S = CB + "::common::serialize::"
    for name in ("deserial_map_no_length", "deserial_set_no_length"):
        f = getfn(ck, "rs", CB, S + name)
        if f:
            gts = [cx for cx in rules.comparisons(f) if cx["kind"] == "call" and cx["op"] == "Gt"]
            ok = False
            for cx in gts:
                br = rules.cmp_branches(f, cx)
                if br is None:
                    continue
                sb, t_t, f_t = br
                rr = f.reject_region()
                ins = f.calls(r"BTree(Map|Set)::<.*>::insert$")
                # not-greater leads to rejection; insertion only on the greater branch
                if f_t in rr and all(bi not in f.reach_from([f_t], avoid={sb}) for (bi, _) in ins):
                    # and the comparison is new key > old key (a derives from the fresh read)
                    oa = f.origins(cx["a"], deep=True)
                    ob = f.origins(cx["b"], deep=True)
                    if has_call_origin(oa, r"Get::get$|Deserial::deserial$") and has_call_origin(ob, r"Option::<T>::take$"):
                        ok = True
            ck.ob("CMP", f.path, "strictly-increasing-keys", ok, "rejects unless new key > previous key (resolved PartialOrd::gt)", f.loc())

    # ---- specific canonical-form comparisons
    T = CB + "::transactions::"
    f = getfn(ck, "rs", CB, "<" + T + "PayloadSize as concordium_base::common::serialize::Deserial>::deserial")
    if f:
        cmp_rejecting(ck, f, [("call", r"Get::get$")], [("const", r"MAX_PAYLOAD_SIZE$")], "Gt", "size>MAX_PAYLOAD_SIZE-rejected")

    # ---- bitmap canonicity
    nb = 0
    for ty, b in sorted(rs.items()):
        f = Fn(b)
        bm = sweeps.bitmap_locals(f)
        for l, ent in sorted(bm.items()):
            if len(ent["tests"]) < 2:
                continue
            nb += 1
            nm = f.names().get(l, "_%d" % l)
            ck.ob("BITMAP", f.path, "bitmap:%s@L%d" % (nm, 0 if True else ent["line"]) + ("#%d" % nb),
                  len(ent["rejecting"]) >= 1,
                  "%d bit tests on an input-read integer; %d rejecting comparisons on its bits (undefined bits must be refused)"
                  % (len(ent["tests"]), len(ent["rejecting"])), "%s:%d" % (f.b["file"], ent["line"]))
    ck.floor("BITMAP", "optional-field bitmaps", nb, 3)

    # ---- exact consumption where a length is declared
    inst = [
        (T + "EncodedPayload::decode", [("call", r"Cursor::<T>::position$|::position$")], [("call", r"::len$")], "Ne", "position!=len"),
        (CB + "::common::encoded::Encoded::<A>::decode", [("call", r"::position$")], [("call", r"::len$")], "Ne", "position!=len"),
    ]
    for path, a, b, rel, what in inst:
        f = getfn(ck, "rs", CB, path)
        if f:
            found = rules.find_cmp(f, a, b)
            ck.ob("CMP", f.path, what, any(x[1] in (rel, "Lt", "Gt") for x in found), "the number of bytes consumed is compared with the declared length and a difference rejects", f.loc())
    f = getfn(ck, "rs", CB, "<concordium_base::updates::UpdateInstruction as concordium_base::common::serialize::Deserial>::deserial")
    if f:
        found = rules.find_cmp(f, [("call", r"read_to_end$")], [("call", r"try_into$|TryInto::try_into$")], deep=True)
        ck.ob("CMP", f.path, "read_len==declared", any(x[1] == "Ne" for x in found), "fewer payload bytes than declared rejects", f.loc())

    # ---- bounded pre-allocation, error discipline
    cc = crate("rs", "concordium_contracts_common")
    cg = CallGraph([c, cc])
    roots = [p for p in cg.bodies if p.endswith("::deserial") and "common::serialize::Deserial" in p]
    reach = cg.reach(roots)
    ck.extra["decode_reachable_functions"] = len(reach)
    na = 0
    param_fns = {}
    for p in sorted(reach):
        for b in cg.bodies[p]:
            f = Fn(b)
            for (bi, t) in f.calls(sweeps.ALLOC):
                na += 1
                cls, d = sweeps.classify_size(f, bi, t, bounded_types=("PayloadSize", "UpdateHeader"))
                key = "alloc:%s#%d" % (t["f"]["path"].split("::")[-1], len([o for o in ck.obls if o["func"] == p and o["rule"] == "ALLOC"]))
                if cls == "param":
                    param_fns[p] = (f, bi, t)
                    ck.ob("ALLOC", p, key, True, d + " (obligation moves to the call sites)", f.loc(bi), nontrivial=False)
                else:
                    ck.ob("ALLOC", p, key, cls not in ("unbounded", "unknown"), cls + ": " + d, f.loc(bi))
    ck.floor("ALLOC", "allocation sites in decode-reachable code", na, 15)
    # callers of parameter-carrying allocators
    for p, (pf, pbi, pt) in sorted(param_fns.items()):
        argidx = [a[1] for a in pf.origins(sweeps.size_operand(pt)) if a[0] == "arg"][0]
        ncall = 0
        for q in sorted(reach):
            for b in cg.bodies[q]:
                f = Fn(b)
                for (bi, t) in f.calls(re.compile(re.escape(p) + "$")):
                    ncall += 1
                    fake = dict(t)
                    fake = {"f": {"path": "x::with_capacity"}, "args": [t["args"][argidx - 1]], "dest": t["dest"]}
                    cls, d = sweeps.classify_size(f, bi, fake, bounded_types=("PayloadSize", "UpdateHeader"))
                    ck.ob("ALLOC", q, "arg-of:%s#%d" % (p.split("::")[-1], bi), cls not in ("unbounded", "unknown", "param"),
                          "length passed to %s: %s: %s" % (p.split("::")[-1], cls, d), f.loc(bi))
        ck.note("%s: %d decode-reachable call sites checked" % (p.split("::")[-1], ncall))
    UNW = re.compile(r"(Option::<T>|Result::<T, E>)::(unwrap|expect|unwrap_unchecked)$")
    nu = 0
    for p in sorted(reach):
        if not (p.endswith("::deserial") or "deserial_" in p):
            continue
        for b in cg.bodies[p]:
            f = Fn(b)
            for (bi, t) in f.calls(UNW):
                nu += 1
                o = f.origins(t["args"][0])
                rd = [a for a in o if a[0] in ("call", "outparam") and (sweeps.READ.search(a[1]) or re.search(r"try_into$|try_from$|from_utf8$", a[1]))]
                if rd:
                    exc = ERR_EXCEPTIONS.get(p)
                    ck.ob("ERR", p, "unwrap-on-input#%d" % bi, exc is not None, ("documented exception: " + exc) if exc else
                          "unwrap/expect on a value derived from %s" % [a[1].split("::")[-1] for a in rd], f.loc(bi))
    ck.extra["unwrap_sites_scanned"] = nu
