"""C18 — attribute statement proofs and presentations: structural necessary conditions."""
from .common import *
from vlib.mir import block_places
from vlib import transcript
from vlib.mir import path_conditions

META = dict(
    technique="static analysis: dispatch-table, enforcement sweep, comparison-polarity, dominance and transcript-agreement rules over compiler MIR",
    text=("Structural necessary conditions: the (statement, proof) dispatch maps each statement kind to its own verifier on "
          "the matching proof kind and everything else rejects; every call of the verification family in id_verifier, "
          "identity_attributes_credentials, web3id (v0 and v1) and the anchor verifier is enforced or returned; commitment "
          "lookups that fail reject; statement/proof count mismatches reject; the proof context (global context, challenge, "
          "credential) is appended before any statement is verified and the prover appends the same sequence. "
          "'Provable iff true' and cryptographic binding are not decided."),
)

CB = "concordium_base"
IV = CB + "::id::id_verifier::"
SCOPE = re.compile(r"concordium_base::(id::id_verifier|id::identity_attributes_credentials|web3id::proofs|web3id::v1::proofs|web3id::v1::anchor::verify|web3id)::")
SKIP = re.compile(r"serde|fmt::|::clone$|::eq$|Serial|Deserial|::hash$|::default$|::from$|::fmt$|cmp::")
FAMILY = re.compile(VERIFY_FAMILY.pattern + r"|iter::Iterator::all$")

DISPATCH = {
    IV + "<impl concordium_base::id::id_proof_types::AtomicStatement<C, TagType, AttributeType>>::verify": dict(
        stmt_adt=CB + "::id::id_proof_types::AtomicStatement", proof_adt=CB + "::id::id_proof_types::AtomicProof", stmt_arg=1, proof_arg=6,
        table={"RevealAttribute": r"id_verifier::verify_value_equal_to_commitment$",
               "AttributeInRange": r"AttributeInRangeStatement<C, TagType, AttributeType>>::verify$",
               "AttributeInSet": r"AttributeInSetStatement<C, TagType, AttributeType>>::verify$",
               "AttributeNotInSet": r"AttributeNotInSetStatement<C, TagType, AttributeType>>::verify$"}),
}


def variant_names(c, adt):
    a = c.adts.get(adt)
    return [v["name"] for v in a["variants"]] if a else None


def discr_source(fn, sb):
    """which argument the switch at sb discriminates on"""
    st = fn.term(sb)
    o = fn.origins(st["d"])
    if ("discr",) not in o:
        return None
    args = [a[1] for a in o if a[0] == "arg"]
    return args[0] if len(args) == 1 else None


def check_dispatch(ck, c, path, spec):
    f = getfn(ck, "rs", CB, path)
    if not f:
        return
    sv = variant_names(c, spec["stmt_adt"])
    pv = variant_names(c, spec["proof_adt"])
    if not ck.anchor(sv is not None and pv is not None, "TAB", path, "statement/proof enums"):
        return
    seen = {}
    for (bi, t) in f.calls(FAMILY):
        conds = {}
        for (sb, v) in path_conditions(f, bi):
            src = discr_source(f, sb)
            if src is not None and v != "otherwise":
                conds[src] = int(v)
        s_i = conds.get(spec["stmt_arg"])
        p_i = conds.get(spec["proof_arg"])
        sname = sv[s_i] if s_i is not None and s_i < len(sv) else None
        pname = pv[p_i] if p_i is not None and p_i < len(pv) else None
        seen.setdefault(sname, []).append((pname, t, bi))
    for sname, pat in spec["table"].items():
        ent = seen.get(sname, [])
        ok = len(ent) >= 1 and all(pn == sname and callee_match(t, pat) for (pn, t, _) in ent)
        ck.ob("TAB", path, "dispatch:" + sname, ok,
              "statement kind %s is verified on proof kind %s by %s" % (sname, [e[0] for e in ent], [e[1]["f"]["path"].split("::")[-2:] for e in ent]), f.loc(ent[0][2]) if ent else f.loc())
    extra = [k for k in seen if k not in spec["table"]]
    ck.ob("TAB", path, "no-undeclared-dispatch", not extra, "verifier calls under undeclared statement kinds: %s" % extra, f.loc(), nontrivial=False)
    # every statement variant is dispatched (a new kind must get a verifier, not the silent default)
    ck.ob("TAB", path, "all-kinds-dispatched", set(sv) == set(spec["table"]), "statement kinds %s" % sv, f.loc())
    # default rejects
    acc, rej = f.accept_points()
    ck.ob("TAB", path, "default-rejects", len(rej) >= 1 and len(acc) == len([1 for e in seen.values() for _ in e]),
          "%d accepting assignments (one per dispatched verifier), %d constant-false" % (len(acc), len(rej)), f.loc())


def run(ck):
    ck.explanation = ("Decides totality/diagonality of the statement-proof dispatch, enforcement of every verification-family "
                      "call across the attribute, identity-attribute, web3id (v0/v1) and anchor verifiers, rejecting "
                      "orientation of count comparisons and lookups, and prover/verifier agreement of the proof context.")
    ck.undecided = "'provable iff true' at range/set boundaries; cryptographic binding of presentations; JSON/CBOR faithfulness of requests."
    ck.rules_text = "TAB(dispatch)/ENF sweep/CMP/DOM/SIB over MIR of id::id_verifier, id::id_prover, id::identity_attributes_credentials, web3id"
    c = crate("rs", CB)

    for path, spec in DISPATCH.items():
        check_dispatch(ck, c, path, spec)
    # v1 dispatch
    v1p = [p for p in c.paths() if re.search(r"web3id::v1::proofs::<impl concordium_base::web3id::v1::AtomicStatementV1<.*>>::verify$", p)]
    if ck.anchor(len(v1p) == 1, "TAB", "AtomicStatementV1::verify", "function exists"):
        f = Fn(c.get_all(v1p[0])[0])
        sv = variant_names(c, CB + "::web3id::v1::AtomicStatementV1")
        pv = variant_names(c, CB + "::web3id::v1::AtomicProofV1")
        if ck.anchor(sv is not None and pv is not None, "TAB", f.path, "v1 statement/proof enums"):
            ok_all = True
            n = 0
            for (bi, t) in f.calls(FAMILY):
                conds = {}
                for (sb, v) in path_conditions(f, bi):
                    src = discr_source(f, sb)
                    if src is not None and v != "otherwise":
                        conds.setdefault(src, []).append(int(v))
                names = {}
                for src, vs in conds.items():
                    names[src] = vs
                n += 1
                # statement is arg 1; proof arg varies: find the arg whose type mentions AtomicProofV1
                parg = [i + 1 for i, ty in enumerate(f.b["inputs"]) if "AtomicProofV1" in ty]
                s_i = (conds.get(1) or [None])[0]
                p_i = (conds.get(parg[0]) or [None])[0] if parg else None
                sn = sv[s_i] if s_i is not None else None
                pn = pv[p_i] if p_i is not None else None
                diag = sn is not None and (pn == sn or (sn == "AttributeValue" and pn in ("AttributeValue", "AttributeValueAlreadyRevealed")))
                ck.ob("TAB", f.path, "dispatch#%d" % n, diag, "statement kind %s verified on proof kind %s by %s" % (sn, pn, t["f"]["name"]), f.loc(bi))
            ck.floor("TAB", "v1 dispatch arms", n, 5)

    # enforcement sweep
    tot = 0
    nf = 0
    for p in sorted(c.paths()):
        if SCOPE.search(p) and not SKIP.search(p):
            for b in c.get_all(p):
                f = Fn(b)
                k = enf_sweep(ck, f, family=FAMILY)
                tot += k
                nf += 1
    ck.floor("ENF", "verification-family call sites in scope", tot, 44)
    ck.extra["functions_swept"] = nf

    # zips of statements with proofs need a length check
    nz = zip_length_sweep(ck, c, re.compile(r"concordium_base::(id::id_verifier|web3id)"), re.compile(r"(verify|verifier|validate|check)[a-z_0-9]*(::\{closure#\d+\})*$"))
    ck.floor("CMP", "statement/proof zips in presentation verification", nz, 3)

    # lookups of commitments: None rejects
    for nm in ("AttributeInRangeStatement", "AttributeInSetStatement", "AttributeNotInSetStatement", "AttributeValueStatement"):
        path = IV + "<impl concordium_base::id::id_proof_types::%s<C, TagType, AttributeType>>::verify" % nm
        f = getfn(ck, "rs", CB, path)
        if f:
            enf_calls(ck, f, r"BTreeMap::<K, V, A>::get$", "cmm_attributes.get")
    f = getfn(ck, "rs", CB, IV + "<impl concordium_base::id::id_proof_types::AttributeValueStatement<C, TagType, AttributeType>>::verify_for_already_revealed")
    if f:
        enf_calls(ck, f, r"BTreeMap::<K, V, A>::get$", "revealed_attributes.get")
        o = f.origins(0)
        ck.ob("RET", f.path, "verdict-is-equality", has_call_origin(o, r"cmp::PartialEq::eq$"), "returns attribute_value == revealed", f.loc())

    # Statement::verify: count equality, context before statements, prover agreement
    f = getfn(ck, "rs", CB, IV + "<impl concordium_base::id::id_proof_types::Statement<C, AttributeType>>::verify")
    if f:
        cmp_rejecting(ck, f, [("field", "statements"), ("call", r"::len$")], [("field", "proofs"), ("call", r"::len$")], "Ne", "statements.len!=proofs.len")
        sv = transcript.seq_key(transcript.sequence(f))
        ref = [("domain", "Concordium ID2.0 proof"), ("append_message", "ctx"), ("add_bytes", None), ("append_message", "credential")]
        ck.ob("SIB", f.path, "context-reference", sv == ref, "context %s" % sv, f.loc(), sample=dict(rule="SIB", function=f.path, transcript=sv))
        apps = f.calls(transcript.TRANSCRIPT_CALL)
        ver = f.calls(r"AtomicStatement<C, TagType, AttributeType>>::verify$")
        ck.ob("DOM", f.path, "context-before-statements", len(ver) == 1 and all(f.dominates(b, ver[0][0]) for (b, _) in apps), "context appended before any statement is verified", f.loc())
        srcs = set()
        for (b, t) in apps:
            for a in t["args"]:
                srcs |= f.origins(a, deep=True)
        ck.ob("COV", f.path, "context-covers", all(("arg", i) in srcs for i in (3, 4, 5)), "challenge, global context and credential all reach the transcript", f.loc())
        pp = [p for p in c.paths() if re.search(r"id::id_prover::<impl concordium_base::id::id_proof_types::StatementWithContext<C, AttributeType>>::prove$", p)]
        if ck.anchor(len(pp) == 1, "SIB", "Statement::prove", "function exists"):
            g = Fn(c.get_all(pp[0])[0])
            sp = transcript.seq_key(transcript.sequence(g))
            ck.ob("SIB", f.path, "prover-agrees", sp[:len(ref)] == ref, "prover context %s" % sp[:len(ref)], g.loc())

    f = getfn(ck, "rs", CB, IV + "verify_value_equal_to_commitment")
    if f:
        seq = ["%s:%s" % (m, l) for (m, l, _, _) in transcript.sequence(f)]
        ck.ob("SIB", f.path, "transcript-reference", seq == ["append_label:RevealAttributeDlogProof", "append_message:x", "append_message:keys", "append_message:C"], "sequence %s" % seq, f.loc())
        for (bi, t) in f.calls(r"sigma_protocols::common::verify$"):
            o = f.origins(t["args"][1], deep=True)
            ck.ob("DEFUSE", f.path, "statement-binds-commitment-and-value", ("arg", 1) in o and ("arg", 2) in o and ("arg", 4) in o, "the dlog statement derives from the attribute value, its commitment and the commitment key", f.loc(bi))
    f = getfn(ck, "rs", CB, IV + "verify_attribute_range")
    if f:
        for n, (bi, t) in enumerate(f.calls(r"range_proof::verify_in_range$")):
            oa = [f.origins(a, deep=True) for a in t["args"]]
            ck.ob("DEFUSE", f.path, "bounds-and-commitment#%d" % n, ("arg", 5) in oa[4] and ("arg", 6) in oa[5] and ("arg", 7) in oa[6] and ("arg", 8) in oa[7],
                  "verify_in_range receives (lower, upper, commitment, proof) in that order", f.loc(bi))

    # the bounds of a range statement reach the range proof as given: in the statement-level wrappers every argument of
    # prove_in_range / verify_in_range derives from exactly ONE parameter, and no two arguments from the same one (a verifier that
    # orders or otherwise combines `lower` and `upper` accepts, for the empty range [upper, lower), a proof made for [lower, upper))
    npass = 0
    for pth in (CB + "::id::id_verifier::verify_attribute_range", CB + "::id::id_prover::prove_attribute_in_range"):
        g = getfn(ck, "rs", CB, pth)
        if not g:
            continue
        for k, (bi, t) in enumerate(g.calls(r"range_proof::(verify_in_range|prove_in_range)$")):
            sets = [frozenset(a for a in g.origins(x, deep=True) if a[0] == "arg") for x in t["args"]]
            mixed = [i for i, s_ in enumerate(sets) if len(s_) > 1]
            ne = [s_ for s_ in sets if s_]
            dup = len(ne) != len(set(ne))
            npass += 1
            ck.ob("DEFUSE", g.path, "bounds-passed-as-given#%d" % k, not mixed and not dup,
                  "each argument of %s comes from one parameter of its own" % t["f"]["name"] if not mixed and not dup else
                  "argument %s of %s combines several parameters (%s): the bounds of the statement are reordered or merged before the proof is checked" % (mixed, t["f"]["name"], [sorted(x[1] for x in sets[i]) for i in mixed]) if mixed else
                  "two arguments of %s come from the same parameter" % t["f"]["name"], g.loc(bi))
    ck.floor("DEFUSE", "range-proof calls in the statement wrappers", npass, 4)
    narrowing_len_sweep(ck, crate("rs", "concordium_base"), re.compile(r"concordium_base::(id::id_verifier|web3id)"), re.compile(r"(verify|verifier|validate|check)[a-z_0-9]*(::\{closure#\d+\})*$"))
    conditional_transcript_sweep(ck, crate("rs", "concordium_base"), re.compile(r"concordium_base::(id::id_verifier|id::identity_attributes_credentials|web3id)"), floor=5)
    # what a statement says is handed to the proof verifiers WHOLE: no take/skip/truncate/filter on statement data in the
    # verifier functions (a set capped at the number of generators is a smaller statement than the one being claimed)
    TRUNC_OK = {"web3id::v1::IdentityBasedCredentialV1<P, C, AttributeType>>::verify": "filter_map over the statements selects the attribute tags that need a commitment lookup; nothing is dropped from a statement"}
    ntr = 0
    cc_ = crate("rs", "concordium_base")
    for p0 in sorted(cc_.paths()):
        if not re.search(r"concordium_base::(id::id_verifier|id::identity_attributes_credentials|web3id)", p0) or re.search(r"::tests?::|::test_|prove|prover", p0):
            continue
        if not re.search(r"verify|check|validate", p0):
            continue
        for b in cc_.get_all(p0):
            f = Fn(b)
            ntr += 1
            cuts = [(bi, t) for (bi, t) in f.calls(r"Iterator::(take|skip|step_by|take_while|skip_while|filter|filter_map)$|::truncate$|::split_at$|::split_off$|Vec::<.*>::(drain|dedup|retain)$|::chunks$")]
            exc = [v for k, v in TRUNC_OK.items() if p0.endswith(k)]
            if cuts and exc and all(t["f"]["name"] == "filter_map" for (_, t) in cuts):
                ck.ob("COV", p0, "statement-data-used-whole", True, "documented exception: " + exc[0], f.loc(cuts[0][0]), nontrivial=False)
                continue
            ck.ob("COV", p0, "statement-data-used-whole", not cuts,
                  "no truncating or selecting combinator in this verifier function" if not cuts else
                  "%s is applied in a verifier function: part of the statement (or proof) is cut off before it is checked" % cuts[0][1]["f"]["name"], f.loc(cuts[0][0]) if cuts else f.loc(), nontrivial=False)
    ck.floor("COV", "verifier functions examined for truncation", ntr, 30)
    gated_verification_sweep(ck, crate("rs", "concordium_base"), re.compile(r"concordium_base::(id::id_verifier|id::identity_attributes_credentials|web3id)"), floor=15)
    eq_polarity_sweep(ck, crate("rs", "concordium_base"), re.compile(r"concordium_base::(id::id_verifier|id::identity_attributes_credentials|web3id)"), re.compile(r"(verify|verifier|validate|check)[a-z_0-9]*(::\{closure#\d+\})*$"))
    rejecting_checks_floor(ck, crate("rs", "concordium_base"), re.compile(r"concordium_base::(id::id_verifier|id::identity_attributes_credentials|web3id)"), re.compile(r"(verify|verifier|validate|check|extract_commit_message)[a-z_0-9]*(::\{closure#\d+\})*$"), "C18")
    material_rules(ck, crate("rs", "concordium_base"))


def material_rules(ck, c):
    """everything the verifier supplies about a credential (issuer, commitments, identity provider and revoker keys) takes
    part in the verification of that credential"""
    W3 = "concordium_base::web3id::v1::"
    for fname, adt_name in (("AccountBasedCredentialV1", "AccountCredentialVerificationMaterial"), ("IdentityBasedCredentialV1", "IdentityCredentialVerificationMaterial")):
        adt = c.adts.get(W3 + adt_name)
        fs = [p for p in c.paths() if re.search(r"web3id::v1::proofs::<impl concordium_base::web3id::v1::%s<.*>>::verify$" % fname, p)]
        if not ck.anchor(adt is not None and len(fs) == 1, "COV", fname + "::verify", "function and verification material type exist"):
            continue
        f = Fn(c.get(fs[0]))
        fields = [x["name"] for x in adt["variants"][0]["fields"]]
        used = set()
        for bi in f.reachable():
            for st in f.stmts(bi):
                rv = st.get("rv", {})
                pl = rv.get("p") if rv.get("k") in ("ref", "rawptr") else (op_place(rv.get("a")) if rv.get("k") in ("use", "cast") else None)
                if not pl:
                    continue
                names = [re.match(r"^f\d+:(\w+)$", str(pr)).group(1) for pr in pl[1] if re.match(r"^f\d+:(\w+)$", str(pr))]
                hit = [n2 for n2 in names if n2 in fields]
                mat = [k + 1 for k, ty in enumerate(f.b["inputs"]) if "VerificationMaterial" in ty]
                if not hit or "lhs" not in st or pl[0] not in mat:
                    continue
                # the value read from the field must go somewhere: an argument of a call or an operand of a comparison
                fw = f.forward({st["lhs"][0]})
                consumed = any(any((op_place(a) or [None])[0] in fw for a in t["args"]) for (b2, t) in f.calls())
                if consumed:
                    used |= set(hit)
        # reads through a binding of the destructured reference: a field projection on any local whose type names the ADT
        for fl in fields:
            ck.ob("COV", f.path, "material-field-used:" + fl, fl in used, "the verifier-supplied `%s` is read by the credential's verification" % fl if fl in used else
                  "the verifier-supplied `%s` is never read: the presentation is not checked against it" % fl, f.loc())
