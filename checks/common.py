"""Helpers shared by the per-property check modules."""
import re
import os
from vlib import facts
from vlib.mir import Fn, callee_match, op_place, op_const, const_int
from vlib import rules

_fn_cache = {}


def crate(ws, name):
    return facts.crate(ws, name)


def getfn(ck, ws, cname, path, rule="ANCHOR"):
    """Fn for a body path; records an anchor obligation (fail closed if missing)"""
    key = (ws, cname, path)
    if key in _fn_cache:
        return _fn_cache[key]
    c = crate(ws, cname)
    bs = c.get_all(path)
    if not ck.anchor(len(bs) >= 1, rule, path, "function exists"):
        return None
    f = Fn(bs[0])
    _fn_cache[key] = f
    return f


def getfns(ws, cname, pred):
    c = crate(ws, cname)
    out = []
    for p in c.find(pred):
        for b in c.get_all(p):
            out.append(Fn(b))
    return out


def enf_calls(ck, fn, pat, what, floor=1, rule="ENF", extra_fail=None):
    """every call in fn matching pat must have its result enforced; at least `floor` sites"""
    sites = fn.calls(pat)
    ck.ob(rule, fn.path, "sites:" + what, len(sites) >= floor,
          "%d call sites of %s (floor %d)" % (len(sites), what, floor), fn.loc(), nontrivial=False)
    for n, (bi, t) in enumerate(sites):
        r = rules.enforcement(fn, bi, extra_fail=extra_fail)
        ck.ob(rule, fn.path, "%s#%d" % (what, n), rules.enforced_ok(r),
              "%s: %s" % (r["status"], r["detail"]), fn.loc(bi))
    return sites


def cmp_rejecting(ck, fn, a_req, b_req, rel, what, rule="CMP", floor=1, deep=True, allow_extra=True):
    """a comparison between sources a_req and b_req must reject exactly when `a rel b`"""
    found = rules.find_cmp(fn, a_req, b_req, deep=deep)
    good = [x for x in found if x[1] == rel]
    bad = [x for x in found if x[1] != rel and x[1] is not None]
    unbr = [x for x in found if x[1] is None]
    ok = len(good) >= floor and (allow_extra or not bad)
    detail = "%d comparisons between the two sources; %d reject when a %s b" % (len(found), len(good), rel)
    if bad and not good:
        detail += "; found instead: reject when a %s b (%s)" % (bad[0][1], bad[0][2])
    if unbr and not good:
        detail += "; " + unbr[0][2]
    loc = fn.loc(found[0][0]["bb"]) if found else fn.loc()
    ck.ob(rule, fn.path, what, ok, detail, loc)
    return good


VERIFY_FAMILY = re.compile(r"::(verify[A-Za-z_0-9]*|check_[A-Za-z_0-9]*|validate[A-Za-z_0-9]*|is_valid[A-Za-z_0-9_]*|has_duplicates)$")
NEG_PRED = re.compile(r"::(has_duplicates|is_empty|is_zero_point|is_small_order|is_identity)$")


def enf_sweep(ck, fn, family=VERIFY_FAMILY, rule="ENF", skip=None, loop_ok=None):
    """every call in fn to the verification family whose result is bool/Option/Result is enforced.
    Returns number of sites."""
    n = 0
    for (bi, t) in fn.calls(family):
        if skip is not None and callee_match(t, skip):
            continue
        d = t["dest"]
        tag = rules._tag_of_type(fn.locals[d[0]]) if not d[1] else None
        if tag is None:
            continue
        ef = ("bool", 1) if (tag[0] == "bool" and callee_match(t, NEG_PRED)) else None
        r = rules.enforcement(fn, bi, extra_fail=ef)
        name = t["f"].get("name", "?")
        ck.ob(rule, fn.path, "%s@%d" % (name, n), rules.enforced_ok(r), "%s: %s" % (r["status"], r["detail"]), fn.loc(bi))
        n += 1
    return n


def arg_from_field(fn, t, idx, field):
    """argument idx of call t derives from a place with the named field"""
    return ("field", field) in fn.origins(t["args"][idx], deep=True)


def has_call_origin(atoms, pat):
    return any(a[0] in ("call", "callres", "outparam") and re.search(pat, a[1]) for a in atoms)


def find_impl(ck, ws, cname, self_pat, trait_pat, name, rule="ANCHOR"):
    """Fn of the method `name` of the impl of a trait (regex) for a self type (regex); anchors existence"""
    c = crate(ws, cname)
    hits = []
    for p in c.paths():
        if not p.endswith("::" + name):
            continue
        for b in c.get_all(p):
            if b.get("name") == name and re.search(self_pat, b.get("impl_self", "")) and \
                    (trait_pat is None or re.search(trait_pat, b.get("impl_trait", ""))):
                hits.append(b)
    if not ck.anchor(len(hits) == 1, rule, "%s for %s::%s" % (trait_pat, self_pat, name), "impl method exists (%d found)" % len(hits)):
        return None
    return Fn(hits[0])


ZIP_CALL = re.compile(r"iter::Iterator::zip$|itertools::(multizip|zip)|iter::zip$")


def zip_length_sweep(ck, c, scope, name_pat, rule="CMP", exceptions=None, disjoint_args=False):
    """In verifier-side functions: two sequences coming from different sources (statement vs proof, or two
    independently supplied collections) may be zipped only after an enforced comparison of their lengths;
    `zip` silently truncates to the shorter one, so unchecked items would simply not be verified."""
    exceptions = exceptions or {}
    n = 0
    for p in sorted(c.paths()):
        if not scope.search(p) or not name_pat.search(p):
            continue
        for b in c.get_all(p):
            f = Fn(b)
            zs = f.calls(ZIP_CALL)
            if not zs:
                continue
            lens = []
            for cx in rules.comparisons(f):
                oa = f.origins(cx["a"], deep=True)
                ob = f.origins(cx["b"], deep=True)
                # each operand must be the length of ONE sequence: a comparison of sums of lengths bounds only the total
                if sum(1 for a in oa if a[0] == "call" and a[1].endswith("::len")) == 1 and sum(1 for a in ob if a[0] == "call" and a[1].endswith("::len")) == 1:
                    rel, _ = rules.cmp_rejects(f, cx)
                    if rel is not None:
                        lens.append((_srcset(oa), _srcset(ob), cx["bb"]))
            for k, (bi, t) in enumerate(zs):
                srcs = [_srcset(f.origins(a, deep=True)) for a in t["args"][:2]]
                if len(srcs) < 2 or not srcs[0] or not srcs[1]:
                    continue
                a, b2 = srcs
                if a == b2:
                    continue
                # two components of one locally computed value (fields of the same call result, same inputs) are not
                # independently supplied: their lengths agree by construction of the callee
                oa_, ob_ = (f.origins(x, deep=True) for x in t["args"][:2])
                calls_a = set(x for x in oa_ if x[0] == "call" and x[1].startswith(("concordium_", "<concordium_")))
                calls_b = set(x for x in ob_ if x[0] == "call" and x[1].startswith(("concordium_", "<concordium_")))
                if calls_a and calls_a == calls_b and set(x for x in a if x.startswith("arg")) == set(x for x in b2 if x.startswith("arg")):
                    continue
                # where asked, only sequences coming from different parameters count as independently supplied (a value
                # derived by a local helper from the same proof has the helper's length invariant, which is not decided here)
                if disjoint_args and set(x for x in a if x.startswith("arg")) & set(x for x in b2 if x.startswith("arg")):
                    continue
                n += 1
                only_a, only_b = a - b2, b2 - a
                ok = any((x & (only_a or a) and y & (only_b or b2)) or (x & (only_b or b2) and y & (only_a or a)) for (x, y, cb) in lens)
                key = "zip:%s~%s" % ("/".join(sorted(only_a or a))[:28], "/".join(sorted(only_b or b2))[:28])
                exc = exceptions.get((p, key))
                if exc is not None and not ok:
                    ck.ob(rule, p, key, True, "documented exception: " + exc, f.loc(bi), nontrivial=False)
                    continue
                ck.ob(rule, p, key, ok,
                      "%s and %s are zipped after an enforced comparison of their lengths" % (sorted(only_a or a), sorted(only_b or b2)) if ok else
                      "%s and %s are zipped without an enforced length comparison: zip truncates to the shorter sequence, the surplus items are silently not verified"
                      % (sorted(only_a or a), sorted(only_b or b2)), f.loc(bi))
    return n


def _srcset(atoms):
    s = set(a[1] for a in atoms if a[0] == "field" and not a[1].isdigit())
    s |= set("arg%d" % a[1] for a in atoms if a[0] == "arg")
    return s


SKIP_FN = re.compile(r"serde|fmt::|::clone$|::eq$|Serial|Deserial|::hash$|::default$|::fmt$|cmp::")


def enf_module_sweep(ck, c, scope, floor, what, family=VERIFY_FAMILY):
    """every call of the verification family in every function of a module scope is enforced or returned"""
    tot = 0
    for p in sorted(c.paths()):
        if scope.search(p) and not SKIP_FN.search(p):
            for b in c.get_all(p):
                tot += enf_sweep(ck, Fn(b), family=family)
    ck.floor("ENF", "verification-family call sites in " + what, tot, floor)
    return tot


ZIPX = re.compile(r"iter::Iterator::zip$|itertools::(multizip|zip)|iter::zip$")


def extract_zip_sweep(ck, c, pat):
    """verifier-side zips of statement components (self) with response components (third argument) in
    SigmaProtocol::extract_commit_message need a dominating, rejecting comparison of exactly those two lengths"""
    nz = 0
    for pth in sorted(c.paths()):
        if not pat.search(pth):
            continue
        f = Fn(c.get(pth))
        lencmps = []
        for cx in rules.comparisons(f):
            oa = f.origins(cx["a"], deep=True)
            ob = f.origins(cx["b"], deep=True)
            # each operand is the length of ONE sequence: comparing sums of lengths bounds only the total
            if sum(1 for a in oa if a[0] == "call" and a[1].endswith("::len")) == 1 and sum(1 for a in ob if a[0] == "call" and a[1].endswith("::len")) == 1:
                rel, d = rules.cmp_rejects(f, cx)
                if rel in ("Ne",):
                    lencmps.append((set(a[1] for a in oa if a[0] == "field"), set(a[1] for a in ob if a[0] == "field"), cx["bb"]))
        for (bi, t) in f.calls(ZIPX):
            srcs = [f.origins(a, deep=True) for a in t["args"][:2]]
            if len(srcs) < 2:
                continue
            kinds = []
            for sset in srcs:
                kinds.append(("self" if ("arg", 1) in sset else "") + ("resp" if ("arg", 3) in sset else ""))
            if set(kinds) != {"self", "resp"}:
                continue
            nz += 1
            fa = set(a[1] for a in srcs[kinds.index("self")] if a[0] == "field")
            fb = set(a[1] for a in srcs[kinds.index("resp")] if a[0] == "field")
            ok = any(((x & fa and y & fb) or (x & fb and y & fa)) and f.dominates(cb, bi) for (x, y, cb) in lencmps)
            ck.ob("CMP", pth, "zip-length-checked:%s~%s" % ("/".join(sorted(fa))[:30], "/".join(sorted(fb))[:30]), ok,
                  "statement components %s are zipped with response components %s only after their lengths were compared (mismatch rejects)" % (sorted(fa), sorted(fb)) if ok else
                  "statement components %s are zipped with response components %s without an enforced length equality: zip truncates, missing responses are not noticed" % (sorted(fa), sorted(fb)), f.loc(bi))
    return nz


conditions_at = rules.conditions_at


def narrowing_len_sweep(ck, c, scope, name_pat, rule="CMP"):
    """In verifier-side functions no comparison operand is a length/count that went through a narrowing integer cast
    (`len() as u8`): the comparison then holds modulo 2^8 / 2^16 / 2^32 and oversized inputs pass."""
    n = 0
    for p in sorted(c.paths()):
        if not scope.search(p) or not name_pat.search(p) or re.search(r"::tests?::|::test_", p):
            continue
        for b in c.get_all(p):
            f = Fn(b)
            for cx in rules.comparisons(f):
                n += 1
                for side in ("a", "b"):
                    o = f.origins(cx[side])
                    if any(a[0] == "call" and re.search(r"::(len|count)$", a[1]) for a in o) and any(a[0] == "cast" and a[1] in ("u8", "u16", "u32", "i8", "i16", "i32") for a in o):
                        ck.ob(rule, p, "length-compared-at-full-width@bb%d" % cx["bb"], False,
                              "a length is cast to %s before it is compared: the test holds modulo the narrower width, a collection that is 2^k elements too long passes" %
                              [a[1] for a in o if a[0] == "cast"][0], f.loc(cx["bb"]))
    ck.ob(rule, "-", "no-narrowed-length-comparisons", True, "%d comparisons in verifier-side functions scanned for narrowed lengths" % n, "", nontrivial=False)
    return n


# function -> (kind, reason).  kind "zero": a test against the literal 0 may refuse on equality (the value must be non-zero),
# every other equality test of the function is judged as usual; kind "inverted": the function is a predicate that answers
# "a mismatch was found" (closure of `any`), so its tests must answer true on DIFFERENCE, i.e. "refuse" (answer false) on equality
EQ_POLARITY_EXCEPTIONS = {
    "concordium_base::id::identity_provider::validate_request_common":
        ("zero", "`number_of_ars == 0` is itself the refusal (a request must name at least one anonymity revoker)"),
    "concordium_base::id::identity_provider::validate_request_common::{closure#0}":
        ("inverted", "closure of `any(|(k1, k2)| k1 != k2)`: true means a mismatch was found, the caller refuses on true"),
}


def eq_polarity_sweep(ck, c, scope, name_pat, rule="CMP", exceptions=None):
    """In verifier-side functions an equality test that can refuse refuses when the two sides DIFFER (43 of 45 sites on the
    pinned tree; the two others are documented).  A flipped test (`==` for `!=`) accepts exactly the inputs it should refuse."""
    exceptions = dict(EQ_POLARITY_EXCEPTIONS, **(exceptions or {}))
    n = 0
    for p in sorted(c.paths()):
        if not scope.search(p) or not name_pat.search(p) or re.search(r"::tests?::|::test_", p):
            continue
        for b in c.get_all(p):
            f = Fn(b)
            k = 0
            for cx in rules.comparisons(f):
                if cx["op"] not in ("Eq", "Ne"):
                    continue
                rel, d = rules.cmp_rejects(f, cx)
                if rel is None:
                    continue
                n += 1
                k += 1
                kind, why = exceptions.get(p, (None, None))
                if kind == "zero" and rel == "Eq" and any(k0 is not None and const_int(k0) == 0 for k0 in (op_const(cx["a"]), op_const(cx["b"]))):
                    ck.ob(rule, p, "equality-test-refuses-on-difference#%d" % k, True, "documented exception: " + why, f.loc(cx["bb"]), nontrivial=False)
                    continue
                if kind == "inverted":
                    ck.ob(rule, p, "mismatch-predicate-true-on-difference#%d" % k, rel == "Eq",
                          "documented: " + why if rel == "Eq" else "the mismatch predicate answers true when the compared values are EQUAL (%s)" % why, f.loc(cx["bb"]))
                    continue
                ck.ob(rule, p, "equality-test-refuses-on-difference#%d" % k, rel == "Ne",
                      "refuses when the compared values differ" if rel == "Ne" else
                      "refuses when the compared values are EQUAL (and lets them pass when they differ): %s" % d, f.loc(cx["bb"]))
    return n


_CG_CACHE = {}


def rejecting_checks_by_module(c, scope, name_pat, unconditional=None):
    """{module: number of comparisons that can refuse} over the verifier-side functions of a scope and every function of
    the same scope they (transitively) call - so that moving a check into a helper does not change the count"""
    from vlib.callgraph import CallGraph
    if id(c) not in _CG_CACHE:
        _CG_CACHE[id(c)] = CallGraph([c])
    cg = _CG_CACHE[id(c)]
    roots = [p for p in sorted(c.paths()) if scope.search(p) and name_pat.search(p) and not re.search(r"::tests?::|::test_", p)]
    reach = set(cg.reach(roots)) | set(roots)
    # closures are not called by the function that creates them (an iterator adaptor calls them): count them with their parent
    for q in sorted(c.paths()):
        m = re.match(r"^(.*?)(::\{closure#\d+\})+$", q)
        if m and m.group(1) in reach:
            reach.add(q)
    out = {}
    for p in sorted(reach):
        if not scope.search(p) or re.search(r"::tests?::|::test_", p) or p not in cg.bodies:
            continue
        q = re.sub(r"(::\{closure#\d+\})+$", "", p)          # a closure belongs to the module of its function
        mm = re.search(r"(concordium_base::(?:[a-z_0-9]+::)*[a-z_0-9]+)::", q)
        mod = "::".join((mm.group(1) if mm else "?").split("::")[:3])
        for b in c.get_all(p):
            f = Fn(b)
            acc, _ = f.accept_points()
            if not name_pat.search(q):
                acc = []            # the unconditional count is taken over the verifier-named functions themselves
            for cx in rules.comparisons(f):
                rel, d = rules.cmp_rejects(f, cx)
                if rel is not None:
                    out[mod] = out.get(mod, 0) + 1
                    if unconditional is not None and cx["kind"] == "call" and cx["op"] in ("Eq", "Ne") and \
                            re.search(r"^&*(std::vec::Vec<|\[|std::collections::BTree(Map|Set)<|&\[)", cx.get("self_ty") or ""):
                        unconditional["#coll:" + mod] = unconditional.get("#coll:" + mod, 0) + 1
                    br = rules.cmp_branches(f, cx)
                    sb = br[0] if br else cx["bb"]
                    if unconditional is not None and acc and all(f.dominates(sb, a) for a in acc):
                        unconditional[mod] = unconditional.get(mod, 0) + 1
            if unconditional is not None and acc:
                # enforced fallible calls (`x.verify(..)?`, `if !check(..) { return false }`) that every accepting path passes
                for bi in sorted(f.reachable()):
                    t = f.term(bi)
                    if t["k"] != "call" or not t.get("dest") or not re.search(r"^(bool|std::result::Result<|std::option::Option<)", f.locals[t["dest"][0]]):
                        continue
                    if not re.search(r"concordium_base::", t["f"].get("path", "")) and not re.search(r"concordium_base::", t["f"].get("resolved", "") or ""):
                        continue
                    if not all(f.dominates(bi, a) for a in acc):
                        continue
                    r = rules.enforcement(f, bi)
                    if r["status"] in ("enforced", "propagated"):
                        unconditional[mod] = unconditional.get(mod, 0) + 1
    return out


def rejecting_checks_floor(ck, c, scope, name_pat, spec_key, rule="CMP"):
    """The number of refusing comparisons per verifier module does not fall below the frozen count (a deleted check leaves
    no other trace in the shape of the code)."""
    import json
    path = os.path.join(os.path.dirname(os.path.dirname(os.path.abspath(__file__))), "spec", "verifier_checks.json")
    ref = json.load(open(path)).get(spec_key, {}) if os.path.exists(path) else {}
    unc = {}
    cur = rejecting_checks_by_module(c, scope, name_pat, unc)
    for mod, nref in sorted(ref.items()):
        ck.ob(rule, mod, "refusing-comparisons-not-fewer", cur.get(mod, 0) >= nref,
              "%d comparisons that can refuse in the verifier functions of this module (reference %d)" % (cur.get(mod, 0), nref), "")
    # the same for checks that EVERY accepting path of their function passes (refusing comparisons and enforced calls that
    # dominate all accepting returns): a check moved behind a condition keeps the first count and lowers this one
    uref = json.load(open(path)).get(spec_key + "#unconditional", {}) if os.path.exists(path) else {}
    for mod, nref in sorted(uref.items()):
        ck.ob(rule, mod, "unconditional-checks-not-fewer", unc.get(mod, 0) >= nref,
              "%d checks that every accepting path of their function passes (reference %d)" % (unc.get(mod, 0), nref) if unc.get(mod, 0) >= nref else
              "%d checks are passed by every accepting path of their function, reference %d: a check was removed or moved behind a condition" % (unc.get(mod, 0), nref), "")
    # whole-collection equalities (`a != b` on vectors, slices, ordered maps/sets): replacing one by a length test plus a
    # one-directional containment admits substitutions and duplicates
    cref = json.load(open(path)).get(spec_key + "#collection-equalities", {}) if os.path.exists(path) else {}
    for mod, nref in sorted(cref.items()):
        got = unc.get("#coll:" + mod, 0)
        ck.ob(rule, mod, "collection-equalities-not-fewer", got >= nref,
              "%d refusing equality tests between whole collections (reference %d)" % (got, nref) if got >= nref else
              "%d refusing equality tests between whole collections, reference %d: an element-wise/ordered comparison was replaced by something weaker" % (got, nref), "")
    ck.extra["unconditional_checks"] = unc
    return cur


def zero_buffer_sweep(ck, fns, rule, floor):
    """A decoder that allocates a zero-initialised buffer (`vec![0; n]`, `[0; N]`) must hand it mutably to something (the
    read that fills it) before using it: a zero buffer that is never borrowed mutably nor written reaches the result as
    zeros, whatever the input said."""
    n = 0
    for f in fns:
        bufs = []
        for bi, blk in enumerate(f.blocks):
            for si, st in enumerate(blk["s"]):
                if "lhs" in st and st["rv"].get("k") == "repeat":
                    k = op_const(st["rv"]["a"])
                    if k is not None and const_int(k) == 0 and not st["lhs"][1]:
                        bufs.append((st["lhs"][0], bi))
            t = blk["t"]
            if t["k"] == "call" and re.search(r"vec::from_elem", t["f"].get("path", "")) and t.get("dest") and not t["dest"][1]:
                k = op_const(t["args"][0])
                if k is not None and const_int(k) == 0:
                    bufs.append((t["dest"][0], bi))
        for (l, bi) in bufs:
            # aliases by move/copy
            al, work = {l}, [l]
            while work:
                x = work.pop()
                for b2, blk in enumerate(f.blocks):
                    for st in blk["s"]:
                        if "lhs" in st and st["rv"].get("k") == "use" and not st["lhs"][1]:
                            pa = op_place(st["rv"]["a"])
                            if pa and pa[0] == x and not pa[1] and st["lhs"][0] not in al:
                                al.add(st["lhs"][0]); work.append(st["lhs"][0])
            filled = False
            used = False
            for b2, blk in enumerate(f.blocks):
                for st in blk["s"]:
                    if "lhs" not in st:
                        continue
                    if st["lhs"][0] in al and st["lhs"][1]:
                        filled = True
                    rv = st["rv"]
                    if rv.get("k") in ("ref", "rawptr") and rv["p"][0] in al:
                        if rv.get("mut") or rv["k"] == "rawptr":
                            filled = True
                        else:
                            used = True
                    elif rv.get("k") == "use":
                        pa = op_place(rv["a"])
                        if pa and pa[0] in al and st["lhs"][0] not in al:
                            used = True
                t = blk["t"]
                if t["k"] == "call":
                    for a in t["args"]:
                        pa = op_place(a)
                        if pa and pa[0] in al:
                            used = True
            if not used and not filled:
                continue
            n += 1
            ck.ob(rule, f.path, "zero-buffer-filled@bb%d" % bi, filled,
                  "the zero-initialised buffer is handed out mutably (filled) before it is used" if filled
                  else "a zero-initialised buffer is used without ever being written or borrowed mutably: the decoder returns zeros instead of the input", f.loc(bi))
    ck.floor(rule, "zero-initialised decoder buffers", n, floor)
    return n


def natural_loops(f):
    """the strongly connected regions of the CFG that contain a cycle (each once)"""
    out, seen = [], set()
    for b in sorted(f.reachable()):
        if b in seen:
            continue
        r = f.reach_from(f.succ(b))
        if b in r:
            lp = set(x for x in r if b in f.reach_from(f.succ(x))) | {b}
            seen |= lp
            out.append(lp)
    return out


# transcript entries of verifier-side functions that are made on some paths only, by protocol (function suffix -> labels, why)
CONDITIONAL_TRANSCRIPT_OK = {
    "bulletproofs::range_proof::verify_efficient": ({"G", "H", "v_keys", "n"}, "Version2 additions behind the version test"),
    "bulletproofs::set_membership_proof::verify": ({"G", "H", "v_keys"}, "Version2 additions behind the version test"),
    "bulletproofs::set_non_membership_proof::verify": ({"G", "H", "v_keys"}, "Version2 additions behind the version test"),
    "id::id_verifier::verify_attribute_range": ({"AttributeRangeProof", "a", "b", "attribute_range_proof"}, "the two proof versions use different transcripts (match on the version)"),
    "id::id_verifier::verify_value_equal_to_commitment": ({"keys", "C"}, "Version2 additions behind the version test"),
}


def conditional_transcript_sweep(ck, c, scope, rule="DOM", floor=1):
    """Every entry a verifier-side function makes in the Fiat-Shamir transcript is made on every accepting path (entries in a
    loop over a vector count per element), except the version-gated ones listed above: an entry behind a condition leaves
    the challenge independent of that value whenever the condition fails."""
    from vlib import transcript
    n = 0
    for p in sorted(c.paths()):
        if not scope.search(p) or re.search(r"::tests?::|::test_|prove|prover|\{closure", p):
            continue
        for b in c.get_all(p):
            f = Fn(b)
            seq = transcript.sequence(f)
            if not seq:
                continue
            acc, _ = f.accept_points()
            lps = natural_loops(f)
            cond = sorted(set(str(l) for (m, l, _, bi) in seq if not all(f.dominates(bi, a) for a in acc) and not any(bi in lp for lp in lps)))
            allow, why = set(), ""
            for suf, (labs, w) in CONDITIONAL_TRANSCRIPT_OK.items():
                if p.endswith(suf):
                    allow, why = labs, w
            extra = [l for l in cond if l not in allow]
            n += 1
            ck.ob(rule, p, "transcript-entries-unconditional", not extra,
                  ("all %d transcript entries are made on every accepting path" % len(seq)) + ((" except %s (%s)" % (sorted(cond), why)) if cond else "") if not extra else
                  "transcript entries %s are made on some paths only: on the other paths the challenge does not depend on them" % extra, f.loc())
    ck.floor(rule, "verifier-side functions that write the transcript", n, floor)
    return n


def geometric_weight_sweep(ck, c, scope, rule="DEFUSE", floor=1):
    """Weights of a linear combination that are carried around a loop (`w`, then `w *= base` per item) must be UPDATED from
    their previous value: a weight that is multiplied into the items and, inside the same loop, plainly re-assigned from a
    loop-invariant value stops growing after the first step (1, b, b, b, .. instead of 1, b, b^2, ..)."""
    n = 0
    for p in sorted(c.paths()):
        if not scope.search(p) or re.search(r"::tests?::|::test_", p):
            continue
        for b in c.get_all(p):
            f = Fn(b)
            loops = natural_loops(f)
            if not loops:
                continue
            muls = f.calls(r"Field::mul_assign$|ops::MulAssign::mul_assign$|Field::add_assign$")

            def ref_local(op):
                q = op_place(op)
                for _ in range(8):
                    if q is None:
                        return None
                    ds = f.defs().get(q[0], [])
                    if len(ds) == 1 and ds[0][1] != "t" and ds[0][2]["rv"].get("k") == "ref":
                        pp = ds[0][2]["rv"]["p"]
                        if not pp[1]:
                            return pp[0]
                        if [str(x) for x in pp[1]] == ["*"]:
                            q = [pp[0], []]         # reborrow `&*r`
                            continue
                        return None
                    if len(ds) == 1 and ds[0][1] != "t" and ds[0][2]["rv"].get("k") == "use":
                        q = op_place(ds[0][2]["rv"]["a"])
                        continue
                    return None
                return None
            for lp in loops:
                inloop = [(bi, t) for (bi, t) in muls if bi in lp and t["f"]["path"].endswith("mul_assign") and len(t["args"]) == 2]
                weights = set()
                for (bi, t) in inloop:
                    recv, mult = ref_local(t["args"][0]), ref_local(t["args"][1])
                    if recv is not None and mult is not None and recv != mult:
                        weights.add(mult)
                # loop-carried weights: also mutated inside the loop (receiver of a mul/add) or assigned there
                for w in sorted(weights):
                    mutated = [bi for (bi, t) in muls if bi in lp and ref_local(t["args"][0]) == w]
                    assigned = [(bi, st) for bi in lp for st in f.stmts(bi) if "lhs" in st and st["lhs"][0] == w and not st["lhs"][1]]
                    if not mutated and not assigned:
                        continue        # loop-invariant multiplier
                    n += 1
                    bad = []
                    for (bi, st) in assigned:
                        rv = st["rv"]
                        src = rules.root_local(f, rv["a"]) if rv.get("k") == "use" and op_const(rv["a"]) is None else None
                        if rv.get("k") == "use" and (op_const(rv["a"]) is not None or (src and not src[1] and src[0] != w and not any(b2 in lp for (b2, _, _) in f.defs().get(src[0], [])))):
                            bad.append(bi)
                    ck.ob(rule, p, "loop-carried-weight-updated-from-itself:%s" % f.names().get(w, "_%d" % w), not bad,
                          "the weight is updated by multiplication/addition on its previous value" if not bad else
                          "inside the loop the weight is re-assigned from a loop-invariant value: the progression of weights collapses after the first item", f.loc(bad[0]) if bad else f.loc(sorted(lp)[0]))
    ck.floor(rule, "loop-carried weights of linear combinations", n, floor)
    return n


def gated_verification_sweep(ck, c, scope, rule="DOM", floor=1, callee=r"::verify[a-z_0-9]*$|verify_signature[a-z_0-9]*$|::check_[a-z_0-9]*$"):
    """A verification call may sit in a match arm (it applies to one kind of credential/statement) or behind earlier
    refusals, but it is never switched off by the SIZE of something: `if !proofs.is_empty() && !verify(..)` skips the check
    exactly for the inputs that carry nothing else to protect them.  Gate = a dominating switch with a single edge towards
    the call whose other edges do not all refuse; a gate fed by is_empty()/len() is reported."""
    n = 0
    for p in sorted(c.paths()):
        if not scope.search(p) or re.search(r"::tests?::|::test_|prove|prover", p):
            continue
        for b in c.get_all(p):
            f = Fn(b)
            sites = [(bi, t) for (bi, t) in f.calls(callee) if re.search(r"concordium_base::", t["f"].get("path", "") + " " + (t["f"].get("resolved") or ""))]
            if not sites:
                continue
            rr = f.reject_region()
            sw = f.switches()
            for k, (bi, t) in enumerate(sites):
                n += 1
                gates = []
                for (sb, st) in sw:
                    if sb == bi or not f.dominates(sb, bi):
                        continue
                    succs = [tb for _, tb in st["t"]] + ([st["o"]] if st["o"] is not None else [])
                    toward = [x for x in succs if f.dominates(x, bi)]
                    others = [x for x in succs if not f.dominates(x, bi)]
                    if len(toward) != 1 or not others:
                        continue
                    others = [rules.resolve_const_edge(f, x) for x in others]
                    if all(x in rr for x in others):
                        continue        # an earlier refusal that was passed
                    o = f.origins(st["d"], deep=True)
                    if has_call_origin(o, r"::is_empty$|::len$") and not any(a[0] == "discr" for a in f.origins(st["d"], deep=False)):
                        gates.append(sb)
                ck.ob(rule, p, "verification-not-gated-by-size#%d:%s" % (k, t["f"]["path"].split("::")[-1]), not gates,
                      "reached on every path of its arm (no emptiness/length gate)" if not gates else
                      "the verification is skipped depending on is_empty()/len() of some collection (the other branch does not refuse): inputs of that size are accepted unchecked", f.loc(gates[0]) if gates else f.loc(bi))
    ck.floor(rule, "verification calls examined for size gates", n, floor)
    return n
