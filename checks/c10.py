"""C10 — schema-directed JSON <-> binary conversion (structural part)."""
from .common import *
from vlib.mir import path_conditions
from .codec import *
from vlib.transcript import rpo

META = dict(
    technique="static analysis: exhaustiveness of constructor dispatch, per-constructor codec-class agreement (KSYM), codec-token symmetry, bounded-allocation and error-discipline sweeps over compiler MIR",
    text=("Structural necessary conditions: both conversion directions dispatch on every schema type constructor explicitly (no "
          "silent default); for each constructor the classes of bytes written from JSON (primitive type and width, length prefix, "
          "tag width, LEB128, recursion into element/field types) equal the classes read back to JSON; the binary forms of schema "
          "types themselves agree between writer and reader (covered by the contract-side SYM sweep restricted to schema types); "
          "pre-allocations while converting bytes to JSON are bounded and no unwrap is applied to input-derived values. "
          "Value-level faithfulness and the documented normalisations are NOT decided."),
)

CC = "concordium_contracts_common"
W = CC + "::schema_json::write_bytes_from_json_schema_type"
R = CC + "::schema_json::<impl concordium_contracts_common::schema::Type>::to_json"
WF = CC + "::schema_json::write_bytes_from_json_schema_fields"
RF = CC + "::schema_json::<impl concordium_contracts_common::schema::Fields>::to_json"

WCLASS = [
    (r"schema_json::write_bytes_from_json_schema_type$", lambda t: "REC"),
    (r"schema_json::write_bytes_from_json_schema_fields$", lambda t: "RECF"),
    (r"schema_json::write_bytes_for_length_of_size$|schema::serial_length$", lambda t: "LEN"),
    (r"schema_json::serial_biguint$", lambda t: "ULEB"),
    (r"schema_json::serial_bigint$", lambda t: "ILEB"),
    (r"(traits::)?Write::write_(u8|u16|u32|u64)$", lambda t: "PRIM:" + t["f"]["name"].split("_")[1]),
    (r"(traits::)?Serial::serial$", lambda t: "PRIM:" + sym.norm_ty(t["f"].get("self"))),
    (r"(traits::)?Write::write_all$", lambda t: "BYTES"),
    (r"impls::serial_vector_no_length$", lambda t: "BYTES" if "u8" in t["f"].get("gargs", []) else "VEC"),
]
RCLASS = [
    (r"schema::Type>::to_json$", lambda t: "REC"),
    (r"schema::Fields>::to_json$", lambda t: "RECF"),
    (r"schema::deserial_length$", lambda t: "LEN"),
    (r"schema_json::deserial_biguint$", lambda t: "ULEB"),
    (r"schema_json::deserial_bigint$", lambda t: "ILEB"),
    (r"(traits::)?Read::read_(u8|u16|u32|u64)$", lambda t: "PRIM:" + t["f"]["name"].split("_")[1]),
    (r"(traits::)?Deserial::deserial$", lambda t: "PRIM:" + sym.norm_ty(t["f"].get("self"))),
    (r"(traits::)?Get::get$", lambda t: "PRIM:" + sym.norm_ty((t["f"].get("gargs") or ["?"])[-1])),
    (r"(traits::)?Read::read_exact$", lambda t: "BYTES"),
]
# helper functions summarised by the classes they contain (computed from their own bodies)
R_HELPERS = [r"schema_json::item_list_to_json$", r"schema_json::deserial_string$"]
# contract-side value types that serialise as a single primitive
PRIM_ALIAS = {"concordium_contracts_common::types::Amount": "u64", "concordium_contracts_common::Amount": "u64"}


def classes(c, f, region, table, helpers=(), depth=0):
    out = set()
    for bi in rpo(f):
        if region is not None and bi not in region:
            continue
        for s in f.stmts(bi):
            rv = s.get("rv", {})
            if rv.get("k") == "agg" and rv.get("agg") == "closure" and depth < 2:
                for b in c.get_all(rv["closure"]):
                    out |= classes(c, Fn(b), None, table, helpers, depth + 1)
        t = f.term(bi)
        if t["k"] != "call" or "path" not in t["f"]:
            continue
        for pat, fn in table:
            if callee_match(t, pat):
                k = fn(t)
                if k.startswith("PRIM:"):
                    k = "PRIM:" + PRIM_ALIAS.get(k[5:], k[5:])
                out.add(k)
                break
        else:
            for h in helpers:
                if callee_match(t, h) and depth < 2:
                    tgt = t["f"].get("res", t["f"]["path"])
                    for b in c.get_all(tgt):
                        out |= classes(c, Fn(b), None, table, helpers, depth + 1)
    return out


def type_switch(f, nvar):
    for (sb, st) in f.switches():
        o = f.origins(st["d"])
        if ("discr",) in o and ("arg", 1) in o and len(st["t"]) >= nvar - 1:
            return sb, st
    return None


def run(ck):
    ck.explanation = ("Decides that both conversion directions dispatch on every schema constructor, that per constructor the written and "
                      "read codec classes agree, that schema types' own binary forms are symmetric, and that byte-to-JSON conversion "
                      "pre-allocates boundedly.")
    ck.undecided = "to_json(write_bytes(json)) == json up to normalisation; bytes equal the contract-side encoding of the value; base64/version-prefix handling at value level."
    ck.rules_text = "TAB(exhaustive)/KSYM/SYM/ALLOC/ERR over MIR of concordium_contracts_common::schema_json and ::schema"
    c = crate("rs", CC)
    adt = c.adts.get(CC + "::schema::Type")
    if not ck.anchor(adt is not None, "TAB", "schema::Type", "enum exists"):
        return
    names = [v["name"] for v in adt["variants"]]
    ck.floor("TAB", "schema::Type constructors", len(names), 32)
    w = getfn(ck, "rs", CC, W)
    r = getfn(ck, "rs", CC, R)
    if w and r:
        wsw, rsw = type_switch(w, len(names)), type_switch(r, len(names))
        if ck.anchor(wsw is not None and rsw is not None, "TAB", "schema_json", "dispatch on schema::Type in both directions"):
            for f, sw, what in ((w, wsw, "json->bytes"), (r, rsw, "bytes->json")):
                sb, st = sw
                explicit = set(int(v) for v, _ in st["t"])
                missing = [names[i] for i in range(len(names)) if i not in explicit]
                dflt_unreachable = f.term(st["o"])["k"] == "unreachable"
                ck.ob("TAB", f.path, "exhaustive:" + what, not missing or False, "every constructor has its own arm" if not missing else
                      "constructors handled by a default arm: %s" % missing, f.loc(sb))
                ck.ob("TAB", f.path, "no-default-arm:" + what, dflt_unreachable or not missing, "the default target is unreachable (the match is exhaustive without wildcard)", f.loc(sb), nontrivial=False)
            wm = {int(v): tb for v, tb in wsw[1]["t"]}
            rm = {int(v): tb for v, tb in rsw[1]["t"]}
            for i, n in enumerate(names):
                if i not in wm or i not in rm:
                    continue
                wc = classes(c, w, sym.dominated(w, wm[i]), WCLASS)
                rc = classes(c, r, sym.dominated(r, rm[i]), RCLASS, R_HELPERS)
                # a byte list read back by read_u8 in a loop corresponds to u8 items written one by one
                ck.ob("KSYM", "schema::Type::" + n, "codec-classes", wc == rc, "written %s / read %s" % (sorted(wc), sorted(rc)), w.loc(wm[i]),
                      sample=dict(rule="KSYM", constructor=n, written=sorted(wc), read=sorted(rc)))
            # the width of an enum tag is chosen by the NUMBER OF VARIANTS on both sides (and by the contract-side derive):
            # the one-byte form must sit under a comparison of variants.len() with 256, not under a test of the index
            if "Enum" in names and names.index("Enum") in wm and names.index("Enum") in rm:
                ei = names.index("Enum")
                for f, tb, pat, what in ((w, wm[ei], r"::write_u8$", "json->bytes"), (r, rm[ei], r"traits::Deserial::deserial$", "bytes->json")):
                    region = sym.dominated(f, tb)
                    sites = [(bi, t) for (bi, t) in f.calls(pat) if bi in region and (what == "json->bytes" or (t["f"].get("self") or "") == "u8")]
                    ck.ob("CMP", f.path, "enum-tag-u8-sites:" + what, len(sites) >= 1, "%d one-byte tag sites" % len(sites), f.loc(tb), nontrivial=False)
                    for k, (bi, t) in enumerate(sites):
                        guards = []
                        for (sb, val) in path_conditions(f, bi):
                            for cx in rules.comparisons(f):
                                br = rules.cmp_branches(f, cx)
                                if br and br[0] == sb:
                                    o = f.origins(cx["a"], deep=True) | f.origins(cx["b"], deep=True)
                                    guards.append((cx["op"], any(a[0] == "call" and a[1].endswith("::len") for a in o), sorted(set(a[1] for a in o if a[0] == "lit"))))
                        ok = any(g[1] and 256 in g[2] for g in guards)
                        ck.ob("CMP", f.path, "enum-tag-width-by-variant-count:%s#%d" % (what, k), ok,
                              "the one-byte tag is used under a comparison of the number of variants with 256" if ok else
                              "the one-byte tag is not guarded by a comparison of variants.len() with 256 (guards found: %s): the two directions and the contract-side encoding disagree for enums with more than 256 variants" % guards, f.loc(bi))
    # Fields
    fa = c.adts.get(CC + "::schema::Fields")
    wf, rf = getfn(ck, "rs", CC, WF), getfn(ck, "rs", CC, RF)
    if fa and wf and rf:
        fn_names = [v["name"] for v in fa["variants"]]
        for f, what in ((wf, "json->bytes"), (rf, "bytes->json")):
            sw = None
            for (sb, st) in f.switches():
                o = f.origins(st["d"])
                if ("discr",) in o and ("arg", 1) in o and len(st["t"]) >= len(fn_names) - 1:
                    sw = (sb, st)
                    break
            if ck.anchor(sw is not None, "TAB", f.path, "dispatch on schema::Fields"):
                explicit = set(int(v) for v, _ in sw[1]["t"])
                dflt = f.term(sw[1]["o"])["k"] == "unreachable" or len(explicit) == len(fn_names) - 1
                ck.ob("TAB", f.path, "exhaustive:" + what, dflt, "Fields constructors %s all handled explicitly" % fn_names, f.loc(sw[0]))
        wc = classes(c, wf, None, WCLASS)
        rc = classes(c, rf, None, RCLASS, R_HELPERS)
        ck.ob("KSYM", "schema::Fields", "codec-classes", wc == rc, "written %s / read %s" % (sorted(wc), sorted(rc)), wf.loc())

    # schema types' own binary form
    ws, rs = pairs(c, r"concordium_contracts_common::(traits::)?Serial$", r"concordium_contracts_common::(traits::)?Deserial$")
    ws = {k: v for k, v in ws.items() if "::schema::" in k}
    rs = {k: v for k, v in rs.items() if "::schema::" in k}
    ck.floor("SYM", "schema Serial/Deserial pairs", len(set(ws) & set(rs)), 12)
    # expansion needs the generic container impls too
    aw, ar = pairs(c, r"concordium_contracts_common::(traits::)?Serial$", r"concordium_contracts_common::(traits::)?Deserial$")
    wi = {sym.strip_lt(k): v for k, v in aw.items()}
    ri = {sym.strip_lt(k): v for k, v in ar.items()}
    nmatch = 0
    for ty in sorted(set(ws) & set(rs)):
        fw, fr = Fn(ws[ty]), Fn(rs[ty])
        v, d = sym.compare_struct(fw, fr, wi, ri)
        if v == "UNSUPPORTED":
            base = ty.split("<")[0]
            a = c.adts.get(base)
            res = sym.compare_enum(fw, fr, base, None, wi, ri) if a is not None and a["kind"] == "Enum" else None
            if res is None:
                ck.note("schema pair outside the SYM abstraction: " + ty)
                continue
            for (vv, vi, dd) in res:
                if vv != "UNSUPPORTED":
                    nmatch += vv == "MATCH"
                    ck.ob("SYM", ty, "variant:" + a["variants"][vi]["name"], vv == "MATCH", dd, fw.loc())
            continue
        nmatch += v == "MATCH"
        ck.ob("SYM", ty, "pair", v == "MATCH", d, fw.loc())
    ck.floor("SYM", "agreeing schema pairs/variants", nmatch, 30)
    # version prefix detection of VersionedModuleSchema
    vp = [p for p in c.paths() if re.search(r"schema::VersionedModuleSchema::(new|from_bytes|deserial|from_base64_str)", p)]
    ck.extra["versioned_schema_entry_points"] = sorted(vp)

    # allocation / error discipline while converting bytes to JSON
    cg = CallGraph([c])
    roots = [R, RF, CC + "::schema_json::item_list_to_json", CC + "::schema_json::deserial_string",
             CC + "::schema_json::deserial_biguint", CC + "::schema_json::deserial_bigint"]
    alloc_err_sweep(ck, cg, [x for x in roots if x in cg.bodies], floor=4,
                    scope_pred=lambda p: "schema_json" in p or "::schema::" in p)

    # length prefixes: what is announced is the number of items / BYTES that follow (`len()` of the very collection or
    # string that is written next), never a character count or another derived number
    nlp = 0
    for p in sorted(c.paths()):
        if "schema_json" not in p:
            continue
        for b in c.get_all(p):
            f = Fn(b)
            for k, (bi, t) in enumerate(f.calls(r"write_bytes_for_length_of_size$")):
                o = f.origins(t["args"][0], deep=True)
                lens = [a for a in o if a[0] == "call" and re.search(r"::len$", a[1])]
                other = [a[1].split("::")[-1] for a in o if a[0] == "call" and re.search(r"Iterator::(count|sum|fold|max|min)$|::chars$|char_indices$|::(checked_)?(add|sub|mul|div)$", a[1])] + \
                        [a[1] for a in o if a[0] == "bin"]
                nlp += 1
                ck.ob("DEFUSE", p, "length-prefix-is-len#%d" % k, len(lens) >= 1 and not other,
                      "the announced length is len() of the data that follows" if lens and not other else
                      "the announced length is computed with %s instead of the byte/element length of what is written next" % (other or "something other than len()"), f.loc(bi))
    ck.floor("DEFUSE", "length prefixes written by the JSON->bytes direction", nlp, 7)

    # arbitrary-precision numbers (ULeb128 / ILeb128 with up to `constraint` groups of 7 bits) are accumulated in arbitrary
    # precision on both sides: a machine integer shifted by a loop-dependent amount loses the groups beyond its width
    nleb = 0
    for p in sorted(c.paths()):
        if not re.search(r"schema_json::(de)?serial_big(u)?int(::\{closure#\d+\})*$", p):
            continue
        for b in c.get_all(p):
            f = Fn(b)
            nleb += 1
            narrow = []
            for bi in sorted(f.reachable()):
                for st in f.stmts(bi):
                    rv = st.get("rv", {})
                    if rv.get("k") == "bin" and rv["op"].startswith("Shl") and op_const(rv["b"]) is None:
                        narrow.append(bi)
            big = f.calls(r"ops::(Shl|ShlAssign|Shr|ShrAssign|AddAssign|SubAssign|BitAnd|Rem|Div|DivAssign)[:<].*$|num_bigint|BigU?[Ii]nt")
            ck.ob("DEFUSE", p, "leb128-accumulated-in-arbitrary-precision", not narrow and len(big) >= 1,
                  "groups are combined with big-integer operations only" if not narrow and big else
                  "7-bit groups are shifted into a fixed-width integer by a loop-dependent amount: values beyond its width lose their high groups although the schema admits them", f.loc(narrow[0]) if narrow else f.loc())
    ck.floor("DEFUSE", "LEB128 big-integer codecs", nleb, 4)

    # FunctionV2's tag encodes WHICH of (parameter, return value, error) follow. Writer: tag chosen from the three presence
    # flags; reader: each field is read for a set of tags. Both tables are read off the code by conditional constant
    # propagation per tag value / per flag combination (vlib/sccp.py) and must be inverse to each other
    from vlib import sccp
    import itertools
    wq = [p0 for p0 in c.paths() if re.search(r"schema::FunctionV2 as .*Serial>::serial$", p0)]
    rq = [p0 for p0 in c.paths() if re.search(r"schema::FunctionV2 as .*Deserial>::deserial$", p0)]
    if ck.anchor(len(wq) == 1 and len(rq) == 1, "TAB", "schema::FunctionV2", "Serial and Deserial implementations"):
        fw, fr = Fn(c.get_all(wq[0])[0]), Fn(c.get_all(rq[0])[0])
        iss = []
        for (bi, t) in fw.calls(r"Option::<T>::is_some$"):
            fl = sorted(a[1] for a in fw.origins(t["args"][0], deep=True) if a[0] == "field" and not a[1].isdigit())
            if len(fl) == 1:
                iss.append((t["dest"][0], fl[0]))
        wtab = {}
        if len(iss) == 3:
            cands = {}
            for bi in fw.reachable():
                for st in fw.stmts(bi):
                    if "lhs" in st and not st["lhs"][1] and st["rv"].get("k") == "use" and op_const(st["rv"]["a"]) is not None and op_const(st["rv"]["a"]).get("ty") == "u8":
                        cands.setdefault(st["lhs"][0], []).append((bi, const_int(op_const(st["rv"]["a"]))))
            tagl = max(cands, key=lambda l: len(cands[l])) if cands else None
            for combo in itertools.product([0, 1], repeat=3):
                ex = sccp.reachable_blocks(fw, iss[0][0], combo[0], {iss[i][0]: combo[i] for i in range(3)})
                ks = sorted(set(k for (bi, k) in cands.get(tagl, []) if bi in ex))
                if len(ks) == 1:
                    wtab[ks[0]] = frozenset(iss[i][1] for i in range(3) if combo[i])
        idx = [l for l in range(1, len(fr.locals)) if fr.locals[l] == "u8" and any(si == "t" and re.search(r"read_u8$", it["f"].get("path", "")) for (_, si, it) in fr.defs().get(l, []))]
        rtab = {}
        ins = [(bi, sorted(a[1] for a in fr.origins(t["args"][0], deep=True) if a[0] == "field" and not a[1].isdigit())) for (bi, t) in fr.calls(r"Option::<T>::insert$")]
        # the tag local: the one the switches test (payload of the `?` on read_u8)
        tagc = [l for l, nm in fr.names().items() if nm in ("idx", "tag")]
        acc_r, _ = fr.accept_points()
        for v in range(0, 256):
            if not tagc:
                break
            ex = sccp.reachable_blocks(fr, tagc[0], v)
            if not any(a in ex for a in acc_r):
                continue        # refused tag
            rtab[v] = frozenset(fl[0] for (bi, fl) in ins if bi in ex and len(fl) == 1)
        okt = len(wtab) == 8 and wtab == rtab
        ck.ob("TAB", "schema::FunctionV2", "tag-table-inverse", okt,
              "the 8 tags written for the presence combinations are exactly the tags accepted, and each is read back as the same combination" if okt else
              "writer and reader disagree on what a tag announces: %s" % {k: (sorted(wtab.get(k, ["-"])), sorted(rtab.get(k, ["-"]))) for k in sorted(set(wtab) | set(rtab)) if wtab.get(k) != rtab.get(k)}, fr.loc())

    # totality on truncated input: inside a loop driven by a declared length, a failed read ends the loop. A loop that
    # records the failure and goes on performs `length` iterations (each allocating an error) on an input that only holds
    # the length prefix.
    CONSUME = re.compile(r"traits::Read::read[a-z_0-9]*$|traits::Deserial::deserial$|schema_json::.*to_json$|schema_json::deserial_[a-z_]+$|"
                         r"ops::Fn::call$|ops::FnMut::call_mut$|traits::Get::get$")
    nl = 0
    for p in sorted(c.paths()):
        if "schema_json" not in p:
            continue
        for b in c.get_all(p):
            f = Fn(b)
            for (bi, t) in f.calls(CONSUME):
                if bi not in f.reach_from(f.succ(bi)):
                    continue
                r = rules.enforcement(f, bi)
                nl += 1
                ck.ob("ENF", p, "loop-read-enforced:%s@%s" % (t["f"]["name"], len([x for x in f.calls(CONSUME) if x[0] < bi])), r["status"] in ("enforced", "propagated"),
                      "a failed %s inside the length-driven loop leaves the loop (%s)" % (t["f"]["name"], r["status"]) if r["status"] in ("enforced", "propagated") else
                      "the result of %s inside a length-driven loop is %s: on truncated input the loop runs for the whole declared length, allocating an error per element" % (t["f"]["name"], r["status"]), f.loc(bi))
    ck.floor("ENF", "input-consuming calls inside loops of schema_json", nl, 9)

    # exact consumption: a non-exact read (which may return fewer OR as many bytes as the buffer holds) is given a buffer
    # bounded by what is left of the declared length, otherwise bytes that follow the value are consumed
    nr = 0
    for p in sorted(c.paths()):
        if "schema_json" not in p and "::impls::" not in p:
            continue
        if re.search(r"Read for |::read_exact$", p):
            continue            # adaptors implementing Read itself
        for b in c.get_all(p):
            f = Fn(b)
            for (bi, t) in f.calls(r"traits::Read::read$|io::Read::read$"):
                o = f.origins(t["args"][1], deep=True)
                bounded = any(a[0] == "call" and re.search(r"cmp::min$|Ord::min$", a[1]) for a in o) or any(a[0] == "bin" and a[1].startswith("Sub") for a in o)
                nr += 1
                ck.ob("CMP", p, "partial-read-bounded-by-remaining", bounded,
                      "the buffer handed to read() is cut to the remaining length" if bounded else
                      "read() is given the whole chunk buffer although fewer bytes may remain of the declared length: it can consume bytes that follow the value, after which the length test fails", f.loc(bi))
    ck.floor("CMP", "non-exact reads in schema decoders", nr, 1)
