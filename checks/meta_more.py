"""Additions to the per-property descriptions (rules added after the first complete version of each check);
appended to META['text'] / META['technique'] by tools/gen_manifest.py and the evidence writer."""
MORE = {
 "C01": ("Also decided: all 19 memory instructions (one full-width effective-address addition, checked width = read width, reader/width/"
         "signedness/target per arm against the specification), the interpreter's control and accounting arms (jump conditions, unsigned "
         "br_table selection and stride, select, eqz, memory.grow, enforced tick/track_call/host call, dynamic call_indirect type test), "
         "agreement of the operands written after every opcode emission site with what the interpreter's arm reads, the providers-stack "
         "effect of every compiler arm against the instruction's type, conditional copies, and that the providers stack is changed only "
         "through its own operations. Two miscompilations of value-carrying br_if are recorded as known findings. Round 2: br_table selectors are compared at 32 bits, operands are narrowed only by i32.wrap_i64 and sign-extended only by i64.extend_i32_s in the interpreter loop; a third compiler hazard (local.set inside conditional code) is a known finding.",
         "typing/stack-effect tables against the Wasm specification, compiler/interpreter emission-segment agreement, condition-under-which-reached analysis"),
 "C02": ("Also decided: no successful return of the flush helper avoids the charge unless the accumulated energy is zero; from the "
         "instruction loop every successful return passes a flush of what is pending; the compiler turns every TickEnergy into its own instruction. Round 2: the function-entry charge counts declared locals; no function is transformed after the import/type lists were shifted.",
         "must-pass-through analysis on the CFG"),
 "C03": ("Also decided: a node migrated into a newer generation gets a fresh entry slot; every in-place change of a node's value or stem "
         "is accompanied by clearing its origin on the same path. Round 2: the shared trie is normalised to the caller's generation before any use; child-list changes clear the origin of the same node; every pushed generation carries the recorded checkpoint; persistent originals are reused only if nothing changed; path compression iff no value and one child; in-place value writes only for Entry::Mutable. Round 3: every handle returned by make_fresh_generation follows new_generation (defect fixed in the repository); lookups descend only through make_owned.", "def-use rules through closures"),
 "C04": ("Also decided: migration writes and keeps only references handed out by the target store; every item of the stored, migrated and "
         "serialised node encodings has its own write site and its own enforced read site; tag-byte bits and the inline/indirect boundary "
         "agree between writers and readers; odd stems mask their padding nibble. Round 2: the marked-as-modified and freeze rules are shared with C03 (a changed node that keeps its origin is frozen as its old self); freeze_value reports a freshly created link as changed.", "format item tables with bipartite matching of items to sites"),
 "C05": ("Also decided: group elements and scalars are decoded with the validating canonical decoders (shared with C20). Round 2: presence bits read their field on the set branch; zero-initialised decoder buffers are filled; counts of short-read primitives are compared with the declared length. Round 3: a reader limited with take(declared length) is exhausted on every accepting path.", "required/forbidden-callee rules"),
 "C06": ("Also decided: the signature and key maps are iterated whole; no compared length is narrowed; equality tests refuse on difference; "
         "the number of refusing comparisons does not fall below the frozen count. Round 2: protocol cost constants and the base-cost formula; declared payload size is the size of the encoding; the sign digest is computed after the last header change; the signer uses thresholds as counts; unconditional-check counts. Round 3: num_keys agrees with what the signer produces.", "sweeps over all verifier-side comparisons"),
 "C07": ("Also decided: statement/response vectors are zipped only after comparing exactly their two lengths; narrowed-length, equality-polarity "
         "and refusing-comparison-floor sweeps. Round 2: transcript entries of public() are unconditional; a response entry missing for a statement key refuses (vcom_eq soundness defect found and fixed); loop-carried weights are updated from themselves.", "sweeps over all verifier-side comparisons"),
 "C08": ("Also decided: statement/proof zips are length-checked; narrowed-length, equality-polarity and refusing-comparison-floor sweeps. Round 2: verifier transcript entries unconditional; tags reach encode_tags with their multiplicity; unconditional-check counts.",
         "sweeps over all verifier-side comparisons"),
 "C09": ("Also decided: for all 110 instructions the validator's ordered operand/control-stack events (pops, pushes, memory/table/alignment "
         "requirements, label and frame checks, each with the relation under which it refuses) equal the table written from the WebAssembly "
         "validation rules; the validation primitives follow the specification's algorithm; alignment bounds; protocol maxima are inclusive; "
         "segment ends and function indices are bounded exactly; the parser's slice bounds, section order and trailing-data test; header words; "
         "export conditions are all necessary, duplicate and flag-gated imports are refused. Acceptance 'iff well-typed' as a whole, "
         "termination and runtime bounds safety remain NOT decided. Round 2: every protocol limit is enforced on every accepting path; two-ended input slices are ordered; the validation stacks are shortened only by their primitives. Round 3: permitted import signatures are compared whole (slice equality, is_empty, or a walk under an enforced equality of lengths).", "typing table of the validator against the WebAssembly validation algorithm"),
 "C10": ("Also decided: a failed read inside a length-driven loop leaves the loop; non-exact reads are bounded by the remaining length; the "
         "one-byte enum tag is chosen by the number of variants in both directions; every length prefix is len() of what follows. Round 2: LEB128 big integers are accumulated in arbitrary precision.",
         "loop-enforcement and guard-agreement rules"),
 "C11": ("Also decided: every vector of a proof is consumed whole; the number of inner-product rounds is tied to the vector length "
         "(n = 2^k); narrowed-length, equality-polarity and refusing-comparison-floor sweeps. Round 2: transcript entries unconditional except the frozen version-gated ones; loop-carried weights; unconditional-check counts.", "coverage rules over proof components"),
 "C12": ("Also decided: each chunk-statement vector of the accounting proof is zipped with its own response vector after comparing exactly "
         "those lengths; narrowed-length and equality-polarity sweeps. Round 2: aggregate/combine results derive from both operands; loop-carried weights; verifier transcript entries unconditional.", "zip-length rule"),
 "C13": ("Also decided: every host state field is carried over when the host is saved at an interrupt; the response is written at "
         "locals_base + return_value_loc. Round 2: suspension rule independent of local names; success responses carry the state-updated bit; pending logs are taken only when the interrupt ends a section; typed item sequences follow iterator-consumer closures. Round 3: GlobalInit payloads are parsed at the type they are written at.", "conversion coverage"),
 "C14": ("Also decided: host ABI tables (declared types, tags, dispatch, stack use); every offset-vs-memory-length test is exact for a slice it "
         "guards; range starts of host-side data are constant, clamped or non-strictly compared with a length; ranges clamped with min(.., len) "
         "are ordered by an exact test; any call handed a contract-sized slice of memory is preceded by a charge; the log limit is decided "
         "path by path; combinator operands must exist. Round 2: memory arguments are tested on every normal return; ranges from checking helpers are proved through summaries; limits clamp the end position (min over the sum); no argument is narrowed below 32 bits.", "exactness of bounds tests (linear forms), path-condition enumeration"),
 "C15": ("Also decided: a lock count becomes count - 1 only under count > 1; an ancestor lock-trie node is freed only when childless and "
         "unlocked; the root pointer is cleared only when the root node is gone; the iterator visits children[i] only under i < len and "
         "resumes at i + 1. Round 2: the lock is recorded on every successful return of insert; the lock query tests every visited node; the iterator descends only through make_owned.", "condition-under-which-reached analysis"),
 "C16": ("Also decided: receive names are cut at the first '.', durations at the first non-digit. Round 2: documented grammar of the name validators; SerialCtx and element-helper pairs; input-driven ranges of fixed-size buffers stay in bounds; a writer arm without the tag of its siblings is a mismatch. Round 3: length refusals outside the name validators are no stricter than the validators.", "required-callee rule"),
 "C17": ("Also decided: decoders never discard the sign of a decoded integer; the parsed prefix returned by a text segment is inspected; a "
         "fixed-size destination must be filled by what was actually read. Round 2: the filled test accepts equivalent forms; input iterators are exhausted; no unchecked arithmetic on decoded sizes.", "def-use rules"),
 "C18": ("Also decided: every field of the verifier-supplied verification material is read and used; lookups of revealed attributes are "
         "enforced; narrowed-length, equality-polarity and refusing-comparison-floor sweeps. Round 2: verifier transcript entries unconditional; whole-collection equalities and unconditional checks are counted per module.", "coverage of verifier inputs"),
 "C19": ("Also decided: the duplicate search is complete (no partitioning of the sorted hashes); narrowed-length, equality-polarity and "
         "refusing-comparison-floor sweeps. Round 2: verifier transcript entries unconditional; unconditional-check counts; signature aggregation is point addition on every path.", "idiom table for the duplicate scan"),
 "C20": ("Round 2: derivation paths contain every index parameter and differ by a literal; the index packing is proved injective bit by bit; sharing polynomial of exact degree; no saturating arithmetic in the multiexp recoding (multiexp = sum itself is not decided).", "round-2 rules"),
}
