"""C13 — stored artifacts and interrupted executions (structural part)."""
import json, os
from .common import *
from vlib import sym, tagtable
from vlib.callgraph import CallGraph, NONDET
from vlib.transcript import rpo

META = dict(
    technique="static analysis: field-order symmetry of artifact writer/reader pairs, tag-table bijection against a frozen protocol table, field-coverage of the suspended configuration, effect-freedom over the call graph",
    text=("Structural necessary conditions: every artifact component is written and read back field by field in the same order "
          "(Artifact, compiled function, memory, data, locals, named imports), the version and global-init tags agree on both sides "
          "and unknown tags reject; the import-function tag tables of both contract versions are exact inverses of each other and "
          "preserve the frozen protocol assignment; both places that suspend an execution store every component of the running "
          "configuration from its current binding and the program counter from the instruction pointer; resuming writes the response "
          "at locals_base + return_value_loc, passes the caller's state_updated flag to the state migration and runs the stored "
          "configuration; nothing reachable from the interpreter or the host functions reaches an RNG, clock or environment. "
          "Behavioural identity of reloaded artifacts and resumed executions is NOT decided."),
)

W = "concordium_wasm"
E = "concordium_smart_contract_engine"
SPEC = os.path.join(os.path.dirname(os.path.dirname(os.path.abspath(__file__))), "spec", "import_tags.json")
WOUT = re.compile(r"output::Output::output$|io::Write::write_all$")
RPAR = re.compile(r"parse::(Parseable::parse|GetParseable::next)$")


WITER = re.compile(r"Iterator::(try_for_each|for_each)$")


def closure_bodies(c, f, t):
    """bodies of the closures handed to call t of f"""
    out = []
    for x in t["args"]:
        pl = op_place(x)
        for (b2, si, it) in (f.defs().get(pl[0], []) if pl else []):
            if si != "t" and it["rv"].get("k") == "agg" and it["rv"].get("agg") == "closure":
                out += [Fn(b) for b in c.get_all(it["rv"]["closure"])]
    return out


def wseq(f, fields, c=None):
    out = []
    for bi in rpo(f):
        t = f.term(bi)
        if t["k"] != "call":
            continue
        if callee_match(t, WOUT):
            o = f.origins(t["args"][0], deep=False)
        elif c is not None and callee_match(t, WITER) and any(g.calls(WOUT.pattern) for g in closure_bodies(c, f, t)):
            # `self.items.iter().try_for_each(|x| x.output(out))`: the items of the iterated field are written here
            o = f.origins(t["args"][0], deep=True)
        else:
            continue
        names = [a[1] for a in o if a[0] == "field"] + [a[1].split("::")[-1] for a in o if a[0] == "call"]
        hit = [n for n in names if n in fields]
        if hit and (not out or out[-1] != hit[0]):
            out.append(hit[0])
    return out


def rseq(f, fields):
    calls = [(bi, f.term(bi)) for bi in rpo(f) if f.term(bi)["k"] == "call" and callee_match(f.term(bi), RPAR)]
    aggs = []
    for bi in f.reachable():
        for s in f.stmts(bi):
            rv = s.get("rv", {})
            if rv.get("k") == "agg" and rv.get("agg") == "adt" and rv.get("fields") and set(rv["fields"]) & set(fields):
                aggs.append(rv)
    out = []
    for (bi, t) in calls:
        for rv in aggs:
            for i, op in enumerate(rv["ops"]):
                o = f.origins(op, deep=True)
                if any(len(a) > 2 and a[0] == "call" and a[2] == bi for a in o):
                    nm = rv["fields"][i]
                    if nm in fields and (not out or out[-1] != nm):
                        out.append(nm)
    return out


def run(ck):
    ck.explanation = ("Decides field-order agreement of artifact (de)serialisation, exact inversion and stability of the import tag tables, "
                      "completeness of the suspended configuration, the wiring of resumption, and effect freedom of execution.")
    ck.undecided = ("a reloaded artifact behaves identically and re-serialises byte-identically; an interrupted and resumed execution "
                    "reaches the same outcome as an uninterrupted one (value-level).")
    ck.rules_text = "SYM(field order)/TAB(bijection, frozen)/COV/DEFUSE/EFF over MIR of wasm-transform and wasm-chain-integration"
    c = crate("sc", W)
    e = crate("sc", E)
    ws, rs = {}, {}
    for p in c.paths():
        for b in c.get_all(p):
            if b.get("name") == "output" and b.get("impl_trait", "").endswith("output::Output"):
                ws[b["impl_self"]] = b
            if b.get("name") == "parse" and "Parseable" in b.get("impl_trait", ""):
                rs[b["impl_self"]] = b
    A = W + "::artifact::"
    plist = [(A + "ArtifactLocal", A + "ArtifactLocal", A + "ArtifactLocal"),
             (A + "ArtifactData", A + "ArtifactData", A + "ArtifactData"),
             (A + "ArtifactNamedImport", A + "ArtifactNamedImport", A + "ArtifactNamedImport"),
             (A + "ArtifactMemory", A + "ArtifactMemory", A + "ArtifactMemory"),
             ("C", A + "CompiledFunctionBytes<'a>", A + "CompiledFunctionBytes"),
             (A + "Artifact<ImportFunc, CompiledCode>", A + "Artifact<I, concordium_wasm::artifact::CompiledFunctionBytes<'a>>", A + "Artifact")]
    for wk, rk, adtn in plist:
        if not ck.anchor(wk in ws and rk in rs, "SYM", adtn, "Output and Parseable implementations"):
            continue
        adt = c.adts.get(adtn)
        fields = [f["name"] for f in adt["variants"][0]["fields"]] if adt else []
        sw = wseq(Fn(ws[wk]), fields, c)
        sr = rseq(Fn(rs[rk]), fields)
        ck.ob("SYM", adtn, "field-order", sw == sr and len(sw) >= 2, "written %s / read %s" % (sw, sr), "%s:%d" % (ws[wk]["file"], ws[wk]["line"]),
              sample=dict(rule="SYM", type=adtn, written=sw, read=sr))
        ck.ob("COV", adtn, "all-fields-stored", set(sw) >= set(f for f in fields if f not in ("export",)) or set(fields) - set(sw) <= {"export"},
              "fields %s; written %s" % (fields, sw), "%s:%d" % (ws[wk]["file"], ws[wk]["line"]), nontrivial=False)
    # typed sequences: what the writer emits, item by item (including length prefixes and the items written inside loops), is
    # what the reader parses, in the same order and with the same types
    def norm_t(t):
        t = re.sub(r"concordium_wasm::(artifact|types|parse|validate)::", "", t or "")
        t = re.sub(r"std::(vec|option|result|collections)::", "", t)
        t = re.sub(r"<'[a-z_]+>", "", t)
        t = re.sub(r"^&(mut )?", "", t)
        t = {"InstantiatedTable": "Vec<Option<u32>>", "ImportFunc": "I", "Vec<CompiledCode>": "Vec<CompiledFunctionBytes>", "CompiledCode": "CompiledFunctionBytes",
             "TypeIndex": "u32", "FuncIndex": "u32", "[ValueType]": "&[ValueType]"}.get(t, t)
        t = t.replace("Vec<CompiledCode>", "Vec<CompiledFunctionBytes>")
        t = re.sub(r"^Vec<(.*)>$", r"[\1]", t)       # a slice and a vector have the same encoding (length, then the items)
        t = t.replace("&[", "[")
        return t
    for wk, rk, adtn in plist:
        if wk not in ws or rk not in rs:
            continue
        fw, fr = Fn(ws[wk]), Fn(rs[rk])
        OUTC = r"output::Output::output$|Output>::output$"
        wt_ = [((t["fline"] if "fline" in t else fw.b["blocks"][bi]["t"].get("line", 0)), norm_t(t["f"].get("self"))) for (bi, t) in fw.calls(OUTC)]
        for (bi, t) in fw.calls(WITER.pattern):
            for g in closure_bodies(c, fw, t):
                wt_ += [(t2.get("fline", 0), norm_t(t2["f"].get("self"))) for (_, t2) in g.calls(OUTC)]
        wt_.sort()
        rt_ = []
        for (bi, t) in fr.calls(r"GetParseable::next$|GetParseable<.*>::next$|Parseable::parse$|Parseable<.*>::parse$"):
            m = re.match(r"^std::result::Result<(.*), anyhow::Error>$", fr.locals[t["dest"][0]])
            rt_.append((t.get("fline", 0), norm_t(m.group(1) if m else fr.locals[t["dest"][0]])))
        rt_.sort()
        a, b2 = [x[1] for x in wt_], [x[1] for x in rt_]
        ck.ob("SYM", adtn, "typed-sequence", a == b2 and len(a) >= 2, "written %s / parsed %s" % (a, b2), "%s:%d" % (ws[wk]["file"], ws[wk]["line"]))

    # version / global-init tags
    av = find_impl(ck, "sc", W, r"artifact::ArtifactVersion$", r"Parseable", "parse")
    aw = find_impl(ck, "sc", W, r"artifact::ArtifactVersion$", r"output::Output$", "output")
    if av and aw:
        rt, dr = tagtable.reader_table(av, A + "ArtifactVersion")
        wl = set()
        for (bi, t) in aw.calls(r"write_all$"):
            wl |= set(a[1] for a in aw.origins(t["args"][1], deep=True) if a[0] == "lit")
        ck.ob("TAB", A + "ArtifactVersion", "version-tag", set(rt) == wl and dr is True and len(rt) >= 1, "written %s, accepted %s, other values rejected: %s" % (sorted(wl), sorted(rt), dr), av.loc())
    gi_w = find_impl(ck, "sc", W, r"types::GlobalInit$", r"output::Output$", "output")
    gi_r = find_impl(ck, "sc", W, r"artifact::InstantiatedGlobals$", r"Parseable", "parse")
    if gi_w and gi_r:
        wt = tagtable.writer_table(gi_w, c.adts, "concordium_wasm::types::GlobalInit")
        rt, dr = tagtable.reader_table(gi_r, "concordium_wasm::types::GlobalInit")
        inv = {v: k[0] for k, v in wt.items()}
        ck.ob("TAB", "GlobalInit", "tag-bijection", inv == {k: v[0] for k, v in rt.items()} and len(inv) == 2 and dr is True, "written %s / read %s; unknown rejected: %s" % (wt, rt, dr), gi_r.loc())
        # the payload of every variant is parsed at the type it was written at (signed and unsigned LEB128 differ from the first
        # negative value on): payload types written (everything but the tag bytes) == types parsed (minus the count and the tag)
        wty = sorted(x for x in ((t["f"].get("self") or "") for (_, t) in gi_w.calls(r"output::Output::output$|Output>::output$")) if x != "u8")
        rty = []
        for (bi, t) in gi_r.calls(r"GetParseable::next$|GetParseable<.*>::next$|Parseable::parse$|Parseable<.*>::parse$"):
            m = re.match(r"^std::result::Result<(.*), anyhow::Error>$", gi_r.locals[t["dest"][0]])
            rty.append(m.group(1) if m else gi_r.locals[t["dest"][0]])
        rest = list(rty)
        for x in ("u32", "u8"):
            if x in rest:
                rest.remove(x)
        ck.ob("SYM", "GlobalInit", "payload-parsed-at-the-written-type", sorted(rest) == wty and len(wty) == 2,
              "payloads written as %s, parsed as %s (after the u32 count and the u8 tag)" % (wty, sorted(rest)), gi_r.loc())

    # import tags
    ref = json.load(open(SPEC)) if os.path.exists(SPEC) else {}
    for ver in ("v0", "v1"):
        ET = "%s::%s::types::ImportFunc" % (E, ver)
        wp = "<%s as concordium_wasm::output::Output>::output" % ET
        rp = "<%s as concordium_wasm::parse::Parseable<'a, Ctx>>::parse" % ET
        fw, fr = getfn(ck, "sc", E, wp), getfn(ck, "sc", E, rp)
        if not (fw and fr):
            continue
        wt = tagtable.writer_table(fw, e.adts, ET)
        rt, dr = tagtable.reader_table(fr, ET)
        inv = {v: k for k, v in wt.items()}
        diff = [k for k in sorted(set(inv) | set(rt)) if inv.get(k) != rt.get(k)]
        ck.ob("TAB", ET, "writer-reader-inverse", not diff and len(wt) == len(inv), "%d tags; writer and reader are exact inverses" % len(wt) if not diff else
              "tags that differ: %s" % [(k, inv.get(k), rt.get(k)) for k in diff][:4], fw.loc(), sample=dict(rule="TAB", version=ver, sample=sorted((v, "%s::%s" % k) for k, v in wt.items())[:5]))
        ck.ob("TAB", ET, "unknown-tag-rejected", dr is True, "unknown tags lead to a rejecting return", fr.loc())
        adt = e.adts.get(ET)
        nvar = 0
        for v in adt["variants"]:
            if v["fields"]:
                ia = e.adts.get(v["fields"][0]["ty"].split("<")[0])
                nvar += len(ia["variants"]) if ia else 1
            else:
                nvar += 1
        ck.ob("TAB", ET, "every-import-has-a-tag", len(wt) == nvar, "%d import functions, %d tagged" % (nvar, len(wt)), fw.loc())
        frozen = ref.get(ver, {})
        lost = [(k, v) for k, v in frozen.items() if wt.get(tuple(x if x != "" else None for x in k.split("::"))) != v]
        ck.ob("TAB", ET, "protocol-tags-preserved", frozen and not lost, "%d frozen tag assignments preserved" % len(frozen) if not lost else "changed: %s" % lost[:4], fw.loc())
        new = [k for k in wt if "::".join(x or "" for x in k) not in frozen]
        if new:
            ck.note("%s: unreferenced (new) import functions accepted: %s" % (ver, new))

    # suspended configuration
    RUNCFG = W + "::machine::<impl concordium_wasm::artifact::Artifact<I, R>>::run_config"
    f = getfn(ck, "sc", W, RUNCFG)
    if f:
        aggs = []
        for bi in sorted(f.reachable()):
            for s in f.stmts(bi):
                rv = s.get("rv", {})
                if rv.get("k") == "agg" and rv.get("adt", "").endswith("machine::RunConfig"):
                    aggs.append((bi, rv))
        ck.ob("COV", f.path, "suspension-sites", len(aggs) == 2, "%d places construct a suspended RunConfig" % len(aggs), f.loc())
        names = f.names()
        entry_bound = set()
        cfg_arg = next((i for i in range(1, f.argc + 1) if f.locals[i].endswith("machine::RunConfig")), None)
        for b2 in f.reachable():
            for st in f.stmts(b2):
                if st.get("rv", {}).get("k") == "use":
                    q = op_place(st["rv"]["a"])
                    if q and q[0] == cfg_arg and q[1] and "lhs" in st and not st["lhs"][1]:
                        entry_bound.add(str(q[1][-1]).split(":")[-1])
        for n, (bi, rv) in enumerate(aggs):
            for i, fld in enumerate(rv["fields"]):
                op = rv["ops"][i]
                if fld == "pc":
                    o = f.origins(op, deep=True)
                    ck.ob("COV", f.path, "suspend#%d:pc" % n, has_call_origin(o, r"offset_from$"), "pc = current instruction pointer - start of the instructions", f.loc(bi))
                    continue
                r = rules.root_local(f, op)
                nm = names.get(r[0]) if r else None
                # name-independent form: the local was bound from the same field when the configuration was taken apart at
                # entry (and possibly reassigned since); a field that is not bound at entry (`return_value_loc: _`) must
                # be a plain copy of a user-named local, not a value computed on the spot
                bound_from = set()
                if r and not r[1]:
                    for (b2, si, it) in f.defs().get(r[0], []):
                        if si != "t" and it["rv"].get("k") == "use":
                            q = op_place(it["rv"]["a"])
                            if q and q[0] == cfg_arg and q[1]:
                                bound_from.add(str(q[1][-1]).split(":")[-1])
                ok = nm == fld or fld in bound_from or (fld not in entry_bound and nm is not None and r is not None and not r[1])
                ck.ob("COV", f.path, "suspend#%d:%s" % (n, fld), ok, "field `%s` is stored from the current binding `%s`" % (fld, nm), f.loc(bi))
        adt = c.adts.get(W + "::machine::RunConfig")
        if adt:
            ck.ob("COV", W + "::machine::RunConfig", "fields", len(adt["variants"][0]["fields"]) == (len(aggs[0][1]["fields"]) if aggs else -1), "every RunConfig field is set at suspension", "")
    pv = getfn(ck, "sc", W, W + "::machine::RunConfig::push_value")
    if pv:
        wr = []
        for (bi, t) in pv.calls(r"ops::IndexMut::index_mut$"):
            wr.append(pv.origins(t["args"][1], deep=True))
        ok = any(("field", "locals_base") in o and ("field", "return_value_loc") in o and ("bin", "AddWithOverflow") in o for o in wr) or \
            any(("field", "locals_base") in o and ("field", "return_value_loc") in o for o in wr)
        ck.ob("DEFUSE", pv.path, "writes-at-locals_base+return_value_loc", ok, "the response is written at locals_base + return_value_loc", pv.loc())

    rr = getfn(ck, "sc", E, E + "::v1::resume_receive")
    if rr:
        mg = rr.calls(r"InstanceState::<'a, BackingStore>::migrate$")
        if ck.anchor(len(mg) == 1, "DEFUSE", rr.path, "migrate call"):
            o = rr.origins(mg[0][1]["args"][0])
            argn = [i + 1 for i, (n, p) in enumerate([(n, p) for n, p in rr.b["names"] if p[0] <= rr.argc and not p[1]]) if n == "state_updated"]
            sl = [l for l, n in rr.names().items() if n == "state_updated" and l <= rr.argc]
            ck.ob("DEFUSE", rr.path, "state_updated-forwarded", bool(sl) and ("arg", sl[0]) in o and not any(a[0] == "lit" for a in o), "migrate receives the caller's state_updated flag", rr.loc(mg[0][0]))
        rc = rr.calls(r"Artifact<I, R>>::run_config$")
        pvs = rr.calls(r"machine::RunConfig::push_value$")
        ck.ob("DOM", rr.path, "response-pushed-before-run", len(rc) == 1 and len(pvs) >= 1 and all(rr.dominates(b, rc[0][0]) for (b, _) in pvs), "push_value(response) precedes run_config", rr.loc())
        # the response code of a successful invoke tells the resumed contract whether its state was changed meanwhile: every
        # value the response can take on the Success paths is `(.. | tag) << 40` / `tag << 40` with tag chosen by
        # state_updated; a constant there hides a state change from a contract whose handles were just invalidated
        if pvs:
            rl = rules.root_local(rr, pvs[0][1]["args"][1])
            tags = set()
            for b2 in rr.reachable():
                for st in rr.stmts(b2):
                    k0 = op_const(st.get("rv", {}).get("a")) if st.get("rv", {}).get("k") == "use" else None
                    if k0 is not None and const_int(k0) == 0x800000 and not st["lhs"][1]:
                        tags.add(st["lhs"][0])
            fw = rr.forward(tags) if tags else set()
            nsh, bad = 0, []
            for (b2, si, it) in (rr.defs().get(rl[0], []) if rl and not rl[1] else []):
                if si == "t":
                    continue
                rv = it["rv"]
                src = None
                if rv.get("k") == "bin" and rv["op"].startswith("Shl"):
                    nsh += 1
                    q = op_place(rv["a"])
                    if not (q and q[0] in fw):
                        bad.append(b2)
                    continue
                if rv.get("k") == "use":
                    if op_const(rv["a"]) is not None:
                        bad.append(b2)
                        continue
                    src = op_place(rv["a"])
                # follow one copy back to the shift
                ds = rr.defs().get(src[0], []) if src and not src[1] else []
                for (b3, s3, i3) in ds:
                    if s3 != "t" and i3["rv"].get("k") == "bin" and i3["rv"]["op"].startswith("Shl"):
                        nsh += 1
                        q = op_place(i3["rv"]["a"])
                        if not (q and q[0] in fw):
                            bad.append(b3)
            ck.ob("DEFUSE", rr.path, "success-response-carries-state-updated-bit", bool(tags) and nsh >= 2 and not bad,
                  "both success responses (with and without returned data) are built from the tag chosen by state_updated" if tags and nsh >= 2 and not bad else
                  "a response code of a successful invoke does not contain the state-updated tag (%d shifted values, %d without it / constant)" % (nsh, len(bad)), rr.loc(bad[0]) if bad else rr.loc())
        # the contract's own balance is refreshed from the response on EVERY successful resume, with or without returned data: the
        # write of receive_ctx.common.self_balance comes before the split on `data` (a switch S it dominates, one side of which
        # pushes the returned data as a parameter, the other goes on to run the contract without doing so)
        wbs = [bi for bi in sorted(rr.reachable()) for st in rr.stmts(bi) if "lhs" in st and st["lhs"][1] and re.search(r":self_balance$", str(st["lhs"][1][-1]))]
        pbs = [bi for (bi, t) in rr.calls(r"Vec::<T, A>::push$") if any("ParameterVec" in g_ or "Vec<u8>" in g_ for g_ in (t["f"].get("gargs") or []))] or [bi for (bi, _) in rr.calls(r"Vec::<T, A>::push$")]
        runs = set(bi for (bi, _) in rr.calls(r"run_config$"))
        okb = False
        for wb in wbs:
            for pb in pbs:
                for sb in rr.reachable():
                    if rr.term(sb)["k"] != "switch" or not (rr.dominates(wb, sb) and rr.dominates(sb, pb)):
                        continue
                    for s2 in rr.succ(sb):
                        r2 = rr.reach_from([s2], avoid={sb})
                        if pb not in r2 and (r2 & runs):
                            okb = True
        ck.ob("DOM", rr.path, "balance-refreshed-on-every-successful-resume", len(wbs) == 1 and okb,
              "self_balance is written before the split on the returned data" if len(wbs) == 1 and okb else
              "the write of self_balance (%d found) does not come before the split between a response with and without returned data: after a successful transfer (no data) the contract still sees its old balance" % len(wbs),
              rr.loc(wbs[0]) if wbs else rr.loc())
        if rc:
            o = rr.origins(rc[0][1]["args"][2], deep=True)
            ck.ob("DEFUSE", rr.path, "runs-stored-config", ("field", "config") in o or ("arg", 1) in o, "the resumed configuration is the stored one", rr.loc(rc[0][0]))

    # the index handed back to the resumed contract names the parameter that is pushed for it: the length of the parameter
    # stack is read BEFORE the push (both on success with data and on a rejecting callee); read after the push it is one
    # past the end and the contract cannot fetch the returned data
    nidx = 0
    for pth in (E + "::v1::resume_receive", E + "::v1::InvokeFailure::encode_as_u64"):
        g = getfn(ck, "sc", E, pth)
        if not g:
            continue
        pushes_ = [(bi, t) for (bi, t) in g.calls(r"Vec::<T, A>::push$|Vec::<T>::push$") if ("field", "parameters") in g.origins(t["args"][0], deep=True) or g.names().get((op_place(t["args"][0]) or [None])[0]) == "parameters" or any(a[0] == "arg" for a in g.origins(t["args"][0], deep=False))]
        for bi in sorted(g.reachable()):
            for st in g.stmts(bi):
                rv = st.get("rv", {})
                if rv.get("k") == "bin" and rv["op"].startswith("Shl") and op_const(rv["b"]) is not None and const_int(op_const(rv["b"])) == 40:
                    lens = [a[2] for a in g.origins(rv["a"], deep=True) if a[0] == "call" and len(a) > 2 and re.search(r"::len$", a[1])]
                    if not lens:
                        continue
                    nidx += 1
                    late = [lb for lb in lens if any(g.dominates(pb, lb) for (pb, _) in pushes_)]
                    if late:
                        # the equivalent form: push first, then index = len() - 1
                        oo = g.origins(rv["a"], deep=True)
                        if any(a[0] == "bin" and a[1].startswith("Sub") for a in oo) and ("lit", 1) in oo:
                            late = []
                    ck.ob("DOM", g.path, "parameter-index-read-before-the-push#%d" % nidx, bool(pushes_) and not late,
                          "the index is parameters.len() taken before the returned data is pushed" if pushes_ and not late else
                          "the index shifted into the response is parameters.len() read AFTER the push: it points one past the parameter that holds the returned data", g.loc(late[0]) if late else g.loc(bi))
    ck.floor("DOM", "parameter indices encoded in responses", nidx, 2)

    # the instance's handle tables go into the suspended host AS THEY ARE: the same-named fields of the live state, untouched
    # (no truncation or compaction - positions in these tables are the handles the resumed contract still holds)
    pr0 = getfn(ck, "sc", E, E + "::v1::process_receive_result")
    if pr0:
        aggs0 = [(bi, st["rv"]) for bi in sorted(pr0.reachable()) for st in pr0.stmts(bi) if st.get("rv", {}).get("k") == "agg" and st["rv"].get("adt", "").endswith("v1::types::SavedHost")]
        ck.ob("COV", pr0.path, "sites:SavedHost", len(aggs0) == 1, "%d places build the suspended host" % len(aggs0), pr0.loc(), nontrivial=False)
        for (bi, rv) in aggs0:
            for fld, op in zip(rv.get("fields", []), rv["ops"]):
                if fld not in ("current_generation", "entry_mapping", "iterators"):
                    continue
                o = pr0.origins(op, deep=False)
                ok = ("field", fld) in o and ("field", "state") in o and not any(a[0] == "call" for a in o)
                ck.ob("DEFUSE", pr0.path, "saved-as-is:%s" % fld, ok, "SavedHost.%s is host.state.%s, moved" % (fld, fld) if ok else
                      "SavedHost.%s is not a plain move of host.state.%s (sources %s)" % (fld, fld, sorted(a[1] for a in o if a[0] in ("field", "call"))[:6]), pr0.loc(bi))
        shrink = [(bi, t) for (bi, t) in pr0.calls(r"Vec::<.*>::(truncate|pop|retain|drain|clear|remove|swap_remove|dedup|split_off|resize)$")
                  if any(("field", x) in pr0.origins(t["args"][0], deep=True) for x in ("iterators", "entry_mapping"))]
        ck.ob("WHO", pr0.path, "handle-tables-not-compacted-at-suspension", not shrink,
              "the handle tables are not modified while the host is saved" if not shrink else
              "%s is applied to a handle table while the execution is suspended: handles the contract still holds change meaning (or die) across the interrupt" % shrink[0][1]["f"]["name"], pr0.loc(shrink[0][0]) if shrink else pr0.loc())
    # events logged before a query-type interrupt stay with the suspended execution: the pending logs are taken out of the
    # saved host only for interrupts that end a section (transfer, call, upgrade: `should_clear_logs()`); taking them for a
    # query loses them, because a query produces no event in which they could be reported
    pr = getfn(ck, "sc", E, E + "::v1::process_receive_result")
    if pr:
        scl = pr.calls(r"Interrupt::should_clear_logs$")
        takes = [(bi, t) for (bi, t) in pr.calls(r"mem::take$|mem::replace$|mem::swap$|Vec::<.*>::(clear|drain)$|Logs::(clear|take)$") if ("field", "logs") in pr.origins(t["args"][0], deep=True)]
        inter = [(bi, t) for (bi, t) in takes if scl and pr.dominates(scl[0][0], bi)]
        ok = len(scl) == 1 and len(inter) >= 1 and all(any(k == "call:should_clear_logs" and v is True for (k, nn, v) in rules.conditions_at(pr, bi)) for (bi, t) in inter)
        ck.ob("DOM", pr.path, "pending-logs-taken-only-when-the-interrupt-ends-a-section", ok,
              "on an interrupt the pending logs are taken only under should_clear_logs()" if ok else
              "the pending logs are removed from the suspended host also for interrupts that do not report them (queries): events logged before the query are lost", pr.loc(inter[0][0]) if inter else pr.loc())
    f2 = getfn(ck, "sc", E, E + "::v1::Interrupt::should_clear_logs")
    if f2:
        adt = e.adts.get(E + "::v1::Interrupt")
        tab = {}
        for (sb, st) in f2.switches():
            for v, tb in st["t"]:
                ks = [op_const(s_["rv"]["a"]) for s_ in f2.stmts(tb) if s_.get("lhs") == [0, []] and s_["rv"].get("k") == "use"]
                if ks and ks[0] is not None and adt and int(v) < len(adt["variants"]):
                    tab[adt["variants"][int(v)]["name"]] = bool(const_int(ks[0]))
        want = {"Transfer": True, "Call": True, "Upgrade": True}
        ok = bool(tab) and all(tab.get(k) is True for k in want) and all(v is False for k, v in tab.items() if k not in want) and len(tab) >= 10
        ck.ob("TAB", f2.path, "sections-end-at-transfer-call-upgrade", ok, "logs are reported (and cleared) at transfer, call and upgrade; the %d query interrupts keep them: %s" % (len(tab) - 3, tab) if ok else "should_clear_logs table: %s" % tab, f2.loc())

    host_conversion_cov(ck, e)

    # determinism
    cg = CallGraph([c, e])
    roots = [RUNCFG, RUNCFG[:-7]] + [p for p in cg.bodies if re.search(r"::v[01]::host::[a-z_0-9]+$", p)]
    roots = [r for r in roots if r in cg.bodies]
    ck.floor("EFF", "interpreter and host roots", len(roots), 45)
    # utils::TestHost is the off-chain testing host (it deliberately offers randomness to test contracts); it is not a chain host
    stop = re.compile(r"concordium_smart_contract_engine::utils::")
    ch = cg.path_to_ext(roots, NONDET, stop=stop)
    ck.ob("EFF", "interpreter+hosts", "no-nondeterminism", ch is None, "%d functions reachable (off-chain utils::TestHost excluded), none reaches RNG/clock/env" % len(cg.reach(roots, stop=stop)) if ch is None else " -> ".join(ch), "")


def host_conversion_cov(ck, e):
    """the conversion that saves a running host at an interrupt copies every field (call depth, logs, energy ...)"""
    convs = []
    for pth in e.paths():
        for b in e.get_all(pth):
            if b.get("name") == "from" and re.search(r"convert::From$", b.get("impl_trait", "")) and re.search(r"::v1::(InitHost|StateLessReceiveHost|ReceiveHost)<", b.get("impl_self", "")) \
                    and re.search(r"Host<", b.get("impl_trait_full", "")):
                convs.append(Fn(b))
    ck.floor("COV", "host-saving conversions", len(convs), 2)
    for f in convs:
        base = f.b["impl_self"].split("<")[0]
        for bi in sorted(f.reachable()):
            for s in f.stmts(bi):
                rv = s.get("rv", {})
                if rv.get("k") == "agg" and rv.get("adt") == base:
                    for i, fld in enumerate(rv["fields"]):
                        o = f.origins(rv["ops"][i], deep=True)
                        if "PhantomData" in str(rv["ops"][i]):
                            continue
                        ok = ("arg", 1) in o and ("field", fld) in o
                        ck.ob("COV", f.path, "carried:" + fld, ok, "field `%s` of the saved host is taken from the same field of the running host" % fld if ok else
                              "field `%s` of the saved host does not come from the running host: state is lost at the interrupt" % fld, f.loc(bi))



def freeze():
    e = crate("sc", E)
    out = {}
    for ver in ("v0", "v1"):
        ET = "%s::%s::types::ImportFunc" % (E, ver)
        fw = Fn(e.get("<%s as concordium_wasm::output::Output>::output" % ET))
        wt = tagtable.writer_table(fw, e.adts, ET)
        out[ver] = {"::".join(x or "" for x in k): v for k, v in sorted(wt.items(), key=lambda x: x[1])}
    os.makedirs(os.path.dirname(SPEC), exist_ok=True)
    json.dump(out, open(SPEC, "w"), indent=1)
    return out
