"""C07 — sigma protocols: binding to statement and context (structural necessary conditions)."""
import json, os
from .common import *
from vlib import transcript
from vlib.callgraph import CallGraph, NONDET

META = dict(
    technique="static analysis: field-coverage/dominance/return-derivation/transcript-agreement/effect-freedom rules over compiler MIR",
    text=("Structural necessary conditions: for every SigmaProtocol implementation each field of the statement struct is "
          "fed to the transcript in public() (one documented exception), the adapters delegate to all components, the "
          "generic prove/verify compute the challenge after public() and the commit message and verify() returns the "
          "comparison of the recomputed challenge with the proof's, prover and verifier hash the same labelled sequence "
          "which equals the frozen reference per protocol, the V1 transcript writes a u64 length before every label and a "
          "u64 count before every collection, and the deterministic protocol steps reach no randomness source. "
          "Completeness and soundness are algebra and are not decided."),
)

CB = "concordium_base"
S = CB + "::sigma_protocols::"
SPEC = os.path.join(os.path.dirname(os.path.dirname(os.path.abspath(__file__))), "spec", "transcripts.json")

# statement fields that are deliberately not appended in public(), with the reason
COV_EXCEPTIONS = {
    ("concordium_base::sigma_protocols::com_enc_eq::ComEncEq", "encryption_in_exponent_generator"):
        "equals pub_key.generator or the global context's generator at every construction site; both are in the transcript "
        "(pub_key is appended, the context is in the prefix); appending it would invalidate existing proofs",
}
SEQ_PAT = re.compile(transcript.TRANSCRIPT_CALL.pattern + r"|sigma_protocols::common::SigmaProtocol::public$|sigma_protocols::[a-z_]+::[A-Za-z]+::<[A-Za-z, ]+>::public$")


def adt_base(ty):
    return ty.split("<", 1)[0]


def loops_of(f):
    """block sets of the natural loops of f (blocks that can reach themselves)"""
    out = []
    for b in f.reachable():
        r = f.reach_from(f.succ(b))
        if b in r:
            out.append(set(x for x in r if b in f.reach_from(f.succ(x))) | {b})
    return out


def public_seq(fn):
    out = []
    for (m, l, t, bi) in transcript.sequence(fn, pat=SEQ_PAT):
        if m == "public":
            # delegated public(): name the field it is called on
            tt = fn.term(bi)
            o = fn.origins(tt["args"][0])
            fld = sorted(a[1] for a in o if a[0] == "field")
            out.append("public(%s)" % ",".join(fld))
        else:
            out.append("%s:%s" % (m, l))
    return out


def protocols(c):
    res = []
    for p in c.paths():
        for b in c.get_all(p):
            if b.get("name") == "public" and "sigma_protocols::" in b["path"] and b["argc"] == 2 and "impl_self" in b:
                res.append(b)
    return res


def run(ck):
    ck.explanation = ("Decides coverage of statement fields by public(), ordering and verdict derivation in the generic "
                      "prove/verify, prover/verifier and reference agreement of transcript sequences, the length/count "
                      "framing of TranscriptProtocolV1 and determinism of the non-commit steps.")
    ck.undecided = "completeness, special soundness, zero-knowledge; injectivity of the legacy RandomOracle framing (deprecated, not claimed)."
    ck.rules_text = "COV/DOM/RET/SIB/EFF over MIR of sigma_protocols and random_oracle"
    c = crate("rs", CB)
    ref = json.load(open(SPEC)) if os.path.exists(SPEC) else {}
    pubs = protocols(c)
    ck.floor("COV", "SigmaProtocol::public implementations", len(pubs), 16)
    seen_ref = set()
    for b in sorted(pubs, key=lambda b: b["path"]):
        f = Fn(b)
        base = adt_base(b["impl_self"])
        adt = c.adts.get(base)
        if not ck.anchor(adt is not None, "COV", f.path, "statement struct " + base):
            continue
        fields = [fl["name"] for fl in adt["variants"][0]["fields"]]
        sinks = f.calls(SEQ_PAT)
        srcs = set()
        for (bi, t) in sinks:
            for a in t["args"]:
                srcs |= f.origins(a, deep=True)
        for fl in fields:
            if fl.startswith("_") or "PhantomData" in [x["ty"] for x in adt["variants"][0]["fields"] if x["name"] == fl][0]:
                continue
            exc = COV_EXCEPTIONS.get((base, fl))
            covered = ("field", fl) in srcs
            if exc is not None:
                ck.ob("COV", f.path, "field:" + fl, not covered, "documented exception: " + exc if not covered else
                      "the excepted field is now appended: this changes the transcript of existing proofs", f.loc(), nontrivial=False)
                continue
            ck.ob("COV", f.path, "field:" + fl, covered, "statement field `%s` reaches the transcript" % fl, f.loc())
        seq = public_seq(f)
        # every entry is made on every path through public(): an entry behind a condition leaves the challenge independent of
        # that part of the statement whenever the condition fails (entries inside a loop over a vector are per element)
        rets = [bi for bi in f.reachable() if f.term(bi)["k"] == "return"]
        condl = sorted(set(str(l) for (m, l, _, bi) in transcript.sequence(f, SEQ_PAT) if not all(f.dominates(bi, a) for a in rets) and not any(bi in lp for lp in loops_of(f))))
        ck.ob("DOM", f.path, "transcript-entries-unconditional", not condl,
              "all transcript entries of public() are made on every path" if not condl else "entries %s are made on some paths only" % condl, f.loc())
        key = base
        if key in ref.get("public", {}):
            seen_ref.add(key)
            ck.ob("SIB", f.path, "transcript-reference", seq == ref["public"][key], "public() sequence %s" % seq +
                  ("" if seq == ref["public"][key] else " differs from reference %s" % ref["public"][key]), f.loc(),
                  sample=dict(rule="SIB", protocol=key, transcript=seq))
        else:
            ck.note("unreferenced protocol (accepted, no frozen transcript): %s %s" % (key, seq))
    for key in ref.get("public", {}):
        ck.ob("SIB", key, "protocol-still-present", key in seen_ref, "a protocol with a frozen transcript still exists", "", nontrivial=False)

    # generic prove / verify
    v = getfn(ck, "rs", CB, S + "common::verify")
    p = getfn(ck, "rs", CB, S + "common::prove")
    if v:
        enf_calls(ck, v, r"SigmaProtocol::extract_commit_message$", "extract_commit_message")
        o = v.origins(0, deep=False)
        eq = v.calls(r"cmp::PartialEq::eq$")
        ck.ob("RET", v.path, "verdict-is-challenge-comparison", len(eq) == 1 and has_call_origin(o, r"cmp::PartialEq::eq$"), "returns computed_challenge == proof.challenge", v.loc())
        if eq:
            oa = v.origins(eq[0][1]["args"][0], deep=True) | v.origins(eq[0][1]["args"][1], deep=True)
            ck.ob("RET", v.path, "compares-recomputed-with-given", has_call_origin(oa, r"extract_raw_challenge$") and ("field", "challenge") in oa,
                  "one side is extract_raw_challenge(), the other proof.challenge", v.loc(eq[0][0]))
        ex = v.calls(r"TranscriptProtocol::extract_raw_challenge$")
        pub = v.calls(r"SigmaProtocol::public$")
        pt = [(bi, t) for (bi, t) in v.calls(r"TranscriptProtocol::append_message$") if transcript.label_of(t["args"][1]) == "point"]
        ck.ob("DOM", v.path, "public-and-point-before-challenge", len(ex) == 1 and len(pub) == 1 and len(pt) == 1 and
              v.dominates(pub[0][0], pt[0][0]) and v.dominates(pt[0][0], ex[0][0]), "public(ro); append(point); then extract_raw_challenge", v.loc())
        if pt:
            o = v.origins(pt[0][1]["args"][2], deep=True)
            ck.ob("DEFUSE", v.path, "point-is-extracted-commit-message", has_call_origin(o, r"extract_commit_message$"), "the appended point is the recomputed commit message", v.loc(pt[0][0]))
        for (bi, t) in v.calls(r"SigmaProtocol::get_challenge$"):
            ck.ob("DEFUSE", v.path, "challenge-from-proof", ("field", "challenge") in v.origins(t["args"][1], deep=True), "protocol challenge derives from proof.challenge", v.loc(bi))
    if p:
        enf_calls(ck, p, r"SigmaProtocol::compute_commit_message$", "compute_commit_message")
        enf_calls(ck, p, r"SigmaProtocol::compute_response$", "compute_response")
        ex = p.calls(r"TranscriptProtocol::extract_raw_challenge$")
        pub = p.calls(r"SigmaProtocol::public$")
        pt = [(bi, t) for (bi, t) in p.calls(r"TranscriptProtocol::append_message$") if transcript.label_of(t["args"][1]) == "point"]
        ck.ob("DOM", p.path, "public-and-point-before-challenge", len(ex) == 1 and len(pub) == 1 and len(pt) == 1 and
              p.dominates(pub[0][0], pt[0][0]) and p.dominates(pt[0][0], ex[0][0]), "public(ro); append(point); then extract_raw_challenge", p.loc())
    if v and p:
        sv = [x for x in public_seq(v)]
        sp = [x for x in public_seq(p)]
        ck.ob("SIB", S + "common::prove/verify", "transcripts-agree", sv == sp, "prover %s verifier %s" % (sp, sv), v.loc(), sample=dict(rule="SIB", prover=sp, verifier=sv))
        if "generic" in ref:
            ck.ob("SIB", S + "common::prove/verify", "transcript-reference", sv == ref["generic"], "generic sequence equals the reference", v.loc())

    # b'. verifier-side zips of statement components with response components are preceded by a length equality test
    nz = extract_zip_sweep(ck, c, re.compile(r"sigma_protocols::.*SigmaProtocol>::extract_commit_message$"))
    # keyed responses: when the statement and the response are MAPS joined by key, equal sizes do not make the join total.
    # A response entry that is missing for a statement key must refuse (or the two key sets must be compared): a lookup that
    # silently skips the index leaves that part of the statement unconstrained
    nk = 0
    for p0 in sorted(c.paths()):
        if not re.search(r"sigma_protocols::.*SigmaProtocol>::extract_commit_message$", p0):
            continue
        for b in c.get_all(p0):
            f = Fn(b)
            gets = [(bi, t) for (bi, t) in f.calls(r"BTreeMap::<K, V, A>::get$|BTreeMap::<.*>::get$|HashMap::<.*>::get$")
                    if ("arg", 3) in f.origins(t["args"][0], deep=True)]
            if not gets:
                continue
            nk += 1
            keyeq = [bi for (bi, t) in f.calls(r"Iterator::eq$|iter::Iterator::eq_by$|PartialEq::(eq|ne)$")
                     if has_call_origin(f.origins(t["args"][0], deep=True) | (f.origins(t["args"][1], deep=True) if len(t["args"]) > 1 else set()), r"BTreeMap::<.*>::keys$|::keys$")
                     and rules.enforcement(f, bi)["status"] in ("enforced", "propagated")]
            for k, (bi, t) in enumerate(gets):
                r = rules.enforcement(f, bi)
                ok = r["status"] in ("enforced", "propagated") or any(f.dominates(kb, bi) for kb in keyeq)
                ck.ob("ENF", f.path, "missing-response-entry-refuses#%d" % k, ok,
                      "a response entry missing for a statement key refuses the proof" if ok else
                      "the response map is joined with the statement by key and a missing entry is skipped silently (%s): with equal sizes but different keys a commitment of the statement is not checked at all" % r["status"], f.loc(bi))
    ck.floor("ENF", "sigma protocols with keyed responses", nk, 1)
    ck.floor("CMP", "statement/response zips in extract_commit_message", nz, 8)

    enf_module_sweep(ck, crate("rs", CB), re.compile(r"concordium_base::sigma_protocols::"), 1, "sigma_protocols")

    # d. V1 framing
    R = CB + "::random_oracle::"
    V1 = "<" + R + "TranscriptProtocolV1 as " + R + "TranscriptProtocol>::"
    f = getfn(ck, "rs", CB, V1 + "append_label")
    if f:
        puts = f.calls(r"serialize::Put::put$")
        ups = f.calls(r"Digest::update$|digest::Update::update$")
        ok = len(puts) == 1 and len(ups) == 1 and f.dominates(puts[0][0], ups[0][0])
        ck.ob("DOM", f.path, "length-before-label", ok, "put(len) dominates update(label)", f.loc())
        if puts:
            t = puts[0][1]
            ck.ob("TAB", f.path, "length-is-u64", "u64" in t["f"].get("gargs", []), "length prefix type %s" % t["f"].get("gargs"), f.loc(puts[0][0]))
            o = f.origins(t["args"][1], deep=True)
            ck.ob("DEFUSE", f.path, "length-of-label", ("arg", 2) in o and (("len",) in o or has_call_origin(o, r"::len$")), "the prefix is the label's length", f.loc(puts[0][0]))
    for name, has_count in (("append_message", False), ("append_messages", True), ("append_each_message", True),
                            ("append_final_prover_message", False), ("extract_challenge_scalar", False)):
        f = getfn(ck, "rs", CB, V1 + name)
        if not f:
            continue
        lab = f.calls(r"TranscriptProtocol::append_(label|message)$")
        ck.ob("DOM", f.path, "label-first", len(lab) == 1 and lab[0][0] in f.reachable() and all(f.dominates(lab[0][0], bi) for (bi, t) in f.calls(r"serialize::Put::put$|extract_raw_challenge$|FnMut::call_mut$")),
              "the (length-prefixed) label is appended before any payload", f.loc())
        if has_count:
            puts = f.calls(r"serialize::Put::put$")
            cnt = [(bi, t) for (bi, t) in puts if "u64" in t["f"].get("gargs", [])]
            items = [(bi, t) for (bi, t) in puts if "u64" not in t["f"].get("gargs", [])] + f.calls(r"FnMut::call_mut$")
            ok = len(cnt) == 1 and items and all(f.dominates(cnt[0][0], bi) for (bi, _) in items)
            ck.ob("DOM", f.path, "count-before-items", ok, "a u64 element count is written before the first element", f.loc())
            if cnt:
                o = f.origins(cnt[0][1]["args"][1], deep=True)
                ck.ob("DEFUSE", f.path, "count-is-len", has_call_origin(o, r"ExactSizeIterator::len$"), "the count is messages.len()", f.loc(cnt[0][0]))

    # e. determinism of the non-commit steps
    cg = CallGraph([c])
    roots = [pth for pth in cg.bodies if re.search(r"sigma_protocols::.*SigmaProtocol>::(public|get_challenge|compute_response|extract_commit_message)$", pth)]
    ck.floor("EFF", "deterministic protocol steps", len(roots), 60)
    bad = 0
    for r in sorted(roots):
        ch = cg.path_to_ext([r], NONDET)
        if ch is not None:
            bad += 1
        ck.ob("EFF", r, "no-nondeterminism", ch is None, "no path to RNG/clock/env" if ch is None else " -> ".join(ch), "")
    ch = cg.path_to_ext([S + "common::verify"], NONDET)
    ck.ob("EFF", S + "common::verify", "no-nondeterminism", ch is None, "verify reaches no randomness" if ch is None else " -> ".join(ch), "")

    narrowing_len_sweep(ck, crate("rs", "concordium_base"), re.compile(r"concordium_base::sigma_protocols::"), re.compile(r"(verify|extract_commit_message)[a-z_0-9]*(::\{closure#\d+\})*$"))

    geometric_weight_sweep(ck, crate("rs", "concordium_base"), re.compile(r"concordium_base::(sigma_protocols|elgamal)::"), floor=2)
    from .c12 import enctrans_sibling_rule
    enctrans_sibling_rule(ck)
    eq_polarity_sweep(ck, crate("rs", "concordium_base"), re.compile(r"concordium_base::sigma_protocols::"), re.compile(r"(verify|extract_commit_message)[a-z_0-9]*(::\{closure#\d+\})*$"))
    rejecting_checks_floor(ck, crate("rs", "concordium_base"), re.compile(r"concordium_base::sigma_protocols::"), re.compile(r"(verify|verifier|validate|check|extract_commit_message)[a-z_0-9]*(::\{closure#\d+\})*$"), "C07")


def freeze():
    """write spec/transcripts.json from the current tree (run once by hand; reviewed and committed)"""
    c = crate("rs", CB)
    out = {"public": {}}
    for b in protocols(c):
        f = Fn(b)
        out["public"][adt_base(b["impl_self"])] = public_seq(f)
    v = Fn(c.get(S + "common::verify"))
    out["generic"] = public_seq(v)
    os.makedirs(os.path.dirname(SPEC), exist_ok=True)
    json.dump(out, open(SPEC, "w"), indent=1, sort_keys=True)
    return out
