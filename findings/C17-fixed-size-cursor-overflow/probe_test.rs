//! Decoding arbitrary bytes into a fixed-size byte array must return (a value or an error), never panic.
use concordium_base::common::cbor::cbor_decode;

fn decode4(hex_str: &str) -> Result<[u8; 4], String> {
    let bytes = hex::decode(hex_str).unwrap();
    cbor_decode::<[u8; 4]>(&bytes).map_err(|e| e.to_string())
}

#[test]
fn control_well_formed() {
    assert_eq!(decode4("4401020304"), Ok([1, 2, 3, 4]));
    assert_eq!(decode4("5f4201024203045f").is_ok() || decode4("5f420102420304ff").is_ok(), true);
}

#[test]
fn huge_first_chunk_is_an_error() {
    // definite length 2^64-1: position is still 0, min() caps the sum
    assert!(decode4("5bffffffffffffffff0102").is_err());
}

#[test]
fn huge_second_chunk_is_an_error_not_a_panic() {
    // indefinite-length byte string: chunk of 1 byte, then a chunk declaring 2^64-1 bytes
    let r = std::panic::catch_unwind(|| decode4("5f41aa5bffffffffffffffff0102"));
    assert!(r.is_ok(), "the decoder panicked");
    assert!(r.unwrap().is_err());
}
