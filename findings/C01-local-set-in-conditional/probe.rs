//! Differential demonstration for property C01.
//!
//! A handful of tiny hand-assembled Wasm modules are validated, compiled and
//! run with the real `concordium-wasm` pipeline
//! (`utils::instantiate` + `Artifact::run`), and the result is compared with
//! the value prescribed by the WebAssembly semantics (computed in plain Rust).
//!
//! Exit code 0 = all outcomes conform, 1 = at least one mismatch.
use concordium_wasm::{
    artifact::ArtifactNamedImport,
    machine::{ExecutionOutcome, Host, NoInterrupt, RunResult, RuntimeStack, Value},
    types::{FunctionType, Name},
    utils::instantiate,
    validate::{ValidateImportExport, ValidationConfig},
};

struct TestHost;

impl ValidateImportExport for TestHost {
    fn validate_import_function(
        &self,
        _duplicate: bool,
        _mod_name: &Name,
        _item_name: &Name,
        _ty: &FunctionType,
    ) -> bool {
        false
    }

    fn validate_export_function(&self, _item_name: &Name, _ty: &FunctionType) -> bool { true }
}

impl<I> Host<I> for TestHost {
    type Interrupt = NoInterrupt;

    fn tick_initial_memory(&mut self, _num_pages: u32) -> RunResult<()> { Ok(()) }

    fn call(
        &mut self,
        _f: &I,
        _memory: &mut [u8],
        _stack: &mut RuntimeStack,
    ) -> RunResult<Option<Self::Interrupt>> {
        unreachable!("no imports")
    }

    fn tick_energy(&mut self, _energy: u64) -> RunResult<()> { Ok(()) }

    fn track_call(&mut self) -> RunResult<()> { Ok(()) }

    fn track_return(&mut self) {}
}

/// Build a module with a single exported function `f : (i32, i32) -> i32`
/// with no declared locals and the given instruction sequence (which must
/// include the final `end`).
fn module(body: &[u8]) -> Vec<u8> {
    let mut m = vec![0x00, 0x61, 0x73, 0x6d, 0x01, 0x00, 0x00, 0x00];
    // type section: one type (i32, i32) -> i32
    m.extend_from_slice(&[0x01, 0x07, 0x01, 0x60, 0x02, 0x7f, 0x7f, 0x01, 0x7f]);
    // function section: one function of type 0
    m.extend_from_slice(&[0x03, 0x02, 0x01, 0x00]);
    // export section: "f" -> func 0
    m.extend_from_slice(&[0x07, 0x05, 0x01, 0x01, b'f', 0x00, 0x00]);
    // code section
    let func_len = 1 + body.len(); // locals vector (empty) + body
    assert!(func_len < 0x80);
    let sec_len = 1 + 1 + func_len;
    assert!(sec_len < 0x80);
    m.extend_from_slice(&[0x0a, sec_len as u8, 0x01, func_len as u8, 0x00]);
    m.extend_from_slice(body);
    m
}

// Opcodes used below.
const BLOCK_I32: [u8; 2] = [0x02, 0x7f];
const IF_I32: [u8; 2] = [0x04, 0x7f];
const ELSE: u8 = 0x05;
const END: u8 = 0x0b;
const BR_IF: u8 = 0x0d;
const DROP: u8 = 0x1a;
const LOCAL_GET: u8 = 0x20;
const I32_CONST: u8 = 0x41;
const I32_ADD: u8 = 0x6a;
const I32_SUB: u8 = 0x6b;
const I32_MUL: u8 = 0x6c;

struct Case {
    name:     &'static str,
    body:     Vec<u8>,
    expected: fn(i32, i32) -> i32,
}

fn cases() -> Vec<Case> {
    let mut out = Vec::new();
    const IF_EMPTY: [u8; 2] = [0x04, 0x40];
    const LOCAL_SET: u8 = 0x21;
    const LOOP_EMPTY: [u8; 2] = [0x03, 0x40];
    // local.get 0; local.get 1; if; i32.const 5; local.set 0; end; local.get 0; i32.sub
    {
        let mut b = Vec::new();
        b.extend_from_slice(&[LOCAL_GET, 0, LOCAL_GET, 1]);
        b.extend_from_slice(&IF_EMPTY);
        b.extend_from_slice(&[I32_CONST, 5, LOCAL_SET, 0, END]);
        b.extend_from_slice(&[LOCAL_GET, 0, I32_SUB, END]);
        out.push(Case { name: "local.set of a local still on the stack, inside if", body: b,
            expected: |a, b| a.wrapping_sub(if b != 0 { 5 } else { a }) });
    }
    // same but the set is unconditional (control)
    {
        let mut b = Vec::new();
        b.extend_from_slice(&[LOCAL_GET, 0, I32_CONST, 5, LOCAL_SET, 0, LOCAL_GET, 0, I32_SUB, END]);
        out.push(Case { name: "local.set of a local still on the stack, straight line (control)", body: b,
            expected: |a, _b| a.wrapping_sub(5) });
    }
    // inside a block left by br_if
    {
        let mut b = Vec::new();
        b.extend_from_slice(&[LOCAL_GET, 0]);
        b.extend_from_slice(&[0x02, 0x40]); // block
        b.extend_from_slice(&[LOCAL_GET, 1, BR_IF, 0, I32_CONST, 5, LOCAL_SET, 0, END]);
        b.extend_from_slice(&[LOCAL_GET, 0, I32_SUB, END]);
        out.push(Case { name: "local.set of a local still on the stack, inside a block skipped by br_if", body: b,
            expected: |a, b| a.wrapping_sub(if b != 0 { a } else { 5 }) });
    }
    let _ = LOOP_EMPTY;
    out
}

fn main() {
    let configs = [("V0", ValidationConfig::V0), ("V1", ValidationConfig::V1)];
    let inputs: [(i32, i32); 6] = [(0, 0), (1, 0), (0, 1), (1, 1), (0, 37), (5, -12)];
    let mut failures = 0u32;
    for case in cases() {
        let bytes = module(&case.body);
        for (cname, config) in configs {
            let artifact = match instantiate::<ArtifactNamedImport, _>(config, &TestHost, &bytes) {
                Ok(m) => m.artifact,
                Err(e) => {
                    println!("FAIL [{}] {}: module rejected: {:#}", cname, case.name, e);
                    failures += 1;
                    continue;
                }
            };
            for (a, b) in inputs {
                let expected = (case.expected)(a, b);
                let got = artifact.run(&mut TestHost, "f", &[Value::I32(a), Value::I32(b)]);
                match got {
                    Ok(ExecutionOutcome::Success {
                        result: Some(Value::I32(v)),
                        ..
                    }) if v == expected => {}
                    Ok(ExecutionOutcome::Success {
                        result,
                        ..
                    }) => {
                        println!(
                            "FAIL [{}] {}: f({}, {}) = {:?}, expected I32({})",
                            cname, case.name, a, b, result, expected
                        );
                        failures += 1;
                    }
                    Ok(ExecutionOutcome::Interrupted {
                        ..
                    }) => {
                        println!("FAIL [{}] {}: unexpected interrupt", cname, case.name);
                        failures += 1;
                    }
                    Err(e) => {
                        println!(
                            "FAIL [{}] {}: f({}, {}) trapped: {:#}, expected I32({})",
                            cname, case.name, a, b, e, expected
                        );
                        failures += 1;
                    }
                }
            }
        }
    }
    if failures == 0 {
        println!("OK: all outcomes conform to the Wasm semantics");
    } else {
        println!("{} mismatches", failures);
        std::process::exit(1);
    }
}

fn probe() -> Vec<Case> {
    // (block (result i32)
    //    (i32.const 10) (local.get 0) (br_if 0) drop
    //    (i32.add (local.get 1) (i32.const 1))
    //    (i32.const 9) (local.get 0) (br_if 0) drop)
    let mut b = Vec::new();
    b.extend_from_slice(&BLOCK_I32);
    b.extend_from_slice(&[I32_CONST, 10, LOCAL_GET, 0, BR_IF, 0, DROP]);
    b.extend_from_slice(&[LOCAL_GET, 1, I32_CONST, 1, I32_ADD]);
    b.extend_from_slice(&[I32_CONST, 9, LOCAL_GET, 0, BR_IF, 0, DROP, END, END]);
    vec![Case {
        name: "probe: temp in reserved result register clobbered by later br_if copy",
        body: b,
        expected: |a, b| if a != 0 { 10 } else { b.wrapping_add(1) },
    }]
}
