use concordium_base::contracts_common::schema::{SizeLength, Type};
use std::alloc::{GlobalAlloc, Layout, System};
use std::sync::atomic::{AtomicUsize, Ordering};

struct Counting;
static ALLOCS: AtomicUsize = AtomicUsize::new(0);
unsafe impl GlobalAlloc for Counting {
    unsafe fn alloc(&self, l: Layout) -> *mut u8 {
        ALLOCS.fetch_add(1, Ordering::Relaxed);
        System.alloc(l)
    }
    unsafe fn dealloc(&self, p: *mut u8, l: Layout) { System.dealloc(p, l) }
}
#[global_allocator]
static A: Counting = Counting;

#[test]
fn long_string_followed_by_more_data_converts() {
    // Pair(String, U8): a 5000 byte string followed by one more byte
    let ty = Type::Pair(Box::new(Type::String(SizeLength::U32)), Box::new(Type::U8));
    let mut bytes = 5000u32.to_le_bytes().to_vec();
    bytes.extend(std::iter::repeat(b'a').take(5000));
    bytes.push(7);
    let json = ty.to_json_string_pretty(&bytes);
    assert!(json.is_ok(), "{:?}", json.err().map(|e| e.to_string().chars().take(200).collect::<String>()));
}

#[test]
fn truncated_byte_list_fails_fast() {
    let ty = Type::ByteList(SizeLength::U32);
    // declares 2^22 bytes, provides none
    let bytes = (1u32 << 22).to_le_bytes().to_vec();
    let before = ALLOCS.load(Ordering::Relaxed);
    let r = ty.to_json_string_pretty(&bytes);
    let n = ALLOCS.load(Ordering::Relaxed) - before;
    assert!(r.is_err());
    assert!(n < 10_000, "{} allocations for a 4 byte input", n);
}
