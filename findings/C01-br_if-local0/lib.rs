//! Demonstration for seeded change C01: compiled execution must agree with
//! WebAssembly semantics. Each test hand-assembles a tiny module exporting
//! `f : (i32, i32) -> i32`, runs it through parse/validate/compile/interpret
//! and compares against the value the Wasm specification prescribes.
#![cfg(test)]

use concordium_wasm::{
    artifact::ArtifactNamedImport,
    machine::{ExecutionOutcome, Host, NoInterrupt, RunResult, RuntimeStack, Value},
    types::{FunctionType, Name},
    utils::{instantiate, instantiate_with_metering},
    validate::{ValidateImportExport, ValidationConfig},
    CostConfigurationV1,
};

struct TestHost;

impl ValidateImportExport for TestHost {
    fn validate_import_function(
        &self,
        _duplicate: bool,
        mod_name: &Name,
        _item_name: &Name,
        _ty: &FunctionType,
    ) -> bool {
        // only the metering imports
        mod_name.name == "concordium_metering"
    }

    fn validate_export_function(&self, _item_name: &Name, _ty: &FunctionType) -> bool { true }
}

impl<I> Host<I> for TestHost {
    type Interrupt = NoInterrupt;

    fn tick_initial_memory(&mut self, _num_pages: u32) -> RunResult<()> { Ok(()) }

    fn call(
        &mut self,
        _f: &I,
        _memory: &mut [u8],
        _stack: &mut RuntimeStack,
    ) -> RunResult<Option<Self::Interrupt>> {
        // account_memory / track_call style imports: nothing to do.
        Ok(None)
    }

    fn tick_energy(&mut self, _energy: u64) -> RunResult<()> { Ok(()) }

    fn track_call(&mut self) -> RunResult<()> { Ok(()) }

    fn track_return(&mut self) {}
}

/// Wrap a function body (without the locals vector and without the final
/// `end`) into a module exporting it as `f : (i32, i32) -> i32`.
fn module(body: &[u8]) -> Vec<u8> {
    let mut m = vec![0x00, 0x61, 0x73, 0x6d, 0x01, 0x00, 0x00, 0x00];
    // type section: (i32, i32) -> i32
    m.extend_from_slice(&[0x01, 0x07, 0x01, 0x60, 0x02, 0x7f, 0x7f, 0x01, 0x7f]);
    // function section
    m.extend_from_slice(&[0x03, 0x02, 0x01, 0x00]);
    // export section: "f" -> func 0
    m.extend_from_slice(&[0x07, 0x05, 0x01, 0x01, b'f', 0x00, 0x00]);
    // code section
    let func_len = body.len() + 2; // locals vec (0) + body + end
    assert!(func_len < 0x80);
    m.push(0x0a);
    m.push((func_len + 2) as u8);
    m.push(0x01);
    m.push(func_len as u8);
    m.push(0x00);
    m.extend_from_slice(body);
    m.push(0x0b);
    m
}

fn run(config: ValidationConfig, metering: bool, body: &[u8], a: i32, b: i32) -> i32 {
    let bytes = module(body);
    let artifact = if metering {
        instantiate_with_metering::<ArtifactNamedImport>(
            config,
            CostConfigurationV1,
            &TestHost,
            &bytes,
        )
        .expect("module is valid")
        .artifact
    } else {
        instantiate::<ArtifactNamedImport, _>(config, &TestHost, &bytes)
            .expect("module is valid")
            .artifact
    };
    match artifact
        .run(&mut TestHost, "f", &[Value::I32(a), Value::I32(b)])
        .expect("no trap expected")
    {
        ExecutionOutcome::Success {
            result: Some(Value::I32(r)),
            ..
        } => r,
        other => panic!("unexpected outcome {:?}", other),
    }
}

const INPUTS: [(i32, i32); 5] = [(3, 4), (0, 7), (-5, 2), (1 << 20, 12345), (i32::MAX, 1)];

fn check(body: &[u8], spec: impl Fn(i32, i32) -> i32) {
    for config in [ValidationConfig::V0, ValidationConfig::V1] {
        for (a, b) in INPUTS {
            assert_eq!(
                run(config, false, body, a, b),
                spec(a, b),
                "inputs ({a}, {b}), no metering"
            );
        }
    }
}

/// Control: a single stacked copy of a local survives an overwrite.
#[test]
fn single_copy_preserved() {
    let body = [
        0x20, 0x00, // local.get 0
        0x41, 0x01, // i32.const 1
        0x21, 0x00, // local.set 0
        0x20, 0x01, // local.get 1
        0x6a, // i32.add          a + b
        0x20, 0x00, // local.get 0     (= 1)
        0x6a, // i32.add
    ];
    check(&body, |a, b| a.wrapping_add(b).wrapping_add(1));
}

/// Two stacked copies of local 0, local 0 overwritten, then the upper copy
/// is consumed by an instruction producing a new temporary while the lower
/// copy is still pending.
#[test]
fn two_copies_then_temp() {
    let body = [
        0x20, 0x00, // local.get 0
        0x20, 0x00, // local.get 0
        0x41, 0x01, // i32.const 1
        0x21, 0x00, // local.set 0
        0x20, 0x01, // local.get 1
        0x6a, // i32.add          old_a + b
        0x6c, // i32.mul          old_a * (old_a + b)
    ];
    check(&body, |a, b| a.wrapping_mul(a.wrapping_add(b)));
}

/// Same shape via local.tee, with an unrelated value between the copies.
#[test]
fn two_copies_tee_non_adjacent() {
    let body = [
        0x20, 0x00, // local.get 0
        0x20, 0x01, // local.get 1
        0x20, 0x00, // local.get 0
        0x20, 0x01, // local.get 1
        0x22, 0x00, // local.tee 0     local0 := b
        0x6b, // i32.sub          old_a - b
        0x6c, // i32.mul          b * (old_a - b)
        0x6a, // i32.add          old_a + b * (old_a - b)
    ];
    check(&body, |a, b| a.wrapping_add(b.wrapping_mul(a.wrapping_sub(b))));
}

/// The same program with injected metering.
#[test]
fn two_copies_then_temp_metered() {
    let body = [
        0x20, 0x00, 0x20, 0x00, 0x41, 0x01, 0x21, 0x00, 0x20, 0x01, 0x6a, 0x6c,
    ];
    for (a, b) in INPUTS {
        assert_eq!(
            run(ValidationConfig::V1, true, &body, a, b),
            a.wrapping_mul(a.wrapping_add(b)),
            "inputs ({a}, {b}), metered"
        );
    }
}

/// br_if to the function-level label carrying a value; when the branch is NOT taken,
/// local 0 must be unchanged.
#[test]
fn br_if_to_function_label_not_taken_keeps_local0() {
    let body = [
        0x41, 0x05, // i32.const 5
        0x20, 0x01, // local.get 1   (condition)
        0x0d, 0x00, // br_if 0       (function-level label, carries the 5)
        0x1a,       // drop
        0x20, 0x00, // local.get 0
    ];
    for config in [ValidationConfig::V0, ValidationConfig::V1] {
        for (a, b) in [(9, 0), (9, 1), (-3, 0)] {
            assert_eq!(run(config, false, &body, a, b), if b != 0 { 5 } else { a }, "inputs ({a}, {b})");
        }
    }
}
