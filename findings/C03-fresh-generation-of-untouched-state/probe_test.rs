//! `MutableState::make_fresh_generation` promises: "Modifications on this generation will not be reflected in the
//! current one." Checked for a state whose inner trie exists already and for one that was never touched.
use concordium_smart_contract_engine::v1::trie::{Loader, MutableState, PersistentState};

type L = Loader<Vec<u8>>;

fn lookup(state: &mut MutableState, loader: &mut L, key: &[u8]) -> Option<Vec<u8>> {
    let inner = state.get_inner(loader);
    let mut trie = inner.lock();
    let entry = trie.get_entry(loader, key)?;
    trie.with_entry(entry, loader, |v| v.to_vec())
}

fn failed_inner_call(base: &mut MutableState, loader: &mut L) {
    let mut child = base.make_fresh_generation(loader);
    let inner = child.get_inner(loader);
    let mut trie = inner.lock();
    trie.insert(loader, &[0x01], b"written by the inner call".to_vec()).unwrap();
    if let Some(e) = trie.get_entry(loader, &[0x00]) {
        trie.set(e, b"overwritten".to_vec()).unwrap();
    }
    // the inner call fails: `child` is dropped, the caller goes on with `base`
}

#[test]
fn touched_state_is_protected() {
    let mut loader = Loader { inner: Vec::new() };
    let mut base = PersistentState::from_iterator(vec![(&[0x00u8][..], b"zero".to_vec())].into_iter()).thaw();
    assert_eq!(lookup(&mut base, &mut loader, &[0x00]).as_deref(), Some(&b"zero"[..])); // creates the inner trie
    failed_inner_call(&mut base, &mut loader);
    assert_eq!(lookup(&mut base, &mut loader, &[0x01]), None);
    assert_eq!(lookup(&mut base, &mut loader, &[0x00]).as_deref(), Some(&b"zero"[..]));
}

#[test]
fn untouched_state_is_protected() {
    let mut loader = Loader { inner: Vec::new() };
    let mut base = PersistentState::from_iterator(vec![(&[0x00u8][..], b"zero".to_vec())].into_iter()).thaw();
    failed_inner_call(&mut base, &mut loader);
    assert_eq!(lookup(&mut base, &mut loader, &[0x01]), None, "a key inserted by the abandoned generation is visible");
    assert_eq!(lookup(&mut base, &mut loader, &[0x00]).as_deref(), Some(&b"zero"[..]), "a value overwritten by the abandoned generation is visible");
}
