use concordium_smart_contract_engine::v1::trie::*;

type St = Vec<u8>;

fn build(kvs: &[(&[u8], &[u8])]) -> PersistentState {
    PersistentState::from_iterator(kvs.iter().map(|(k, v)| (*k, v.to_vec())))
}

#[test]
fn emptied_state_is_empty() {
    let mut loader = Loader::new(Vec::<u8>::new());
    let s = build(&[(&[1, 2], b"a")]);
    let mut m = s.thaw();
    {
        let inner = m.get_inner(&mut loader);
        let mut t = inner.lock();
        t.delete(&mut loader, &[1, 2]).unwrap();
    }
    let f = m.freeze(&mut loader, &mut EmptyCollector);
    assert!(matches!(f, PersistentState::Empty), "emptied state is not Empty");
}

#[test]
fn migrate_leaves_source_usable() {
    // Store to A, load, cache, migrate to B, then keep using the source with loader A.
    let mut s = build(&[(&[0x12], b"a"), (&[0x13], b"b"), (&[0x13, 0x55], b"c")]);
    let mut store_a: St = vec![0xAA; 1000]; // offset so refs differ from B
    let root = s.store_update(&mut store_a).unwrap();
    let mut loader_a = Loader::new(store_a);
    let mut loaded = PersistentState::load_from_location(&mut loader_a, root).unwrap();
    loaded.cache(&mut loader_a);
    let h0 = loaded.hash(&mut loader_a);
    let mut store_b: St = Vec::new();
    let _migrated = loaded.migrate(&mut store_b, &mut loader_a).unwrap();
    assert_eq!(h0, loaded.hash(&mut loader_a));
    let r = std::panic::catch_unwind(move || {
        let mut la = loader_a;
        loaded.lookup(&mut la, &[0x13, 0x55])
    });
    match r {
        Ok(v) => assert_eq!(v, Some(b"c".to_vec()), "source state changed by migrate"),
        Err(_) => panic!("source state unusable after migrate (panic on lookup)"),
    }
}
