//! A function body is an expression closed by its matching `end`; bytes after that `end` inside the code entry make the
//! module malformed (Wasm 1.0, binary format of code entries). Probe: what does validate_module say?
use concordium_wasm::{
    parse::parse_skeleton,
    types::{FunctionType, Name},
    validate::{validate_module, ValidateImportExport, ValidationConfig},
};

struct P;
impl ValidateImportExport for P {
    fn validate_import_function(&self, _d: bool, _m: &Name, _i: &Name, _t: &FunctionType) -> bool { false }
    fn validate_export_function(&self, _i: &Name, _t: &FunctionType) -> bool { true }
}

fn module(body_after_locals: &[u8]) -> Vec<u8> {
    let mut m = vec![0x00, 0x61, 0x73, 0x6D, 0x01, 0x00, 0x00, 0x00];
    m.extend_from_slice(&[0x01, 0x04, 0x01, 0x60, 0x00, 0x00]); // type section: () -> ()
    m.extend_from_slice(&[0x03, 0x02, 0x01, 0x00]); // function section: one function of type 0
    m.extend_from_slice(&[0x05, 0x03, 0x01, 0x00, 0x01]); // memory section: min 1
    let mut body = vec![0x00]; // no locals
    body.extend_from_slice(body_after_locals);
    let mut code = vec![0x01, body.len() as u8];
    code.extend_from_slice(&body);
    m.push(0x0A);
    m.push(code.len() as u8);
    m.extend_from_slice(&code);
    m
}

fn accepted(body: &[u8]) -> bool {
    let bytes = module(body);
    match parse_skeleton(&bytes) {
        Ok(sk) => validate_module(ValidationConfig::V1, &P, &sk).is_ok(),
        Err(_) => false,
    }
}

#[test]
fn control() {
    assert!(accepted(&[0x0B]), "empty body");
    assert!(accepted(&[0x01, 0x0B]), "nop end");
    assert!(!accepted(&[0x0B, 0x0B]), "end end");
}

#[test]
fn nothing_follows_the_closing_end() {
    let mut bad = Vec::new();
    for (name, body) in [("end nop", &[0x0B, 0x01][..]), ("end return", &[0x0B, 0x0F]), ("end i32.const 0", &[0x0B, 0x41, 0x00]),
                         ("end memory.size", &[0x0B, 0x3F, 0x00]), ("end block end", &[0x0B, 0x02, 0x40, 0x0B])] {
        if accepted(body) {
            bad.push(name);
        }
    }
    assert!(bad.is_empty(), "accepted although the body continues after its closing end: {:?}", bad);
}
