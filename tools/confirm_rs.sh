#!/bin/bash
# confirm_rs.sh <ID> <demo test args...>
ID=$1; shift
WT=/tmp/wt-$ID
cd $WT || exit 2
git checkout -q -- . ; git clean -fdq rust-src >/dev/null 2>&1
LOG=/tmp/confirm-$ID.log; : > $LOG
export CARGO_TARGET_DIR=$WT/target-agent
DEMO=$(ls SEEDED/demo.diff 2>/dev/null)
git apply SEEDED/demo.diff || echo "demo.diff failed to apply" >> $LOG
(cd rust-src && cargo test --offline -p concordium_base "$@" 2>&1 | grep -E "^test result|^test .*(FAILED|ok)$|error" | tail -8) > /tmp/c.$ID.1 2>&1
echo "== demo WITHOUT patch:" >> $LOG; cat /tmp/c.$ID.1 >> $LOG
git apply SEEDED/patch.diff || echo "patch.diff failed to apply" >> $LOG
(cd rust-src && cargo test --offline -p concordium_base "$@" 2>&1 | grep -E "^test result|^test .*(FAILED|ok)$|error" | tail -8) > /tmp/c.$ID.2 2>&1
echo "== demo WITH patch:" >> $LOG; cat /tmp/c.$ID.2 >> $LOG
# full suite with patch only (remove demo)
git checkout -q -- . ; git clean -fdq rust-src >/dev/null 2>&1
git apply SEEDED/patch.diff
(cd rust-src && cargo test --offline -p concordium_base 2>&1 | grep -E "^test result|FAILED|error\[" | tail -6) > /tmp/c.$ID.3 2>&1
echo "== full concordium_base suite WITH patch:" >> $LOG; cat /tmp/c.$ID.3 >> $LOG
git checkout -q -- . ; git clean -fdq rust-src >/dev/null 2>&1
echo DONE >> $LOG
