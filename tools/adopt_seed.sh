#!/bin/bash
# tools/adopt_seed.sh <ID> <name> : copy /tmp/wt-<ID>/SEEDED into /verif/seeded/<name>
set -e
ID=$1; NAME=$2
mkdir -p /verif/seeded/$NAME
cp -r /tmp/wt-$ID/SEEDED/. /verif/seeded/$NAME/
rm -rf /verif/seeded/$NAME/demo/target /verif/seeded/$NAME/target
ls -la /verif/seeded/$NAME
