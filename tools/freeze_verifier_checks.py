#!/usr/bin/env python3
"""Recompute the '#unconditional' reference counts of spec/verifier_checks.json from the evidence of a quick run on the
UNCHANGED tree (run by hand after confirming the tree; never run by a check)."""
import json, os, subprocess, sys
V = os.path.dirname(os.path.dirname(os.path.abspath(__file__)))
path = os.path.join(V, "spec", "verifier_checks.json")
spec = json.load(open(path))
for pid in [k for k in list(spec) if "#" not in k]:
    subprocess.run([os.path.join(V, "check"), pid], cwd=V, capture_output=True)
    e = json.load(open(os.path.join(V, "evidence", pid + ".json")))
    unc = e["coverage"].get("unconditional_checks")
    if unc:
        spec[pid + "#unconditional"] = {m: n for m, n in sorted(unc.items()) if m in spec[pid]}
        spec[pid + "#collection-equalities"] = {m[6:]: n for m, n in sorted(unc.items()) if m.startswith("#coll:")}
        print(pid, spec[pid + "#unconditional"])
json.dump(spec, open(path, "w"), indent=1, sort_keys=True)
