#!/bin/bash
# tools/mk_seed_env.sh <TAG> <PROP> [sc|rs]: scratch worktree /tmp/wt-<TAG> (+ shim env /tmp/env-<TAG> for sc) and prompt /tmp/prompt_<TAG>.txt
set -e
TAG=$1; PROP=$2; KIND=${3:-rs}
[ -f /tmp/props/$PROP.txt ] || python3 /verif/tools/seed_prompts/props_txt.py
git -C /repo worktree add --detach /tmp/wt-$TAG HEAD >/dev/null 2>&1
if [ "$KIND" = sc ]; then
  mkdir -p /tmp/env-$TAG
  cp -r /verif/shims /tmp/env-$TAG/shims
  rm -rf /tmp/env-$TAG/shims/target
  sed -i "s#/repo/#/tmp/wt-$TAG/#g" /tmp/env-$TAG/shims/Cargo.toml /tmp/env-$TAG/shims/*/Cargo.toml
  sed "s/C01/$TAG/g; s#/tmp/props/$TAG.txt#/tmp/props/$PROP.txt#g; s/\"property\": \"$TAG\"/\"property\": \"$PROP\"/" /verif/tools/seed_prompts/sc_template.txt > /tmp/prompt_$TAG.txt
else
  sed "s/C10/$TAG/g; s#/tmp/props/$TAG.txt#/tmp/props/$PROP.txt#g; s/\"property\": \"$TAG\"/\"property\": \"$PROP\"/" /verif/tools/seed_prompts/rs_template.txt > /tmp/prompt_$TAG.txt
fi
echo /tmp/prompt_$TAG.txt
