#!/bin/bash
# tools/try_patch.sh <patch.diff> <property id>... : apply a patch to /repo, run checks, undo.
set -u
P=$(readlink -f "$1"); shift
cd /repo || exit 2
if ! git diff --quiet; then echo "repo dirty"; exit 2; fi
git apply "$P" || { echo "patch does not apply"; exit 2; }
trap 'git -C /repo checkout -- . ' EXIT
cd /verif
for id in "$@"; do
  ./check "$id" 2>&1 | tail -${TAILN:-8}
  echo "exit=$? ($id)"
done
