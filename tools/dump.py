#!/usr/bin/env python3
"""pretty-print MIR facts of a function: tools/dump.py <ws> <crate> <path-regex> [-v]"""
import sys, os, re, json
sys.path.insert(0, os.path.dirname(os.path.dirname(os.path.abspath(__file__))))
from vlib import facts

def pl(p):
    s = "_%d" % p[0]
    for x in p[1]:
        s += "." + x if x != "*" else ".*"
    return s
def op(o):
    if "c" in o: return pl(o["c"])
    if "m" in o: return "mv " + pl(o["m"])
    k = o.get("k", {})
    if "item" in k: return "const<%s>=%s" % (k["item"], k.get("v", ""))
    if "fn" in k: return "fn<%s>" % k["fn"]
    if "v" in k: return "%s:%s" % (k["v"], k["ty"])
    if "str" in k: return json.dumps(k["str"])
    return "const(%s)" % k.get("s", "?")[:60]
def rv(r):
    k = r["k"]
    if k == "use": return op(r["a"])
    if k == "ref": return ("&mut " if r["mut"] else "&") + pl(r["p"])
    if k == "cast": return "%s as %s [%s]" % (op(r["a"]), r["ty"], r["ck"])
    if k == "bin": return "%s(%s, %s)" % (r["op"], op(r["a"]), op(r["b"]))
    if k == "un": return "%s(%s)" % (r["op"], op(r["a"]))
    if k == "discr": return "discr(%s)" % pl(r["p"])
    if k == "agg":
        n = r.get("adt", r.get("agg"))
        if "variant" in r: n += "::" + r["variant"]
        return "%s{%s}" % (n, ", ".join(op(x) for x in r["ops"]))
    return json.dumps(r)[:100]
def main():
    ws, cn, pat = sys.argv[1:4]
    c = facts.crate(ws, cn)
    for p in c.find(lambda p: re.search(pat, p)):
        for b in c.get_all(p):
            print("=== %s  (%s:%d) argc=%d ret=%s" % (b["path"], b["file"], b["line"], b["argc"], b.get("output")))
            if "-l" in sys.argv:
                continue
            print("   names:", ", ".join("%s=%s" % (n, pl(q)) for n, q in b["names"]))
            for i, bl in enumerate(b["blocks"]):
                if bl["cleanup"] and "-v" not in sys.argv: continue
                print(" bb%d:" % i)
                for s in bl["s"]:
                    if "lhs" in s:
                        print("    %s = %s   // L%d %s" % (pl(s["lhs"]), rv(s["rv"]), s["line"], s["exp"]))
                    else:
                        print("    ", s)
                t = bl["t"]
                if t["k"] == "call":
                    f = t["f"]
                    nm = f.get("path", "<indirect>")
                    if "res" in f: nm += " => " + f["res"]
                    if "self" in f: nm += " [Self=%s]" % f["self"]
                    print("    %s = CALL %s(%s) -> bb%s   // L%d %s" % (pl(t["dest"]), nm, ", ".join(op(a) for a in t["args"]), t["target"], t["line"], t["exp"]))
                elif t["k"] == "switch":
                    print("    SWITCH %s [%s] else bb%d  (%s)  // L%d %s" % (op(t["d"]), ", ".join("%s->bb%d" % (v, tb) for v, tb in t["t"]), t["o"], t["dty"], t["line"], t["exp"]))
                elif t["k"] == "assert":
                    print("    ASSERT %s==%s %s -> bb%d" % (op(t["cond"]), t["expected"], t["mk"], t["target"]))
                elif t["k"] == "drop":
                    print("    DROP %s -> bb%d" % (pl(t["p"]), t["target"]))
                else:
                    print("    %s %s" % (t["k"].upper(), t.get("target", "")))
main()
