#!/usr/bin/env python3
"""Rewrite the obligation-count column of the table in DESIGN.md section 2 from evidence/<id>.json."""
import json, re, os
V = os.path.dirname(os.path.dirname(os.path.abspath(__file__)))
s = open(os.path.join(V, "DESIGN.md")).read()
def rep(m):
    pid = m.group(1)
    e = json.load(open(os.path.join(V, "evidence", pid + ".json")))
    return "| %s | %d |" % (pid, e["coverage"]["obligations"])
s2 = re.sub(r"^\| (C\d\d) \| \d+ \|", rep, s, flags=re.M)
open(os.path.join(V, "DESIGN.md"), "w").write(s2)
print("updated" if s2 != s else "unchanged")
