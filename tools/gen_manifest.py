#!/usr/bin/env python3
"""Generate MANIFEST.json from the per-property metadata in checks/*.py (META dicts)."""
import importlib, json, os, sys
HERE = os.path.dirname(os.path.dirname(os.path.abspath(__file__)))
sys.path.insert(0, HERE)
props = [json.loads(l) for l in open(os.path.join(HERE, "properties.jsonl"))]
checks, na = [], []
for p in props:
    pid = p["id"]
    modp = os.path.join(HERE, "checks", pid.lower() + ".py")
    meta = None
    if os.path.exists(modp):
        mod = importlib.import_module("checks." + pid.lower())
        meta = getattr(mod, "META", None)
    if meta is not None and not meta.get("_more_applied"):
        from checks.meta_more import MORE
        if pid in MORE:
            meta = dict(meta)
            meta["text"] = meta["text"].rstrip() + " " + MORE[pid][0]
            meta["technique"] = meta["technique"].rstrip() + "; " + MORE[pid][1]
    if meta is None or meta.get("not_applicable"):
        na.append(dict(property_id=pid, reason=(meta or {}).get("not_applicable", "check not yet built in this round; see DESIGN.md §4 for the planned structural clauses")))
        continue
    checks.append(dict(
        property_id=pid,
        quick_cmd="./check %s --tier quick" % pid,
        thorough_cmd="./check %s --tier thorough" % pid,
        evidence_file="evidence/%s.json" % pid,
        replay_cmd_template="./check %s --replay {path}" % pid,
        engine="mirq+vlib",
        level_claimed=dict(category="other", text=meta["text"], design_ref=meta.get("design_ref", "DESIGN.md §4 " + pid)),
        level_note=meta.get("note", "Trusted: rustc nightly MIR construction and trait resolution, the vlib CFG/dominator/def-use code, "
                            "and for the smart-contract crates the four signature-only stub crates. Decides structural necessary "
                            "conditions only; the behavioural remainder is listed as NOT DECIDED in the evidence file."),
        technique=meta["technique"],
    ))
man = dict(
    version=1,
    setup_cmd="./setup.sh",
    hooks=dict(guard="concordium_base_verif", enable="none needed: the analysis reads compiler MIR of the unmodified sources",
               baseline_off_cmd="cd /repo/rust-src && cargo test --workspace --no-fail-fast --offline",
               source_commits=[], add_only=True),
    engines=[dict(name="mirq", path="engines/mirq", serves_properties=[c["property_id"] for c in checks],
                  kind_free_text="rustc_private driver dumping resolved MIR facts (bodies, ADTs, evaluated constants) as JSON lines"),
             dict(name="vlib", path="vlib", serves_properties=[c["property_id"] for c in checks],
                  kind_free_text="python static-analysis library: CFG, dominators, def-use slices, call graph, rule templates ENF/CMP/DOM/RET/COV/TAB/SYM/ALLOC/ERR/EFF/WHO")],
    checks=checks,
    not_applicable=na,
    notes="Static analysis only (see DESIGN.md). Every claimed check decides structural necessary conditions of its property and says so.",
)
json.dump(man, open(os.path.join(HERE, "MANIFEST.json"), "w"), indent=1)
print("claimed:", [c["property_id"] for c in checks], "n/a:", [x["property_id"] for x in na])
