#!/usr/bin/env python3
"""tools/seed_totals.py: first-run totals of the kept seeded changes, from seeded/*/verdict.json (caught = first_run starts with
'caught' or 'DETECTED'; everything else, including 'reported for the wrong reason' and 'anchor lost', counts as missed)."""
import json, glob, os, collections
by = collections.defaultdict(lambda: [0, 0]); nov = []
for d in sorted(glob.glob("/verif/seeded/C*")):
    vp = os.path.join(d, "verdict.json")
    if not os.path.exists(vp):
        nov.append(os.path.basename(d)); continue
    fr = json.load(open(vp)).get("first_run", "")
    r = os.path.basename(d).split("-")[1]
    by[r][1] += 1
    if fr.lower().startswith("caught") or fr.startswith("DETECTED"):
        by[r][0] += 1
c = sum(v[0] for v in by.values()); t = sum(v[1] for v in by.values())
print("%d seeds, %d caught / %d missed on the first run" % (t, c, t - c))
print(", ".join("%s %d/%d" % (r, v[0], v[1]) for r, v in sorted(by.items())))
if nov: print("no verdict yet:", nov)
