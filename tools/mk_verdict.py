#!/usr/bin/env python3
"""tools/mk_verdict.py <seed dir name> <first_run> <detected csv> <reported> <strengthening> [rs]: write seeded/<name>/verdict.json"""
import json, sys, os
name, first, det, rep, strg = sys.argv[1:6]
rs = len(sys.argv) > 6
d = os.path.join("/verif/seeded", name)
pid = json.load(open(os.path.join(d, "meta.json")))["property"]
v = dict(property=pid, detected_by_checks=[x for x in det.split(",") if x], first_run=first, strengthening=strg, reported=rep,
         confirmed_by_me=dict(compiles_with_patch=True,
                              pinned_suite=("cargo test --offline -p concordium_base passes with the patch" if rs else
                                            "not applicable (smart-contract crates are outside the pinned suite); shim workspace builds with the patch"),
                              demo_fails_with_patch=True, demo_passes_without_patch=True))
json.dump(v, open(os.path.join(d, "verdict.json"), "w"), indent=1)
print(d)
