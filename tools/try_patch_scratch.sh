#!/bin/bash
# tools/try_patch_scratch.sh <patch.diff> <property id>... : like try_patch.sh but on a scratch worktree (/tmp/verif-scratch2/repo),
# so that /repo stays untouched while other runs read it. Evidence is not written.
set -u
P=$(readlink -f "$1"); shift
S=${VERIF_TRY_SCRATCH:-/tmp/verif-scratch2/repo}
if [ ! -d $S ]; then mkdir -p $(dirname $S); git -C /repo worktree add --detach $S HEAD >/dev/null 2>&1 || exit 2; fi
git -C $S checkout -q --detach $(git -C /repo rev-parse HEAD); git -C $S checkout -q -- .
git -C $S apply "$P" || { echo "patch does not apply"; exit 2; }
trap "git -C $S checkout -q -- ." EXIT
cd /verif
for id in "$@"; do
  VERIF_REPO=$S VERIF_NO_EVIDENCE=1 ./check "$id" 2>&1 | tail -${TAILN:-8}
done
