#!/bin/bash
# tools/confirm_sc.sh <TAG>: confirm a smart-contract seed in its scratch env: demo passes without / fails with the patch, shim workspace builds with the patch
TAG=$1
WT=/tmp/wt-$TAG; ENV=/tmp/env-$TAG/shims
LOG=/tmp/confirm-$TAG.log; : > $LOG
cd $WT && git checkout -q -- . 
PKG=$(grep -m1 '^name' $ENV/demo/Cargo.toml | sed 's/.*"\(.*\)".*/\1/')
echo "demo package: $PKG" >> $LOG
cd $ENV
echo "== demo WITHOUT patch:" >> $LOG
cargo test --offline -p $PKG 2>&1 | grep -E "^test result|^test .*(FAILED|ok)$|^error" | tail -12 >> $LOG
(cd $WT && git apply SEEDED/patch.diff) || echo "patch failed to apply" >> $LOG
echo "== shim workspace build WITH patch:" >> $LOG
cargo build --offline 2>&1 | grep -E "^error|Finished" | tail -3 >> $LOG
echo "== demo WITH patch:" >> $LOG
cargo test --offline -p $PKG 2>&1 | grep -E "^test result|^test .*(FAILED|ok)$|^error" | tail -12 >> $LOG
(cd $WT && git checkout -q -- .)
echo DONE >> $LOG
cat $LOG
