#!/usr/bin/env python3
"""Mutation sensitivity survey (development aid, not a registered check).

For one property: generate one-token source mutants inside the property's anchored mechanism ranges
(relational operator replacement, &&/||, negation removal, +-1 removal, deletion of a one-line check),
apply each to a scratch worktree, run the property's quick check there and record
killed / survived / does-not-compile.  Survivors are review candidates: either equivalent / irrelevant
to the property, or a blind spot of the check.

  tools/mutate.py C11 [--max 40] [--seed 1] [--ops ROR,LCR,NEG,AOR,DEL] [--extra file:lo-hi ...]
results: .cache/mutation/<id>.jsonl (one line per mutant)
"""
import json
import os
import random
import re
import subprocess
import sys
import time

VERIF = os.path.dirname(os.path.dirname(os.path.abspath(__file__)))
SCRATCH = os.environ.get("VERIF_MUT_SCRATCH", "/tmp/verif-mut/repo")

SC = ["C01", "C02", "C03", "C04", "C09", "C13", "C14", "C15"]
RS = ["C05", "C06", "C07", "C08", "C10", "C11", "C12", "C16", "C17", "C18", "C19", "C20"]
ROR = [(" == ", " != "), (" != ", " == "), (" < ", " <= "), (" <= ", " < "), (" > ", " >= "), (" >= ", " > ")]
LCR = [(" && ", " || "), (" || ", " && ")]


def sh(cmd, **kw):
    return subprocess.run(cmd, stdout=subprocess.PIPE, stderr=subprocess.STDOUT, text=True, **kw)


def ranges_for(pid):
    out = []
    for l in open(os.path.join(VERIF, "properties.jsonl")):
        d = json.loads(l)
        if d["id"] != pid:
            continue
        for m in d["anchors"].get("mechanism", []):
            for part in m["where"].split(";"):
                part = part.strip()
                mm = re.match(r"^(\S+?):(\d+)-(\d+)((?:,\s*\d+-\d+)*)$", part)
                if not mm:
                    continue
                f = mm.group(1)
                out.append((f, int(mm.group(2)), int(mm.group(3))))
                for extra in re.findall(r"(\d+)-(\d+)", mm.group(4) or ""):
                    out.append((f, int(extra[0]), int(extra[1])))
    return out


def code_part(line):
    i = line.find("//")
    return line if i < 0 else line[:i]


def candidates(repo, rngs, ops):
    out = []
    for (f, lo, hi) in rngs:
        p = os.path.join(repo, f)
        if not os.path.exists(p):
            continue
        lines = open(p).read().split("\n")
        in_test = False
        for n in range(1, len(lines) + 1):
            ln = lines[n - 1]
            if "#[cfg(test)]" in ln and n < len(lines) and re.match(r"^\s*(pub\s+)?mod\s", lines[n]):
                in_test = True
            if in_test or n < lo or n > hi:
                continue
            code = code_part(ln)
            st = code.strip()
            if not st or st.startswith(("#", "///", "//!", "assert", "debug_assert")):
                continue
            if "ROR" in ops:
                for (a, b) in ROR:
                    for m in re.finditer(re.escape(a), code):
                        # skip generics / arrows / shifts
                        ctx = code[max(0, m.start() - 1):m.end() + 1]
                        if "->" in ctx or "=>" in ctx or "<<" in ctx or ">>" in ctx:
                            continue
                        out.append(dict(op="ROR", file=f, line=n, col=m.start(), old=a, new=b))
            if "LCR" in ops:
                for (a, b) in LCR:
                    for m in re.finditer(re.escape(a), code):
                        out.append(dict(op="LCR", file=f, line=n, col=m.start(), old=a, new=b))
            if "NEG" in ops:
                for m in re.finditer(r"\bif !", code):
                    out.append(dict(op="NEG", file=f, line=n, col=m.start(), old="if !", new="if "))
            if "AOR" in ops:
                for m in re.finditer(r" [+-] 1\b(?!\d|\.|_| <<)", code):
                    out.append(dict(op="AOR", file=f, line=n, col=m.start(), old=m.group(0), new=""))
            if "DEL" in ops:
                if re.match(r"^(ensure!\(.*\);|[a-z_\.]+[a-z_0-9:<>\(\)&\., ]*\)\?;)$", st) and not st.startswith("let "):
                    out.append(dict(op="DEL", file=f, line=n, col=0, old=ln, new=""))
    return out


def apply(repo, m):
    p = os.path.join(repo, m["file"])
    lines = open(p).read().split("\n")
    ln = lines[m["line"] - 1]
    if m["op"] == "DEL":
        lines[m["line"] - 1] = ""
    else:
        assert ln[m["col"]:m["col"] + len(m["old"])] == m["old"], (ln, m)
        lines[m["line"] - 1] = ln[:m["col"]] + m["new"] + ln[m["col"] + len(m["old"]):]
    open(p, "w").write("\n".join(lines))
    return ln


def main():
    pid = sys.argv[1]
    args = sys.argv[2:]
    mx, seed, ops, extra = 40, 1, "ROR,LCR,NEG,AOR,DEL", []
    retest = False
    cross = "--cross" in args
    i = 0
    while i < len(args):
        if args[i] == "--max":
            mx = int(args[i + 1]); i += 2
        elif args[i] == "--seed":
            seed = int(args[i + 1]); i += 2
        elif args[i] == "--ops":
            ops = args[i + 1]; i += 2
        elif args[i] == "--extra":
            mm = re.match(r"^(\S+?):(\d+)-(\d+)$", args[i + 1])
            extra.append((mm.group(1), int(mm.group(2)), int(mm.group(3)))); i += 2
        elif args[i] == "--retest":
            retest = True; i += 1
        else:
            i += 1
    ops = set(ops.split(","))
    os.makedirs(os.path.dirname(SCRATCH), exist_ok=True)
    sh(["git", "-C", "/repo", "worktree", "remove", "--force", SCRATCH])
    sh(["git", "-C", "/repo", "worktree", "prune"])
    r = sh(["git", "-C", "/repo", "worktree", "add", "--detach", SCRATCH, "HEAD"])
    if r.returncode != 0:
        sys.exit("cannot create scratch worktree: " + r.stdout)
    rngs = ranges_for(pid) + extra
    cands = candidates(SCRATCH, rngs, ops)
    random.Random(seed).shuffle(cands)
    outdir = os.path.join(VERIF, ".cache", "mutation")
    os.makedirs(outdir, exist_ok=True)
    outp = os.path.join(outdir, pid + ".jsonl")
    done = set()
    if os.path.exists(outp):
        for l in open(outp):
            d = json.loads(l)
            done.add((d["file"], d["line"], d["col"], d["op"], d["new"]))
    if retest:
        # re-run the survivors of earlier runs only (after a check was strengthened); latest status wins
        latest = {}
        for l in open(outp):
            d = json.loads(l)
            latest[(d["file"], d["line"], d["col"], d["op"], d["new"])] = d
        cands = [dict(op=d["op"], file=d["file"], line=d["line"], col=d["col"], old=d["old"], new=d["new"]) for d in latest.values() if d["status"] == "survived"]
        done = set()
        mx = len(cands)
    print("%s: %d ranges, %d candidate mutants, running up to %d" % (pid, len(rngs), len(cands), mx))
    env = dict(os.environ)
    env.update(VERIF_REPO=SCRATCH, VERIF_NO_EVIDENCE="1", VERIF_TIER="quick")
    n = 0
    try:
        for m in cands:
            if n >= mx:
                break
            key = (m["file"], m["line"], m["col"], m["op"], m["new"])
            if key in done:
                continue
            n += 1
            sh(["git", "-C", SCRATCH, "checkout", "--", "."])
            src = apply(SCRATCH, m)
            t0 = time.time()
            r = sh([sys.executable, os.path.join(VERIF, "check"), pid, "--tier", "quick"], cwd=VERIF, env=env)
            viol = [l.strip() for l in r.stdout.splitlines() if l.startswith("  rule=")]
            if r.returncode == 1 and "VIOLATION" in r.stdout:
                status = "killed"
            elif r.returncode == 0:
                status = "survived"
            else:
                status = "nocompile" if "does not compile" in r.stdout or "facts:" in r.stdout else "error"
            killed_by = pid if status == "killed" else None
            if status == "survived" and cross:
                fam = SC if pid in SC else RS
                for other in fam:
                    if other == pid:
                        continue
                    r2 = sh([sys.executable, os.path.join(VERIF, "check"), other, "--tier", "quick"], cwd=VERIF, env=env)
                    if r2.returncode == 1 and "VIOLATION" in r2.stdout:
                        status, killed_by = "killed", other
                        viol = [l.strip() for l in r2.stdout.splitlines() if l.startswith("  rule=")]
                        break
            m["killed_by"] = killed_by
            m2 = dict(m)
            m2.update(status=status, src=src.strip()[:160], wall=round(time.time() - t0, 1), reported=[v[:200] for v in viol[:2]])
            if status == "error":
                m2["tail"] = r.stdout[-400:]
            with open(outp, "a") as f:
                f.write(json.dumps(m2) + "\n")
            print("%-9s %s %s:%d  %s  [%s -> %s]  %.0fs" % (status, m["op"], m["file"].split("/")[-1], m["line"], src.strip()[:70], m["old"].strip()[:12], m["new"].strip()[:12], m2["wall"]))
            sys.stdout.flush()
    finally:
        sh(["git", "-C", "/repo", "worktree", "remove", "--force", SCRATCH])
        sh(["git", "-C", "/repo", "worktree", "prune"])


if __name__ == "__main__":
    main()
