#!/usr/bin/env python3
"""write /tmp/props/<id>.txt (the property text handed to seed agents) from /verif/properties.jsonl"""
import json, os
os.makedirs("/tmp/props", exist_ok=True)
for l in open("/verif/properties.jsonl"):
    d = json.loads(l)
    a = d.get("anchors", {})
    out = ["PROPERTY %s: %s" % (d["id"], d["title"]), "", "STATEMENT:", d["statement"], "",
           "QUANTIFIER (%s):" % ", ".join(d["quantifier"]["over"]), d["quantifier"]["text"], "",
           "WHY THE EXISTING TESTS CANNOT SETTLE IT:", d["why_tests_cant"], "", "ANCHOR FILES:"]
    out += ["  " + f for f in a.get("files", [])]
    out += ["", "MECHANISMS MEANT TO MAKE IT HOLD:"]
    out += ["  - %s  @ %s" % (m["name"], m["where"]) for m in a.get("mechanism", [])]
    open("/tmp/props/%s.txt" % d["id"], "w").write("\n".join(out) + "\n")
