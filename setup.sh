#!/bin/bash
# Build the mirq driver and warm the dependency caches (offline).
set -e
cd "$(dirname "$0")"
export CARGO_NET_OFFLINE=true
(cd engines/mirq && cargo build --release --offline)
python3 vlib/facts.py
