//! Stub with the signatures used by the host functions.
#[derive(Debug, Clone, Copy, PartialEq, Eq)]
pub struct Error;
impl std::fmt::Display for Error { fn fmt(&self, f: &mut std::fmt::Formatter<'_>) -> std::fmt::Result { write!(f, "ed25519 error") } }
impl std::error::Error for Error {}
pub struct Signature([u8; 64]);
impl Signature { pub fn from_bytes(b: &[u8; 64]) -> Signature { Signature(*b) } }
impl TryFrom<&[u8]> for Signature { type Error = Error; fn try_from(d: &[u8]) -> Result<Self, Error> { let a: [u8; 64] = d.try_into().map_err(|_| Error)?; Ok(Signature(a)) } }
pub struct VerificationKey([u8; 32]);
impl TryFrom<&[u8]> for VerificationKey { type Error = Error; fn try_from(d: &[u8]) -> Result<Self, Error> { let a: [u8; 32] = d.try_into().map_err(|_| Error)?; Ok(VerificationKey(a)) } }
impl TryFrom<[u8; 32]> for VerificationKey { type Error = Error; fn try_from(d: [u8; 32]) -> Result<Self, Error> { Ok(VerificationKey(d)) } }
impl VerificationKey { pub fn verify(&self, _sig: &Signature, _msg: &[u8]) -> Result<(), Error> { Err(Error) } }
