//! Stub with the signatures used by the host functions.
#[derive(Debug, Clone, Copy, PartialEq, Eq)]
pub struct Error;
impl std::fmt::Display for Error { fn fmt(&self, f: &mut std::fmt::Formatter<'_>) -> std::fmt::Result { write!(f, "secp256k1 error") } }
impl std::error::Error for Error {}
pub struct VerifyOnly;
pub struct Secp256k1<C> { _c: std::marker::PhantomData<C> }
impl Secp256k1<VerifyOnly> { pub fn verification_only() -> Self { Secp256k1 { _c: std::marker::PhantomData } } }
impl<C> Secp256k1<C> {
    pub fn verify_ecdsa(&self, _msg: &Message, _sig: &ecdsa::Signature, _pk: &PublicKey) -> Result<(), Error> { Err(Error) }
}
pub struct Message([u8; 32]);
impl Message { pub fn from_slice(d: &[u8]) -> Result<Message, Error> { let a: [u8; 32] = d.try_into().map_err(|_| Error)?; Ok(Message(a)) } }
pub struct PublicKey([u8; 33]);
impl PublicKey { pub fn from_slice(d: &[u8]) -> Result<PublicKey, Error> { let a: [u8; 33] = d.try_into().map_err(|_| Error)?; Ok(PublicKey(a)) } }
pub mod ecdsa {
    pub struct Signature(pub(crate) [u8; 64]);
    impl Signature { pub fn from_compact(d: &[u8]) -> Result<Signature, super::Error> { let a: [u8; 64] = d.try_into().map_err(|_| super::Error)?; Ok(Signature(a)) } }
}
