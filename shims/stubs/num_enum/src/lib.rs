//! Stub: nothing in the analysed crates calls the generated `try_from`.
extern crate proc_macro;
use proc_macro::TokenStream;
#[proc_macro_derive(TryFromPrimitive, attributes(num_enum))]
pub fn derive_try_from_primitive(_input: TokenStream) -> TokenStream { TokenStream::new() }
