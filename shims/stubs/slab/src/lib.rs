//! Stub with the signatures used by the trie's PrefixesMap.
#[derive(Debug, Clone)]
pub struct Slab<T> { entries: Vec<Option<T>> }
impl<T> Default for Slab<T> { fn default() -> Self { Self::new() } }
impl<T> Slab<T> {
    pub fn new() -> Self { Slab { entries: Vec::new() } }
    pub fn insert(&mut self, v: T) -> usize { self.entries.push(Some(v)); self.entries.len() - 1 }
    pub fn remove(&mut self, k: usize) -> T { self.entries[k].take().expect("invalid key") }
    pub fn contains(&self, k: usize) -> bool { self.entries.get(k).map_or(false, |x| x.is_some()) }
    pub fn get(&self, k: usize) -> Option<&T> { self.entries.get(k).and_then(|x| x.as_ref()) }
    pub fn get_mut(&mut self, k: usize) -> Option<&mut T> { self.entries.get_mut(k).and_then(|x| x.as_mut()) }
    pub unsafe fn get_unchecked(&self, k: usize) -> &T { self.entries.get_unchecked(k).as_ref().unwrap() }
    pub unsafe fn get_unchecked_mut(&mut self, k: usize) -> &mut T { self.entries.get_unchecked_mut(k).as_mut().unwrap() }
    pub fn is_empty(&self) -> bool { self.entries.iter().all(|x| x.is_none()) }
    pub fn len(&self) -> usize { self.entries.iter().filter(|x| x.is_some()).count() }
}
