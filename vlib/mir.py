"""CFG, dominators and def-use over mirq facts (one `Fn` per MIR body)."""
import re
from collections import defaultdict

# callees through which a value is considered "the same value" for def-use purposes
CONVERSIONS = re.compile(
    r"^(std|core|alloc)::(convert::(From::from|Into::into|TryFrom::try_from|TryInto::try_into|AsRef::as_ref|AsMut::as_mut)"
    r"|clone::Clone::clone|ops::Deref::deref|ops::DerefMut::deref_mut|borrow::Borrow::borrow|borrow::ToOwned::to_owned"
    r"|ops::Try::branch|ops::FromResidual::from_residual|ops::try_trait::Try::branch|ops::try_trait::FromResidual::from_residual"
    r"|option::Option::<T>::(unwrap|expect|as_ref|as_mut|copied|cloned|unwrap_or|unwrap_or_default|ok_or|ok_or_else|take|as_deref)"
    r"|result::Result::<T, E>::(unwrap|expect|as_ref|as_mut|ok|map_err|unwrap_or|unwrap_or_default|copied|cloned)"
    r"|iter::IntoIterator::into_iter|iter::Iterator::next"
    r"|num::NonZero::<T>::get"
    r"|intrinsics::transmute"
    r")$")


def pl_local(p):
    return p[0]


def op_place(op):
    """place of a copy/move operand or None for constants"""
    if "c" in op:
        return op["c"]
    if "m" in op:
        return op["m"]
    return None


def op_const(op):
    return op.get("k")


def const_int(k):
    if k is not None and "v" in k:
        return int(k["v"])
    return None


def callee_name(term):
    f = term.get("f", {})
    return f.get("path", "")


def callee_ids(term):
    """all names a call may be matched by: declared path, resolved path"""
    f = term.get("f", {})
    ids = []
    if "path" in f:
        ids.append(f["path"])
    if "res" in f:
        ids.append(f["res"])
    return ids


def callee_match(term, pat):
    """pat: compiled regex or string (search) against `path` / `res` and
    `<Self as path>` rendering"""
    f = term.get("f", {})
    if "path" not in f:
        return False
    cands = list(callee_ids(term))
    if "self" in f:
        cands.append("<%s>::%s" % (f["self"], f.get("name", "")))
        if "trait" in f:
            cands.append("<%s as %s>::%s" % (f["self"], f["trait"], f.get("name", "")))
    if isinstance(pat, str):
        pat = re.compile(pat)
    return any(pat.search(c) for c in cands)


class Fn:
    def __init__(self, body):
        self.b = body
        self.path = body["path"]
        self.blocks = body["blocks"]
        self.n = len(self.blocks)
        self.argc = body["argc"]
        self.locals = body["locals"]
        self._succ = [self._successors(i) for i in range(self.n)]
        self._pred = None
        self._dom = None
        self._defs = None
        self._names = None
        self._reach = None

    # ------------------------------------------------------------ CFG
    def _successors(self, i, with_unwind=False):
        t = self.blocks[i]["t"]
        k = t["k"]
        if k == "goto":
            return [t["target"]]
        if k == "switch":
            out = []
            for _, tb in t["t"]:
                if tb not in out:
                    out.append(tb)
            if t["o"] not in out:
                out.append(t["o"])
            return out
        if k in ("call",):
            return [t["target"]] if t["target"] is not None else []
        if k in ("drop", "assert"):
            return [t["target"]]
        return []

    def succ(self, i):
        return self._succ[i]

    def pred(self, i):
        if self._pred is None:
            self._pred = [[] for _ in range(self.n)]
            for a in range(self.n):
                for b in self._succ[a]:
                    self._pred[b].append(a)
        return self._pred[i]

    def term(self, i):
        return self.blocks[i]["t"]

    def stmts(self, i):
        return self.blocks[i]["s"]

    def reachable(self):
        """blocks reachable from entry along normal (non-unwind) edges, with
        `unreachable`-terminated blocks excluded"""
        if self._reach is None:
            seen = {0}
            st = [0]
            while st:
                a = st.pop()
                for b in self._succ[a]:
                    if b not in seen:
                        seen.add(b)
                        st.append(b)
            self._reach = seen
        return self._reach

    def reach_from(self, starts, avoid=()):
        seen = set()
        st = []
        for s in starts:
            if s not in avoid and s not in seen:
                seen.add(s)
                st.append(s)
        while st:
            a = st.pop()
            for b in self._succ[a]:
                if b not in seen and b not in avoid:
                    seen.add(b)
                    st.append(b)
        return seen

    def can_reach(self, targets):
        """set of blocks from which some block in `targets` is reachable (incl. the targets)"""
        targets = set(targets)
        seen = set(targets)
        st = list(targets)
        while st:
            a = st.pop()
            for p in self.pred(a):
                if p not in seen:
                    seen.add(p)
                    st.append(p)
        return seen

    def dominators(self):
        """idom array (Cooper-Harvey-Kennedy) over reachable blocks"""
        if self._dom is not None:
            return self._dom
        # reverse postorder
        order = []
        seen = set()
        stack = [(0, iter(self._succ[0]))]
        seen.add(0)
        while stack:
            node, it = stack[-1]
            adv = False
            for s in it:
                if s not in seen:
                    seen.add(s)
                    stack.append((s, iter(self._succ[s])))
                    adv = True
                    break
            if not adv:
                order.append(node)
                stack.pop()
        rpo = order[::-1]
        idx = {b: i for i, b in enumerate(rpo)}
        idom = {0: 0}
        changed = True
        while changed:
            changed = False
            for b in rpo[1:]:
                new = None
                for p in self.pred(b):
                    if p in idom:
                        if new is None:
                            new = p
                        else:
                            f1, f2 = p, new
                            while f1 != f2:
                                while idx[f1] > idx[f2]:
                                    f1 = idom[f1]
                                while idx[f2] > idx[f1]:
                                    f2 = idom[f2]
                            new = f1
                if new is not None and idom.get(b) != new:
                    idom[b] = new
                    changed = True
        self._dom = idom
        return idom

    def dominates(self, a, b):
        """block a dominates block b"""
        idom = self.dominators()
        if b not in idom or a not in idom:
            return False
        while True:
            if a == b:
                return True
            if b == 0:
                return False
            b = idom[b]

    # ------------------------------------------------------------ names
    def names(self):
        if self._names is None:
            self._names = {}
            for n, p in self.b.get("names", []):
                if not p[1]:
                    self._names.setdefault(p[0], n)
        return self._names

    def captures(self):
        """closure bodies: projection 'f<i>:' of _1 -> captured variable name"""
        if getattr(self, "_caps", None) is None:
            self._caps = {}
            if self.b.get("kind") == "closure":
                for n, p in self.b.get("names", []):
                    if p[0] == 1 and p[1] and p[1][0].startswith("f"):
                        self._caps.setdefault(p[1][0], n)
        return self._caps

    def promoted_atoms(self, idx):
        """atoms (constants, literals, aggregates) a promoted constant of this body is built from"""
        ps = self.b.get("promoted", [])
        if idx >= len(ps):
            return set()
        pb = ps[idx]
        atoms = set()
        for bl in pb["blocks"]:
            items = [s["rv"] for s in bl["s"] if "rv" in s]
            ops = []
            for rv in items:
                if rv["k"] in ("use", "cast", "un", "repeat"):
                    ops.append(rv["a"])
                elif rv["k"] == "bin":
                    ops += [rv["a"], rv["b"]]
                elif rv["k"] == "agg":
                    ops += rv["ops"]
                    if rv.get("agg") == "adt":
                        atoms.add(("agg", rv["adt"] + "::" + rv["variant"]))
            t = bl["t"]
            if t["k"] == "call":
                ops += t["args"]
                if "path" in t.get("f", {}):
                    atoms.add(("call", t["f"]["path"], -1))
            for o in ops:
                k = o.get("k")
                if k is None:
                    continue
                if "item" in k and "promoted" not in k:
                    atoms.add(("const", k["item"]))
                elif "v" in k:
                    atoms.add(("lit", int(k["v"])))
                elif "str" in k:
                    atoms.add(("str", k["str"]))
        return atoms

    def local_named(self, name):
        return [l for l, n in self.names().items() if n == name]

    # ------------------------------------------------------------ def-use
    def defs(self):
        """local -> list of (bb, idx or 't', item) where item is stmt or terminator"""
        if self._defs is None:
            d = defaultdict(list)
            for bi in range(self.n):
                for si, s in enumerate(self.blocks[bi]["s"]):
                    if "lhs" in s:
                        d[s["lhs"][0]].append((bi, si, s))
                t = self.blocks[bi]["t"]
                if t["k"] == "call":
                    d[t["dest"][0]].append((bi, "t", t))
            self._defs = d
        return self._defs

    def calls(self, pat=None):
        """[(bb, term)] of call terminators in reachable blocks (optionally matching pat)"""
        out = []
        for bi in sorted(self.reachable()):
            t = self.blocks[bi]["t"]
            if t["k"] == "call" and (pat is None or callee_match(t, pat)):
                out.append((bi, t))
        return out

    def mutref_targets(self):
        """local r -> set of locals x where r = &mut x (directly or reborrowed)"""
        if getattr(self, "_mr", None) is None:
            mr = defaultdict(set)
            for bi in range(self.n):
                for s in self.blocks[bi]["s"]:
                    rv = s.get("rv")
                    if rv and rv["k"] == "ref" and rv.get("mut"):
                        p = rv["p"]
                        mr[s["lhs"][0]].add((p[0], "*" in p[1]))
            # resolve reborrows: r = &mut *q  where q = &mut x
            res = defaultdict(set)
            for r, tg in mr.items():
                seen = set()
                st = list(tg)
                while st:
                    (x, deref) = st.pop()
                    if (x, deref) in seen:
                        continue
                    seen.add((x, deref))
                    if deref and x in mr:
                        st.extend(mr[x])
                    elif not deref:
                        res[r].add(x)
                    else:
                        # &mut *arg : the pointee of an argument; model as the arg local itself
                        res[r].add(x)
            self._mr = res
        return self._mr

    def origins(self, start, passthru=CONVERSIONS, deep=False, stop=None, maxn=4000, outflow=False, visited=None):
        """Backward slice.  start: a local (int) or an operand dict.
        Returns a set of atoms:
          ('call', path, bb)   value produced by a call (declared path; resolved path also as ('callres', ...))
          ('arg', n)           function argument local n
          ('lit', int) / ('str', s) / ('const', item_path) / ('fn', path)
          ('field', name)      a field projection was read on the way
          ('bin', op) / ('un', op) / ('cast', ty) / ('agg', adt::variant) / ('len',) / ('discr',)
        passthru: regex of callees whose arguments are followed; other calls stop the slice
        unless deep=True (then their arguments are followed too and reported as
        ('via', path)).
        """
        atoms = set()
        seen = set()
        work = []

        def push_op(op):
            if op is None:
                return
            p = op_place(op)
            if p is not None:
                push_place(p)
            else:
                k = op.get("k")
                if k is None:
                    return
                if "promoted" in k:
                    atoms.update(self.promoted_atoms(k["promoted"]))
                elif "item" in k:
                    atoms.add(("const", k["item"]))
                elif "static" in k:
                    atoms.add(("const", k["static"]))
                    if "sv" in k:
                        atoms.add(("lit", int(k["sv"])))
                if "fn" in k:
                    atoms.add(("fn", k["fn"]))
                elif "v" in k:
                    atoms.add(("lit", int(k["v"])))
                elif "str" in k:
                    atoms.add(("str", k["str"]))
                elif "::" in k.get("s", "") and "fn" not in k and "promoted" not in k and "item" not in k and "static" not in k:
                    atoms.add(("cval", k["s"].replace("const ", "")))

        caps = self.captures()

        def push_place(p):
            for n, pr in enumerate(p[1]):
                if pr.startswith("f"):
                    nm = pr.split(":", 1)[1]
                    if nm:
                        atoms.add(("field", nm))
                    elif p[0] == 1 and n == 0 and pr in caps:
                        atoms.add(("capture", caps[pr]))
            # field-sensitive step through a local built by exactly one aggregate
            if p[1] and p[1][0].startswith("f"):
                ds = defs.get(p[0], [])
                if len(ds) == 1 and ds[0][1] != "t" and not ds[0][2]["lhs"][1]:
                    rv = ds[0][2]["rv"]
                    if rv["k"] == "agg" and rv.get("agg") in ("tuple", "adt", "closure"):
                        try:
                            i = int(p[1][0][1:].split(":")[0])
                        except ValueError:
                            i = None
                        if i is not None and i < len(rv["ops"]):
                            push_op(rv["ops"][i])
                            return
                elif pr.startswith("i"):
                    pass
            work.append(p[0])

        defs = self.defs()
        if isinstance(start, int):
            work.append(start)
        else:
            push_op(start)
        mrt = None
        while work and len(seen) < maxn:
            l = work.pop()
            if l in seen:
                continue
            seen.add(l)
            if 1 <= l <= self.argc:
                atoms.add(("arg", l))
            for (bi, si, it) in defs.get(l, []):
                if si == "t":
                    t = it
                    f = t.get("f", {})
                    if "path" not in f:
                        atoms.add(("call", "<indirect>", bi))
                        continue
                    atoms.add(("call", f["path"], bi))
                    if "res" in f:
                        atoms.add(("callres", f["res"], bi))
                    if stop is not None and callee_match(t, stop):
                        continue
                    if callee_match(t, passthru):
                        for a in t["args"]:
                            push_op(a)
                    elif deep:
                        atoms.add(("via", f["path"]))
                        for a in t["args"]:
                            push_op(a)
                else:
                    rv = it["rv"]
                    k = rv["k"]
                    if k == "use":
                        push_op(rv["a"])
                    elif k == "cast":
                        atoms.add(("cast", rv["ty"]))
                        push_op(rv["a"])
                    elif k == "un":
                        atoms.add(("un", rv["op"]))
                        if rv["op"] == "PtrMetadata":
                            atoms.add(("len",))
                        push_op(rv["a"])
                    elif k == "bin":
                        atoms.add(("bin", rv["op"]))
                        push_op(rv["a"])
                        push_op(rv["b"])
                    elif k in ("ref", "rawptr"):
                        push_place(rv["p"])
                    elif k == "discr":
                        atoms.add(("discr",))
                        push_place(rv["p"])
                    elif k == "agg":
                        if rv.get("agg") == "adt":
                            atoms.add(("agg", rv["adt"] + "::" + rv["variant"]))
                        for o in rv["ops"]:
                            push_op(o)
                    elif k == "repeat":
                        push_op(rv["a"])
            # out-parameters: calls receiving &mut l
            if mrt is None:
                mrt = self.mutref_targets()
                self._outp = defaultdict(list)
                for bi in range(self.n):
                    t = self.blocks[bi]["t"]
                    if t["k"] == "call":
                        for a in t["args"]:
                            p = op_place(a)
                            if p is not None and not p[1] and p[0] in mrt:
                                for x in mrt[p[0]]:
                                    self._outp[x].append((bi, t))
            for (bi, t) in self._outp.get(l, []):
                f = t.get("f", {})
                if "path" in f:
                    atoms.add(("outparam", f["path"], bi))
                    if outflow:
                        # data written through the &mut parameter derives from the other arguments
                        for a in t["args"]:
                            p = op_place(a)
                            if p is not None and p[0] in mrt and l in mrt[p[0]]:
                                continue
                            push_op(a)
        if visited is not None:
            visited.update(seen)
        return atoms

    def forward(self, start_locals, passthru=CONVERSIONS, extra_passthru=None):
        """Forward closure: set of locals whose value derives from start_locals through
        assignments and pass-through calls.  Returns dict local -> True."""
        reached = set(start_locals)
        changed = True
        # precompute statement list
        items = []
        for bi in range(self.n):
            for s in self.blocks[bi]["s"]:
                if "lhs" in s:
                    items.append(("s", bi, s))
            t = self.blocks[bi]["t"]
            if t["k"] == "call":
                items.append(("t", bi, t))
        while changed:
            changed = False
            for kind, bi, it in items:
                if kind == "s":
                    lhs = it["lhs"][0]
                    if lhs in reached:
                        continue
                    if any(l in reached for l in rv_locals(it["rv"])):
                        reached.add(lhs)
                        changed = True
                else:
                    d = it["dest"][0]
                    if d in reached:
                        continue
                    if callee_match(it, passthru) or (extra_passthru is not None and callee_match(it, extra_passthru)):
                        for a in it["args"]:
                            p = op_place(a)
                            if p is not None and p[0] in reached:
                                reached.add(d)
                                changed = True
                                break
        return reached

    # ------------------------------------------------------------ accept / reject
    def ret_kind(self):
        out = self.b.get("output")
        if out is None:
            # closures: use type of _0
            out = self.locals[0]
        if out == "bool":
            return "bool"
        if out.startswith("std::result::Result<") or out.startswith("core::result::Result<") or "::Result<" in out.split("<")[0] + "<":
            return "result"
        if out.startswith("std::option::Option<"):
            return "option"
        if out == "()":
            return "unit"
        if out == "!":
            return "never"
        return "other"

    def accept_points(self):
        """blocks containing an ACCEPT point.  For bool/Option/Result-returning
        functions: assignments to _0 that are not a constant false / None / Err /
        from_residual.  Otherwise: the return terminator."""
        rk = self.ret_kind()
        acc = set()
        rej = set()
        if rk in ("bool", "result", "option"):
            for (bi, si, it) in self.defs().get(0, []):
                if bi not in self.reachable():
                    continue
                if si == "t":
                    if callee_match(it, r"FromResidual::from_residual$"):
                        rej.add(bi)
                    elif it["dest"][1]:
                        continue
                    else:
                        acc.add(it["target"] if it["target"] is not None else bi)
                    continue
                if it["lhs"][1]:
                    # partial write into _0 (e.g. field of Ok payload): ignore
                    continue
                rv = it["rv"]
                verdict = "acc"
                if rv["k"] == "use":
                    k = op_const(rv["a"])
                    if k is not None and rk == "bool" and const_int(k) == 0:
                        verdict = "rej"
                    elif k is not None and rk == "option" and k.get("s", "").endswith("None"):
                        verdict = "rej"
                    elif k is None:
                        # _0 = move _x : classify by the definitions of _x when all are constant
                        p = op_place(rv["a"])
                        vs = self._const_defs(p[0]) if p is not None and not p[1] else None
                        if vs is not None and rk == "bool" and vs == {0}:
                            verdict = "rej"
                        elif vs is not None and rk in ("result", "option") and vs <= {"Err", "None"}:
                            verdict = "rej"
                elif rv["k"] == "agg" and rv.get("agg") == "adt":
                    if rv["variant"] in ("Err", "None") and rk in ("result", "option"):
                        verdict = "rej"
                    elif rv["variant"] == "Ok" and getattr(self, "nested_reject", False) and rv["ops"]:
                        # Ok(Err(..)) in a Result<Result<..>>-returning function (opt-in per function)
                        p = op_place(rv["ops"][0])
                        vs = self._const_defs(p[0]) if p is not None and not p[1] else None
                        if vs is not None and vs <= {"Err"}:
                            verdict = "rej"
                (rej if verdict == "rej" else acc).add(bi)
        else:
            for bi in self.reachable():
                if self.blocks[bi]["t"]["k"] == "return":
                    acc.add(bi)
        return acc, rej

    def _const_defs(self, l):
        """if every definition of local l is a constant / Err / None aggregate, return the set of values"""
        vs = set()
        ds = self.defs().get(l, [])
        if not ds:
            return None
        for (bi, si, it) in ds:
            if si == "t":
                if callee_match(it, r"FromResidual::from_residual$"):
                    vs.add("Err")
                    continue
                return None
            rv = it["rv"]
            if it["lhs"][1]:
                return None
            if rv["k"] == "use" and op_const(rv["a"]) is not None and "v" in op_const(rv["a"]):
                vs.add(int(op_const(rv["a"])["v"]))
            elif rv["k"] == "agg" and rv.get("agg") == "adt" and rv["variant"] in ("Err", "None"):
                vs.add(rv["variant"])
            else:
                return None
        return vs

    def reject_region(self):
        """reachable blocks from which no ACCEPT point is reachable"""
        if getattr(self, "_rr", None) is None:
            acc, _ = self.accept_points()
            ok = self.can_reach(acc)
            self._rr = set(b for b in self.reachable() if b not in ok)
            self._acc = acc
        return self._rr

    # ------------------------------------------------------------ switches
    def switches(self):
        return [(bi, self.blocks[bi]["t"]) for bi in sorted(self.reachable())
                if self.blocks[bi]["t"]["k"] == "switch"]

    def line_of(self, bi):
        return self.blocks[bi]["t"].get("line", 0)

    def loc(self, bi=None):
        if bi is None:
            return "%s:%d" % (self.b["file"], self.b["line"])
        return "%s:%d" % (self.b["file"], self.line_of(bi))


def rv_locals(rv):
    k = rv["k"]
    out = []
    if k in ("use", "cast", "un", "repeat"):
        p = op_place(rv["a"])
        if p is not None:
            out.append(p[0])
    elif k == "bin":
        for o in (rv["a"], rv["b"]):
            p = op_place(o)
            if p is not None:
                out.append(p[0])
    elif k in ("ref", "rawptr", "discr"):
        out.append(rv["p"][0])
    elif k == "agg":
        for o in rv["ops"]:
            p = op_place(o)
            if p is not None:
                out.append(p[0])
    return out


def path_conditions(fn, bb, resolve=None):
    """For block bb: list of (switch_block, value) for each dominating switch all of whose
    paths to bb leave through the same edge.  value is the matched constant (str) or 'otherwise'.
    resolve: optional function (fn, block) -> block that follows an edge through constant-decided joins
    (the lowering of && and ||), so that an edge whose outcome is already decided does not count as leading to bb."""
    out = []
    for (sb, st) in fn.switches():
        if sb == bb or not fn.dominates(sb, bb):
            continue
        edges = []
        seen_t = set()
        for v, tb in st["t"] + [["otherwise", st["o"]]]:
            start = tb
            if resolve is not None and tb != bb:
                start = resolve(fn, tb)
            if bb in fn.reach_from([start], avoid={sb}):
                edges.append(v)
        if len(edges) == 1:
            out.append((sb, edges[0]))
    return out


def _places_of_rv(rv):
    k = rv["k"]
    out = []
    if k in ("use", "cast", "un", "repeat"):
        p = op_place(rv["a"])
        if p is not None:
            out.append(p)
    elif k == "bin":
        for o in (rv["a"], rv["b"]):
            p = op_place(o)
            if p is not None:
                out.append(p)
    elif k in ("ref", "rawptr", "discr"):
        out.append(rv["p"])
    elif k == "agg":
        for o in rv["ops"]:
            p = op_place(o)
            if p is not None:
                out.append(p)
    return out


def block_places(fn, bi):
    """all places read or written in block bi (statements and terminator)"""
    out = []
    for s in fn.stmts(bi):
        if "lhs" in s:
            out.append(s["lhs"])
            out += _places_of_rv(s["rv"])
    t = fn.term(bi)
    if t["k"] == "call":
        for a in t["args"]:
            p = op_place(a)
            if p is not None:
                out.append(p)
        out.append(t["dest"])
    elif t["k"] == "switch":
        p = op_place(t["d"])
        if p is not None:
            out.append(p)
    elif t["k"] == "drop":
        out.append(t["p"])
    return out


def block_fields(fn, bi):
    fs = set()
    for p in block_places(fn, bi):
        for pr in p[1]:
            if pr.startswith("f") and ":" in pr:
                nm = pr.split(":", 1)[1]
                if nm:
                    fs.add(nm)
    return fs
