"""Ordered transcript / hash-feeding sequences of a function."""
import re
from .mir import callee_match, op_const, op_place

TRANSCRIPT_CALL = re.compile(
    r"random_oracle::(TranscriptProtocol|TranscriptProtocolV1|RandomOracle|StructuredDigest|TranscriptV1)?.*::"
    r"(append_message|add_bytes|append_label|append_messages|append_each_message|append_final_prover_message|"
    r"extract_challenge_scalar|extend_from|split|get_challenge|challenge_scalar|extract_raw_challenge|add|domain|"
    r"with_domain|empty|result_to_scalar|finish_to_scalar)$"
    r"|merlin::Transcript::(append_message|challenge_bytes|new|append_u64)$"
    r"|bulletproofs::utils::TranscriptProtocol::")


def label_of(op):
    k = op_const(op)
    if k is None:
        return None
    if "str" in k:
        return k["str"]
    s = k.get("s", "")
    m = re.match(r'^(?:const )?b"(.*)"$', s)
    if m:
        return m.group(1)
    m = re.match(r'^(?:const )?"(.*)"$', s)
    if m:
        return m.group(1)
    return None


def rpo(fn):
    order = []
    seen = {0}
    stack = [(0, iter(fn.succ(0)))]
    while stack:
        node, it = stack[-1]
        adv = False
        for s in it:
            if s not in seen:
                seen.add(s)
                stack.append((s, iter(fn.succ(s))))
                adv = True
                break
        if not adv:
            order.append(node)
            stack.pop()
    return order[::-1]


def sequence(fn, pat=TRANSCRIPT_CALL, with_types=True):
    """[(method name, label or None, appended type or None, bb)] in reverse post-order"""
    out = []
    for bi in rpo(fn):
        t = fn.term(bi)
        if t["k"] != "call" or not callee_match(t, pat):
            continue
        f = t["f"]
        lab = None
        for a in t["args"][0:3]:
            l = label_of(a)
            if l is not None:
                lab = l
                break
        ty = None
        if with_types:
            ga = [g for g in f.get("gargs", []) if g != f.get("self")]
            if ga:
                ty = ga[-1]
        out.append((f["name"], lab, ty, bi))
    return out


def seq_key(seq, types=False):
    return [(m, l) + ((t,) if types else ()) for (m, l, t, _) in seq]
