"""Obligation bookkeeping, VIOLATION / KNOWN-FINDING output and evidence files."""
import json
import os
import sys
import time

VERIF = os.path.dirname(os.path.dirname(os.path.abspath(__file__)))


class Check:
    def __init__(self, pid, tier="quick", seed=0, explanation="", undecided="", rules_text="", level="other"):
        self.pid = pid
        self.tier = tier
        self.seed = seed
        self.t0 = time.time()
        self.obls = []          # dict(rule, func, construct, ok, detail, loc, key)
        self.explanation = explanation
        self.undecided = undecided
        self.rules_text = rules_text
        self.level = level
        self.sites = 0          # sites inspected
        self.nontrivial = set()
        self.samples = []
        self.notes = []
        self.assumptions = []
        self.extra = {}
        kf = os.path.join(VERIF, "known_findings.json")
        self.known = {}
        if os.path.exists(kf):
            for e in json.load(open(kf)).get("findings", []):
                if e.get("status") == "known" and e.get("property") == pid:
                    self.known[e["key"]] = e

    def key(self, rule, func, construct):
        return "%s/%s/%s/%s" % (self.pid, rule, func, construct)

    def ob(self, rule, func, construct, ok, detail="", loc="", sample=None, nontrivial=True):
        """record one obligation (a rule instance evaluated at one site)"""
        k = self.key(rule, func, construct)
        self.obls.append(dict(rule=rule, func=func, construct=construct, ok=bool(ok), detail=detail, loc=loc, key=k))
        self.sites += 1
        if nontrivial:
            self.nontrivial.add(k)
        if sample is not None and len(self.samples) < 12:
            self.samples.append(sample)
        elif ok and len(self.samples) < 6:
            self.samples.append(dict(rule=rule, function=func, construct=construct, at=loc, verdict="holds", why=detail))
        return ok

    def anchor(self, cond, rule, func, what, loc=""):
        """fail closed when something the rule is anchored on is missing"""
        if not cond:
            self.ob(rule, func, "anchor:" + what, False, "anchor lost: " + what, loc)
        return cond

    def floor(self, rule, what, n, floor):
        """Vacuity guard: the rule must still find (about) as many instances as were confirmed by hand. Floors of 10 and more
        carry a slack of one tenth: they exist to notice a rule that stopped recognising its idiom or lost its anchor, not to
        forbid a refactoring that turns a few sites into a form that needs no obligation (a removed *check* is the business
        of the rule itself, which then finds an unguarded site)."""
        need = floor - (floor // 10 if floor >= 10 else 0)
        return self.ob(rule, "-", "floor:" + what, n >= need, "%d sites matched, floor %d (minimum %d)" % (n, floor, need), "", nontrivial=False)

    def note(self, s):
        self.notes.append(s)

    def finish(self):
        viol = [o for o in self.obls if not o["ok"]]
        unknown = []
        known_hit = []
        for o in viol:
            if o["key"] in self.known:
                known_hit.append(o)
            else:
                unknown.append(o)
        rdir = os.path.join(VERIF, "evidence", "replay" if not os.environ.get("VERIF_NO_EVIDENCE") else "replay-scratch")
        os.makedirs(rdir, exist_ok=True)
        for o in known_hit:
            print("KNOWN-FINDING: property=%s %s [%s] %s" % (self.pid, o["key"], o["loc"], o["detail"]))
        for i, o in enumerate(unknown):
            rp = os.path.join(rdir, "%s-%d.json" % (self.pid, i))
            with open(rp, "w") as f:
                json.dump(dict(property=self.pid, key=o["key"], rule=o["rule"], function=o["func"],
                               construct=o["construct"], location=o["loc"], detail=o["detail"],
                               replay_cmd="./check %s --replay %s" % (self.pid, rp)), f, indent=1)
            print("  rule=%s function=%s construct=%s at %s: %s" % (o["rule"], o["func"], o["construct"], o["loc"], o["detail"]))
            print("VIOLATION property=%s replay=%s" % (self.pid, rp))
        n = len(self.obls)
        ev = dict(
            property_id=self.pid,
            tier=self.tier,
            seed=self.seed,
            level=self.level,
            coverage=dict(
                explanation=self.explanation + (" NOT DECIDED by this check: " + self.undecided if self.undecided else ""),
                obligations=n,
                discharged=n - len(viol),
                evaluations=max(self.sites, 1),
                distinct_nontrivial=len(self.nontrivial),
                rule=self.rules_text,
                samples=self.samples[:12] or [dict(note="no obligations evaluated")],
                checker_cmd="./check %s --tier %s" % (self.pid, self.tier),
                trusted_base=["rustc nightly MIR construction and Instance::try_resolve (mirq driver)",
                              "vlib CFG / dominator / def-use code",
                              "stub crates num_enum, slab, secp256k1, ed25519-zebra (signatures only) for the smart-contract crates"],
                by_rule=_by_rule(self.obls),
                known_findings=[o["key"] for o in known_hit],
                notes=self.notes,
                **self.extra,
            ),
            assumptions=self.assumptions or ["structural necessary conditions only; the behavioural remainder is listed under NOT DECIDED"],
            wall_s=round(time.time() - self.t0, 2),
            violations=len(unknown),
        )
        if not os.environ.get("VERIF_NO_EVIDENCE"):
            os.makedirs(os.path.join(VERIF, "evidence"), exist_ok=True)
            with open(os.path.join(VERIF, "evidence", self.pid + ".json"), "w") as f:
                json.dump(ev, f, indent=1)
        print("%s: %d obligations, %d discharged, %d known findings, %d violations (%.1fs)"
              % (self.pid, n, n - len(viol), len(known_hit), len(unknown), time.time() - self.t0))
        return 1 if unknown else 0


def _by_rule(obls):
    d = {}
    for o in obls:
        e = d.setdefault(o["rule"], [0, 0])
        e[0] += 1
        e[1] += 1 if o["ok"] else 0
    return {k: dict(obligations=v[0], discharged=v[1]) for k, v in sorted(d.items())}
