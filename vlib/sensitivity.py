"""Thorough tier: apply every seeded / own mutant of a property to a scratch copy of the repository and
require the property's check to report a violation there."""
import json
import os
import shutil
import subprocess
import sys
import time

VERIF = os.path.dirname(os.path.dirname(os.path.abspath(__file__)))
SCRATCH = os.environ.get("VERIF_SCRATCH", "/tmp/verif-scratch/repo")


def mutants_for(pid):
    out = []
    for sd in (os.path.join(VERIF, "seeded"), os.path.join(VERIF, "selftest")):
        if not os.path.isdir(sd):
            continue
        for d in sorted(os.listdir(sd)):
            mp = os.path.join(sd, d, "meta.json")
            pp = os.path.join(sd, d, "patch.diff")
            if os.path.exists(mp) and os.path.exists(pp):
                m = json.load(open(mp))
                props = m.get("detected_by_checks") or [m.get("property")]
                # a seed is replayed under the checks that are documented to report it (verdict / meta `detected_by_checks`);
                # without such a list, under the check of its own property
                if pid in props:
                    out.append((d, pp, m))
    return out


def benign_for(pid):
    """behaviour-preserving edits on which the check must stay silent"""
    out = []
    sd = os.path.join(VERIF, "benign")
    if os.path.isdir(sd):
        for d in sorted(os.listdir(sd)):
            mp = os.path.join(sd, d, "meta.json")
            pp = os.path.join(sd, d, "patch.diff")
            if os.path.exists(mp) and os.path.exists(pp):
                m = json.load(open(mp))
                if m.get("property") == pid:
                    out.append((d, pp, m))
    return out


def _sh(cmd, cwd=None, env=None):
    return subprocess.run(cmd, cwd=cwd, env=env, stdout=subprocess.PIPE, stderr=subprocess.STDOUT, text=True)


def prepare_scratch(repo):
    os.makedirs(os.path.dirname(SCRATCH), exist_ok=True)
    if os.path.isdir(SCRATCH):
        _sh(["git", "-C", repo, "worktree", "remove", "--force", SCRATCH])
        shutil.rmtree(SCRATCH, ignore_errors=True)
    _sh(["git", "-C", repo, "worktree", "prune"])
    r = _sh(["git", "-C", repo, "worktree", "add", "--detach", SCRATCH, "HEAD"])
    if r.returncode != 0:
        return False, r.stdout
    # bring uncommitted changes of the working tree along
    d = subprocess.run(["git", "-C", repo, "diff", "HEAD"], stdout=subprocess.PIPE).stdout
    if d.strip():
        p = subprocess.run(["git", "-C", SCRATCH, "apply", "-"], input=d)
        if p.returncode != 0:
            return False, "cannot replay the working-tree diff onto the scratch copy"
    return True, ""


def cleanup(repo):
    _sh(["git", "-C", repo, "worktree", "remove", "--force", SCRATCH])
    shutil.rmtree(SCRATCH, ignore_errors=True)
    _sh(["git", "-C", repo, "worktree", "prune"])


def run(ck, pid, repo="/repo"):
    muts = mutants_for(pid)
    ben = benign_for(pid)
    res = []
    if not muts and not ben:
        ck.extra["sensitivity"] = []
        ck.note("thorough: no seeded change registered for this property")
        return
    ok, why = prepare_scratch(repo)
    if not ok:
        ck.note("thorough: scratch copy could not be prepared: " + why)
        ck.extra["sensitivity"] = [dict(error=why)]
        return
    try:
        for name, patch, meta in muts:
            t0 = time.time()
            _sh(["git", "-C", SCRATCH, "checkout", "--", "."])
            a = _sh(["git", "-C", SCRATCH, "apply", patch])
            if a.returncode != 0:
                res.append(dict(seed=name, status="skipped", why="patch no longer applies"))
                continue
            env = dict(os.environ)
            env["VERIF_REPO"] = SCRATCH
            env["VERIF_NO_EVIDENCE"] = "1"
            env["VERIF_TIER"] = "quick"
            r = _sh([sys.executable, os.path.join(VERIF, "check"), pid, "--tier", "quick"], cwd=VERIF, env=env)
            lines = [l for l in r.stdout.splitlines() if l.startswith("  rule=")]
            detected = r.returncode == 1 and any(l.startswith("VIOLATION") for l in r.stdout.splitlines())
            res.append(dict(seed=name, status="detected" if detected else ("build-failed" if r.returncode not in (0, 1) else "MISSED"),
                            reported=[l.strip()[:300] for l in lines][:4], wall_s=round(time.time() - t0, 1),
                            needs=meta.get("needs_to_manifest", "")[:200]))
            print("thorough: seeded change %s -> %s" % (name, res[-1]["status"]))
        for name, patch, meta in ben:
            t0 = time.time()
            _sh(["git", "-C", SCRATCH, "checkout", "--", "."])
            a = _sh(["git", "-C", SCRATCH, "apply", patch])
            if a.returncode != 0:
                res.append(dict(benign=name, status="skipped", why="patch no longer applies"))
                continue
            env = dict(os.environ)
            env["VERIF_REPO"] = SCRATCH
            env["VERIF_NO_EVIDENCE"] = "1"
            env["VERIF_TIER"] = "quick"
            r = _sh([sys.executable, os.path.join(VERIF, "check"), pid, "--tier", "quick"], cwd=VERIF, env=env)
            silent = r.returncode == 0 and not any(l.startswith("VIOLATION") for l in r.stdout.splitlines())
            lines = [l.strip()[:300] for l in r.stdout.splitlines() if l.startswith("  rule=")]
            res.append(dict(benign=name, status="silent" if silent else ("build-failed" if r.returncode not in (0, 1) else "FALSE-ALARM"),
                            reported=lines[:4], wall_s=round(time.time() - t0, 1), what=meta.get("summary", "")[:200]))
            print("thorough: behaviour-preserving edit %s -> %s" % (name, res[-1]["status"]))
    finally:
        cleanup(repo)
    ck.extra["sensitivity"] = res
    nd = sum(1 for r in res if r["status"] == "detected")
    ns = sum(1 for r in res if "seed" in r)
    nb = sum(1 for r in res if "benign" in r)
    nq = sum(1 for r in res if r["status"] == "silent")
    ck.note("thorough: %d of %d seeded changes for %s detected on a scratch copy; silent on %d of %d behaviour-preserving edits" % (nd, ns, pid, nq, nb))
