"""Conditional constant propagation specialised to one value of one integer local (Wegman-Zadeck style, acyclic part only).

`reachable_blocks(fn, local, value)` returns the blocks that can execute when `local` holds `value`, treating every other
input as unknown: constants flow through copies, casts, comparisons and bit operations; a switch whose discriminant is known
follows only the matching edge; at a join a local stays known only if all executable predecessors agree.  Blocks on cycles
are handled conservatively (everything reachable from them is kept).  This is the classical static analysis, run once per
tag value of a small finite domain, used to read off 'for which tags is this field read' from a decoder."""
from .mir import op_place, op_const, const_int
from .transcript import rpo

CMP = {"Eq": lambda a, b: a == b, "Ne": lambda a, b: a != b, "Lt": lambda a, b: a < b, "Le": lambda a, b: a <= b,
       "Gt": lambda a, b: a > b, "Ge": lambda a, b: a >= b}
ARI = {"BitAnd": lambda a, b: a & b, "BitOr": lambda a, b: a | b, "BitXor": lambda a, b: a ^ b, "Add": lambda a, b: a + b,
       "Sub": lambda a, b: a - b, "Shl": lambda a, b: a << b, "Shr": lambda a, b: a >> b}


def _ev(op, env):
    k = op_const(op)
    if k is not None:
        v = const_int(k)
        if v is None and str(k.get("s")) in ("true", "false"):
            v = 1 if str(k.get("s")) == "true" else 0
        return v
    p = op_place(op)
    if p is None:
        return None
    if p[1]:
        import re
        m = re.match(r"^f(\d+)", str(p[1][0])) if len(p[1]) == 1 else None
        return env.get((p[0], int(m.group(1)))) if m else None
    return env.get(p[0])


def reachable_blocks(fn, local, value, fixed=None):
    fixed = dict(fixed or {})
    fixed[local] = value
    order = rpo(fn)
    pos = {b: i for i, b in enumerate(order)}
    out_env, exec_edges, executable = {}, set(), {order[0]} if order else set()
    in_env = {order[0]: dict(fixed)} if order else {}
    for b in order:
        if b not in executable:
            continue
        preds = [p for p in fn.pred(b) if (p, b) in exec_edges] if b != order[0] else []
        if b != order[0]:
            envs = [out_env[p] for p in preds if p in out_env]
            back = [p for p in fn.pred(b) if pos.get(p, -1) >= pos[b]]
            if back or not envs:
                env = dict(fixed)               # a loop head (or unknown predecessor): forget everything but the pinned inputs
            else:
                env = dict(envs[0])
                for e in envs[1:]:
                    for k in list(env):
                        if e.get(k) != env[k]:
                            del env[k]
            env.update(fixed)
        else:
            env = dict(in_env[b])
        for st in fn.stmts(b):
            if "lhs" not in st or st["lhs"][1]:
                continue
            l = st["lhs"][0]
            if l in fixed:
                continue
            rv = st["rv"]
            v = None
            if rv.get("k") in ("use", "cast"):
                v = _ev(rv["a"], env)
            elif rv.get("k") == "bin":
                a, c = _ev(rv["a"], env), _ev(rv["b"], env)
                op = rv["op"].replace("WithOverflow", "").replace("Unchecked", "")
                if a is not None and c is not None:
                    if op in CMP:
                        v = 1 if CMP[op](a, c) else 0
                    elif op in ARI:
                        v = ARI[op](a, c)
            elif rv.get("k") == "agg" and rv.get("agg") == "tuple":
                for i, x in enumerate(rv["ops"]):
                    vi = _ev(x, env)
                    if vi is None:
                        env.pop((l, i), None)
                    else:
                        env[(l, i)] = vi
                continue
            elif rv.get("k") == "un" and rv.get("op") == "Not":
                a = _ev(rv["a"], env)
                v = None if a is None else (0 if a else 1)
            if v is None:
                env.pop(l, None)
            else:
                env[l] = v
        out_env[b] = env
        t = fn.term(b)
        succs = fn.succ(b)
        if t["k"] == "switch":
            d = _ev(t["d"], env)
            if d is not None:
                tgt = [tb for v2, tb in t["t"] if str(v2) == str(d)]
                succs = tgt if tgt else ([t["o"]] if t["o"] is not None else [])
        elif t["k"] == "call" and t.get("dest") and not t["dest"][1] and t["dest"][0] not in fixed:
            env.pop(t["dest"][0], None)
        for s_ in succs:
            exec_edges.add((b, s_))
            executable.add(s_)
    return executable
