"""Abstract typing signature of the Wasm validator's instruction arms (C09/C01).

For every arm of the opcode dispatch in `validate::validate` the ordered sequence of operand/control stack events and
context checks is extracted from MIR and compared with `spec/wasm_typing.json`, which is written from the validation
algorithm of the WebAssembly 1.0 specification (appendix "Validation Algorithm") in this validator's vocabulary.
"""
import re

from .mir import Fn, op_place, op_const, const_int, callee_match
from . import rules, sym
from .transcript import rpo

STATE = r"validate::ValidationState::"
CTX = r"validate::FunctionContext|validate::HasValidationContext::|HasValidationContext>::"


def _vt(fn, op):
    """ValueType / Type constant carried by an operand: 'I32', 'I64', ... or a symbolic source"""
    p = op_place(op)
    if p is None:
        k = op_const(op)
        return ("const", str(k.get("s") or k.get("v"))) if k else ("?", "")
    seen, work = set(), [p[0]]
    srcs = set()
    while work:
        l = work.pop()
        if l in seen:
            continue
        seen.add(l)
        for (b, si, it) in fn.defs().get(l, []):
            if si == "t":
                nm = it["f"].get("path", "?").split("::")[-1]
                if nm in PASS:
                    for a in it["args"]:
                        pa = op_place(a)
                        if pa:
                            work.append(pa[0])
                            for pr in pa[1]:
                                if ":" in str(pr) and not str(pr).startswith("v") and not str(pr).split(":")[-1].isdigit():
                                    srcs.add("field:" + str(pr).split(":")[-1])
                else:
                    srcs.add("call:" + nm)
                continue
            rv = it["rv"]
            if rv["k"] == "agg" and rv.get("agg") == "adt":
                adt = rv["adt"].split("::")[-1]
                if adt in ("ValueType", "Type") and not rv["ops"]:
                    srcs.add("ty:" + rv["variant"])
                    continue
                if adt == "MaybeKnown" and rv["variant"] == "Unknown":
                    srcs.add("ty:Unknown")
                    continue
                for o in rv["ops"]:
                    po = op_place(o)
                    k = op_const(o)
                    if po:
                        work.append(po[0])
                    elif k is not None:
                        s = str(k.get("s") or k.get("item") or "")
                        m = re.search(r"(ValueType|Type)::(\w+)", s)
                        srcs.add("ty:" + m.group(2) if m else "const:" + s)
                continue
            if rv["k"] in ("use", "cast", "ref", "discr", "un"):
                pl = op_place(rv.get("a")) if rv["k"] != "ref" and rv["k"] != "discr" else rv.get("p")
                k = op_const(rv.get("a")) if rv["k"] in ("use", "cast") else None
                if pl:
                    work.append(pl[0])
                    for pr in pl[1]:
                        if ":" in str(pr) and not str(pr).startswith("v") and not str(pr).split(":")[-1].isdigit():
                            srcs.add("field:" + str(pr).split(":")[-1])
                elif k is not None:
                    s = str(k.get("s") or k.get("item") or "")
                    m = re.search(r"(ValueType|Type)::(\w+)", s)
                    srcs.add("ty:" + m.group(2) if m else "const:" + s)
        if 1 <= l <= fn.argc:
            srcs.add("arg%d" % l)
    tys = sorted(x[3:] for x in srcs if x.startswith("ty:"))
    if len(tys) == 1 and not any(x.startswith("call:") for x in srcs):
        return ("ty", tys[0])
    calls = sorted(x[5:] for x in srcs if x.startswith("call:"))
    fields = sorted(x[6:] for x in srcs if x.startswith("field:"))
    args = sorted(x for x in srcs if re.match(r"^arg\d+$", x))
    if not calls and not tys and len(args) == 1:
        return ("arg", int(args[0][3:]))
    return ("sym", "+".join(calls + fields) or "?")


PASS = ("branch", "deref", "borrow", "into", "from", "clone", "next", "iter", "rev", "into_iter", "map", "as_ref", "copied", "cloned")

EVENT_CALLS = [
    (r"memory_exists$", "mem"), (r"table_exists$", "table"), (r"validate::ensure_alignment$", "align"),
    (STATE + r"pop_expect_opd$", "pop"), (STATE + r"pop_opd$", "popany"), (STATE + r"push_opd$", "push"),
    (STATE + r"pop_opds$", "pops"), (STATE + r"push_opds$", "pushes"), (STATE + r"mark_unreachable$", "unreachable"),
    (STATE + r"push_ctrl$", "ctrl+"), (STATE + r"pop_ctrl$", "ctrl-"), (r"ControlStack::get_label$", "label"), (r"ControlStack::get$", "frame"),
    (r"ControlStack::outermost$", "outermost"),
    (r"get_local$", "local"), (r"get_global$", "global"), (r"get_func$", "func"), (r"get_type$", "type"),
]


def _in_inner_loop(f, b, region):
    """b lies on a cycle made of blocks of the arm only"""
    seen, work = set(), [x for x in f.succ(b) if x in region]
    while work:
        x = work.pop()
        if x == b:
            return True
        if x in seen:
            continue
        seen.add(x)
        work += [y for y in f.succ(x) if y in region]
    return False


NOISE = ("not", "branch", "deref", "borrow", "as_ref", "into", "from", "eq", "ne", "iter", "next", "clone", "into_iter", "rev", "map", "copied")


def _subst(e, f, t):
    """replace a helper's symbolic parameter (`pop:<@2>`) by what the call site passes"""
    m = re.search(r"<@(\d+)>|:@(\d+)", e)
    if not m:
        return e
    n = int(m.group(1) or m.group(2))
    if n - 1 >= len(t["args"]):
        return e
    k, v = _vt(f, t["args"][n - 1])
    rep = v if k == "ty" else ("@%d" % v if k == "arg" else "<" + str(v) + ">")
    if m.group(1):
        return e.replace("<@%s>" % m.group(1), rep if k == "ty" else ("<" + rep.strip("<>") + ">"))
    return e.replace(":@%s" % m.group(2), ":" + rep)


def arm_events(c, f, region, depth=0):
    """ordered abstract events of one arm (local helper functions of the validator are inlined, their type parameters
    replaced by what the call site passes)"""
    ev = []
    rr = f.reject_region()
    order = [b for b in rpo(f) if b in region]
    pos = {b: i2 for i2, b in enumerate(order)}
    explained = set()
    for b in order:
        t = f.term(b)
        if t["k"] == "call" and "path" in t["f"]:
            p = t["f"]["path"]
            for pat, name in EVENT_CALLS:
                if re.search(pat, p):
                    e = name
                    if name == "align":
                        k, v = _vt(f, t["args"][1])
                        e += ":" + (("@%d" % v) if k == "arg" else str(v))
                    elif name in ("pop", "push"):
                        k, v = _vt(f, t["args"][1])
                        e += ":" + (v if k == "ty" else ("<@%d>" % v if k == "arg" else "<" + v + ">"))
                    elif name in ("pops", "pushes"):
                        k, v = _vt(f, t["args"][1])
                        e += ":<" + v + ">"
                    elif name == "ctrl+":
                        k0 = op_const(t["args"][1])
                        e += ":if" if (k0 is not None and const_int(k0) == 1) else ""
                    fallible = re.search(r"Result<|Option<|^bool$", f.locals[t["dest"][0]]) is not None
                    if fallible:
                        r = rules.enforcement(f, b)
                        if r["status"] not in ("enforced", "propagated"):
                            e += "!" + r["status"]
                        if "switch" in r.get("detail", ""):
                            m = re.search(r"switch at bb(\d+)", r["detail"])
                            if m:
                                explained.add(int(m.group(1)))
                    if _in_inner_loop(f, b, region):
                        e += "*"
                    ev.append((pos[b], e))
                    break
            else:
                if depth < 2 and re.match(r"^concordium_wasm::validate::[a-z_0-9]+$", p) and c.get_all(p):
                    g = Fn(c.get_all(p)[0])
                    sub = arm_events(c, g, set(g.reachable()), depth + 1)
                    if sub:
                        st_ = "ok"
                        if re.search(r"Result<|Option<|^bool$", f.locals[t["dest"][0]]):
                            r = rules.enforcement(f, b)
                            if r["status"] not in ("enforced", "propagated"):
                                st_ = r["status"]
                            m = re.search(r"switch at bb(\d+)", r.get("detail", ""))
                            if m:
                                explained.add(int(m.group(1)))
                        for e2 in sub:
                            e2 = _subst(e2, f, t)
                            ev.append((pos[b], e2 + ("" if st_ == "ok" else "!" + st_)))
    # explicit ensures: switches with exactly one rejecting successor that are not the `?` of an event call
    for (sb, st) in f.switches():
        if sb not in region or sb in explained:
            continue
        succs = [tb for _, tb in st["t"]] + [st["o"]]
        rej = [x for x in succs if x in rr]
        if len(rej) == 0 or len(rej) == len(succs):
            continue
        sh = f.origins(st["d"])
        if any(a[0] == "discr" for a in sh) and not any(a[0] in ("bin",) for a in sh):
            # match on an Option/Result value: an event call's own outcome or a `?`
            if any(a[0] == "call" and re.search(r"Try::branch$|Try>::branch$|get_label$|outermost$|ControlStack::get$|Iterator::next$", a[1]) for a in sh):
                continue
        o = set(sh)
        # look through anyhow's `not` and through equality calls at the operands of the tested condition
        for _ in range(3):
            extra = set()
            for a in list(o):
                if a[0] == "call" and len(a) > 2 and re.search(r"__private::not$|PartialEq::(eq|ne)$|cmp::PartialEq>::(eq|ne)$", a[1]):
                    tt = f.term(a[2])
                    for x in tt["args"]:
                        extra |= f.origins(x)
            if extra <= o:
                break
            o |= extra
        for cx in rules.comparisons(f):
            br = rules.cmp_branches(f, cx)
            if br and br[0] == sb:
                o |= f.origins(cx["a"]) | f.origins(cx["b"])
        names = set()
        vn = f.names()
        pl = op_place(st["d"])
        for a in o:
            if a[0] == "call":
                nm = a[1].split("::")[-1]
                if nm not in NOISE:
                    names.add(nm)
            elif a[0] == "field":
                names.add(a[1] if not a[1].isdigit() else "." + a[1])
            elif a[0] == "const":
                names.add(a[1].split("::")[-1])
            elif a[0] == "lit":
                names.add(str(a[1]))
            elif a[0] == "agg":
                names.add(a[1].split("::")[-1])
        if any(a[0] == "call" and re.search(r"(memory_exists|table_exists|get_label|outermost)$", a[1]) for a in sh) or \
           (any(a[0] == "call" and a[1].endswith("__private::not") for a in sh) and
                any(re.search(r"(memory_exists|table_exists)$", f.term(a[2])["args"][0] and "".join(x[1] for x in f.origins(f.term(a[2])["args"][0]) if x[0] == "call")) for a in sh if a[0] == "call" and len(a) > 2 and a[1].endswith("__private::not"))):
            continue        # already an event (enforcement recorded there)
        # polarity: under which outcome of the tested condition does control reach the rejecting successor
        pol = "?"
        descr = rules.condition_of_switch(f, sb, rej[0])
        if descr is not None:
            k, v = descr
            if k.startswith("cmp:"):
                # relation (over the comparison's operands) under which the check rejects
                pol = k[4:] if v else {"Eq": "Ne", "Ne": "Eq", "Lt": "Ge", "Le": "Gt", "Gt": "Le", "Ge": "Lt"}[k[4:]]
            else:
                pol = "true" if v else "false"
        lab = "ensure[%s]:" % pol + "+".join(sorted(names))
        if _in_inner_loop(f, sb, region):
            lab += "*"
        ev.append((pos.get(sb, 0), lab))
    ev.sort(key=lambda x: x[0])
    return [e for _, e in ev]
