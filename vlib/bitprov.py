"""Bit provenance of integer expressions over one function's MIR (straight-line, single-definition locals).

A value is a list of bit sources, least significant first: ("in", argument local, bit index), 0 (constant zero) or None
(unknown).  Supported: moves/copies, integer casts (truncate / zero-extend for unsigned), `>>`/`<<` by constants, `&` with
constants, `|` of disjoint values, `to_be_bytes`/`to_le_bytes`, constant-index projections of those arrays, array
aggregates fed to `from_be_bytes`/`from_le_bytes`, `From`/`Into` widening.  Used by C20 to decide that a function packing an
integer into path components loses no input bit."""
import re
from .mir import op_place, op_const, const_int

W = {"u8": 8, "u16": 16, "u32": 32, "u64": 64, "usize": 64, "u128": 128, "i8": 8, "i16": 16, "i32": 32, "i64": 64}


def _fit(bits, w):
    return (bits + [0] * w)[:w]


def value(f, op, depth=0):
    """bit list of an operand, or None"""
    if depth > 40:
        return None
    k = op_const(op)
    if k is not None:
        v = const_int(k)
        if v is None:
            return None
        return [(1 if (v >> i) & 1 else 0) for i in range(128)]     # constant bits as 0/1 markers
    p = op_place(op)
    if p is None:
        return None
    return local(f, p[0], p[1], depth)


def local(f, l, proj, depth):
    ty = f.locals[l]
    if 1 <= l <= f.argc and not proj:
        w = W.get(ty)
        return [("in", l, i) for i in range(w)] if w else None
    ds = f.defs().get(l, [])
    if len(ds) != 1:
        return None
    bi, si, it = ds[0]
    if si == "t":
        path = it["f"].get("path", "")
        args = it["args"]
        if re.search(r"::to_(be|le)_bytes$", path) and len(args) == 1:
            v = value(f, args[0], depth + 1)
            if v is None:
                return None
            n = W.get(f.locals[op_place(args[0])[0]], 0) // 8 if op_place(args[0]) else 0
            m = re.match(r"^\[u8; (\d+)\]$", ty)
            n = int(m.group(1)) if m else n
            bytes_le = [v[8 * i:8 * i + 8] for i in range(n)]
            arr = bytes_le[::-1] if path.endswith("to_be_bytes") else bytes_le
            if proj:
                m = re.match(r"^c(\d+)$", str(proj[0]))
                return arr[int(m.group(1))] if m and int(m.group(1)) < len(arr) else None
            return ("array", arr)
        if re.search(r"::from_(be|le)_bytes$", path) and len(args) == 1:
            a = value(f, args[0], depth + 1)
            if not (isinstance(a, tuple) and a[0] == "array"):
                return None
            elems = a[1][::-1] if path.endswith("from_be_bytes") else a[1]
            out = []
            for e in elems:
                if e is None:
                    return None
                out += _fit(e, 8)
            return out
        if re.search(r"convert::(Into|From)(<[^>]*>)?::(into|from)$", path) and len(args) == 1 and ty in W:
            v = value(f, args[0], depth + 1)
            return _fit(v, W[ty]) if isinstance(v, list) else None
        return None
    if it["lhs"][1]:
        return None
    rv = it["rv"]
    k = rv.get("k")
    if k == "use":
        v = value(f, rv["a"], depth + 1)
        if proj and isinstance(v, tuple) and v[0] == "array":
            m = re.match(r"^c(\d+)$", str(proj[0]))
            return v[1][int(m.group(1))] if m and int(m.group(1)) < len(v[1]) else None
        return v
    if k == "agg" and rv.get("agg") == "array":
        elems = [value(f, x, depth + 1) for x in rv["ops"]]
        v = ("array", elems)
        if proj:
            m = re.match(r"^c(\d+)$", str(proj[0]))
            return elems[int(m.group(1))] if m and int(m.group(1)) < len(elems) else None
        return v
    if proj:
        return None
    if k == "cast":
        v = value(f, rv["a"], depth + 1)
        w = W.get(rv.get("ty") or ty)
        return _fit(v, w) if isinstance(v, list) and w else None
    if k == "bin":
        op = rv["op"]
        a = value(f, rv["a"], depth + 1)
        cb = op_const(rv["b"])
        ca = op_const(rv["a"])
        w = W.get(ty)
        if op in ("Shr", "ShrUnchecked") and cb is not None and isinstance(a, list) and w:
            n = const_int(cb)
            return _fit(_fit(a, w)[n:], w)
        if op in ("Shl", "ShlUnchecked") and cb is not None and isinstance(a, list) and w:
            n = const_int(cb)
            return _fit([0] * n + _fit(a, w), w)
        if op == "BitAnd" and (cb is not None or ca is not None) and w:
            other = a if cb is not None else value(f, rv["b"], depth + 1)
            mask = const_int(cb if cb is not None else ca)
            if not isinstance(other, list):
                return None
            return [(_fit(other, w)[i] if (mask >> i) & 1 else 0) for i in range(w)]
        if op == "BitOr" and w:
            b = value(f, rv["b"], depth + 1)
            if isinstance(a, list) and isinstance(b, list):
                out = []
                for x, y in zip(_fit(a, w), _fit(b, w)):
                    if x == 0:
                        out.append(y)
                    elif y == 0:
                        out.append(x)
                    else:
                        out.append(None)
                return out
        return None
    return None


def input_bits(v):
    """set of (arg, bit) that occur in a value (arrays flattened); None entries make the result partial"""
    out, unknown = [], False
    def walk(x):
        nonlocal unknown
        if x is None:
            unknown = True
        elif isinstance(x, tuple) and x and x[0] == "array":
            for e in x[1]:
                walk(e)
        elif isinstance(x, list):
            for b in x:
                if b is None:
                    unknown = True
                elif isinstance(b, tuple) and b[0] == "in":
                    out.append((b[1], b[2]))
    walk(v)
    return out, unknown
