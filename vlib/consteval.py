"""Symbolic evaluation of small pure arithmetic functions to linear forms over their parameters."""
import re
from .mir import Fn, op_place, op_const, const_int
from . import rules


def return_form(cg_bodies, path, depth=0):
    """Linear form {param_index: coeff}, const of the value returned by a loop-free arithmetic function,
    or a dict {"cases": [...]} when the function branches on a parameter, or None."""
    bs = cg_bodies.get(path)
    if not bs or depth > 6:
        return None
    f = Fn(bs[0])
    return _form(cg_bodies, f, [0, []], depth)


def is_lin(x):
    return x is not None and not (len(x) == 2 and x[0] == "expr")


def _expr(op, a, b):
    return ("expr", "%s(%s,%s)" % (op, fmt(a), fmt(b)))


def _add(a, b, sign=1):
    if not (is_lin(a) and is_lin(b)):
        return _expr("Add" if sign == 1 else "Sub", a, b)
    d = dict(a[0])
    for k, v in b[0].items():
        d[k] = d.get(k, 0) + sign * v
    return ({k: v for k, v in d.items() if v != 0}, a[1] + sign * b[1])


def _form(cgb, f, place, depth, seen=None):
    seen = seen or set()
    l, proj = place[0], place[1]
    ds = f.defs().get(l, [])
    if 1 <= l <= f.argc and not ds:
        return ({l: 1}, 0)
    if proj:
        if len(proj) == 1 and proj[0].startswith("f0") and len(ds) == 1 and ds[0][1] != "t":
            rv = ds[0][2]["rv"]
            if rv["k"] == "bin":
                return _bin(cgb, f, rv, depth, seen)
        return None
    if (l, tuple(proj)) in seen:
        return None
    seen = seen | {(l, tuple(proj))}
    if len(ds) != 1:
        # several definitions: all must evaluate to the same form (e.g. match arms assigning one variable)
        forms = []
        for (bi, si, it) in ds:
            fm = _def_form(cgb, f, bi, si, it, depth, seen)
            if fm is None:
                return None
            forms.append(fm)
        if forms and all(x == forms[0] for x in forms):
            return forms[0]
        return None
    bi, si, it = ds[0]
    return _def_form(cgb, f, bi, si, it, depth, seen)


def _operand(cgb, f, op, depth, seen):
    k = op_const(op)
    if k is not None:
        v = const_int(k)
        return ({}, v) if v is not None else None
    p = op_place(op)
    return _form(cgb, f, p, depth, seen) if p is not None else None


def _bin(cgb, f, rv, depth, seen):
    a = _operand(cgb, f, rv["a"], depth, seen)
    b = _operand(cgb, f, rv["b"], depth, seen)
    if a is None or b is None:
        return None
    op = rv["op"]
    if op.startswith("Add"):
        return _add(a, b)
    if op.startswith("Sub"):
        return _add(a, b, -1)
    if op.startswith("Mul"):
        if is_lin(a) and is_lin(b):
            if not a[0]:
                return ({k: v * a[1] for k, v in b[0].items()}, a[1] * b[1])
            if not b[0]:
                return ({k: v * b[1] for k, v in a[0].items()}, a[1] * b[1])
        return _expr("Mul", a, b)
    if op in ("Div", "Rem", "Shl", "Shr", "BitAnd", "BitOr", "BitXor"):
        if is_lin(a) and is_lin(b) and not a[0] and not b[0] and b[1] != 0 and op == "Div":
            return ({}, a[1] // b[1])
        return _expr(op, a, b)
    return None


def _def_form(cgb, f, bi, si, it, depth, seen):
    if si == "t":
        fn = it["f"]
        tgt = fn.get("res", fn.get("path"))
        if tgt is None:
            return None
        if re.search(r"convert::(From::from|Into::into)$", fn.get("path", "")) and len(it["args"]) == 1:
            return _operand(cgb, f, it["args"][0], depth, seen)
        sub = return_form(cgb, tgt, depth + 1)
        if sub is None:
            return None
        if not is_lin(sub):
            args = [fmt(_operand(cgb, f, a, depth, seen)) for a in it["args"]]
            return ("expr", "%s[%s]" % (sub[1], ",".join(args)))
        # substitute arguments
        out = ({}, sub[1])
        for pi, coeff in sub[0].items():
            if pi - 1 >= len(it["args"]):
                return None
            af = _operand(cgb, f, it["args"][pi - 1], depth, seen)
            if af is None:
                return None
            if not is_lin(af):
                out = _add(out, ("expr", "%d*%s" % (coeff, af[1])))
                continue
            if not is_lin(out):
                out = _add(out, ({k: v * coeff for k, v in af[0].items()}, af[1] * coeff))
                continue
            out = _add(out, ({k: v * coeff for k, v in af[0].items()}, af[1] * coeff))
        return out
    rv = it["rv"]
    if it["lhs"][1]:
        return None
    if rv["k"] == "use":
        return _operand(cgb, f, rv["a"], depth, seen)
    if rv["k"] == "cast" and rv["ck"] == "IntToInt":
        return _operand(cgb, f, rv["a"], depth, seen)
    if rv["k"] == "bin":
        return _bin(cgb, f, rv, depth, seen)
    return None


def fmt(form):
    if form is None:
        return "?"
    if not is_lin(form):
        return form[1]
    parts = ["%s%s" % ("" if v == 1 else "%d*" % v, "p%d" % k) for k, v in sorted(form[0].items())]
    if form[1] or not parts:
        parts.append(str(form[1]))
    return "+".join(parts)
