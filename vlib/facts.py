"""Build and load MIR facts for /repo's current working tree.

Facts are produced by the mirq rustc driver (engines/mirq) run as RUSTC_WRAPPER
under `cargo +nightly check --offline`, once for the rust-src workspace and
once for the shadow workspace of the smart-contract crates (shims/).  They are
keyed by a hash of every analysed source file so that all checks share one
build per tree state.
"""
import fcntl
import hashlib
import json
import os
import shutil
import subprocess
import sys
import time

VERIF = os.path.dirname(os.path.dirname(os.path.abspath(__file__)))
REPO = os.environ.get("VERIF_REPO", "/repo")
CACHE = os.path.join(VERIF, ".cache")
DRIVER = os.path.join(VERIF, "engines", "mirq", "target", "release", "mirq")

RS_CRATES = ["concordium_base", "concordium_contracts_common", "key_derivation",
             "ed25519_hd_key_derivation", "keygen_bls", "wallet_library"]
SC_CRATES = ["concordium_wasm", "concordium_smart_contract_engine", "concordium_contracts_common"]
# cargo package names whose fingerprints are removed so that the driver re-runs
RS_PKGS = ["concordium_base", "concordium-contracts-common", "key_derivation",
           "ed25519_hd_key_derivation", "keygen_bls", "wallet_library"]
SC_PKGS = ["concordium-wasm", "concordium-smart-contract-engine", "concordium-contracts-common"]

# floors: number of MIR bodies counted on the pinned tree (fail closed below 90%)
BODY_FLOORS = {
    ("rs", "concordium_base"): 7271,
    ("rs", "concordium_contracts_common"): 1172,
    ("rs", "key_derivation"): 54,
    ("rs", "ed25519_hd_key_derivation"): 10,
    ("rs", "keygen_bls"): 2,
    ("rs", "wallet_library"): 155,
    ("sc", "concordium_wasm"): 560,
    ("sc", "concordium_smart_contract_engine"): 787,
}

SRC_ROOTS = [
    "rust-src",
    "smart-contracts/wasm-transform",
    "smart-contracts/wasm-chain-integration",
    "smart-contracts/contracts-common",
]


def tree_hash(repo=None):
    repo = repo or REPO
    h = hashlib.sha256()
    for root in SRC_ROOTS:
        base = os.path.join(repo, root)
        for dp, dns, fns in os.walk(base):
            dns[:] = sorted(d for d in dns if d not in ("target", ".git", "node_modules"))
            for fn in sorted(fns):
                if fn.endswith(".rs") or fn in ("Cargo.toml", "Cargo.lock"):
                    p = os.path.join(dp, fn)
                    h.update(os.path.relpath(p, repo).encode())
                    h.update(b"\0")
                    with open(p, "rb") as f:
                        h.update(hashlib.sha256(f.read()).digest())
    # the driver and shims are part of the key too
    for extra in ("engines/mirq/src/main.rs", "shims/Cargo.toml",
                  "shims/wasm-transform/Cargo.toml", "shims/wasm-chain-integration/Cargo.toml"):
        with open(os.path.join(VERIF, extra), "rb") as f:
            h.update(hashlib.sha256(f.read()).digest())
    h.update(repo.encode())
    return h.hexdigest()[:20]


def _sysroot():
    return subprocess.check_output(["rustc", "+nightly", "--print", "sysroot"], text=True).strip()


def _env(out_dir, crates, target):
    env = dict(os.environ)
    env["LD_LIBRARY_PATH"] = _sysroot() + "/lib" + (":" + env["LD_LIBRARY_PATH"] if env.get("LD_LIBRARY_PATH") else "")
    env["RUSTFLAGS"] = "-Zmir-opt-level=0 -Awarnings"
    env["RUSTC_WRAPPER"] = DRIVER
    env["MIRQ_OUT"] = out_dir
    env["MIRQ_CRATES"] = ",".join(crates)
    env["CARGO_TARGET_DIR"] = target
    env["CARGO_NET_OFFLINE"] = "true"
    env.pop("RUSTC_WORKSPACE_WRAPPER", None)
    return env


def _drop_fingerprints(target, pkgs):
    fp = os.path.join(target, "debug", ".fingerprint")
    if not os.path.isdir(fp):
        return
    for d in os.listdir(fp):
        for p in pkgs:
            if d.startswith(p + "-"):
                shutil.rmtree(os.path.join(fp, d), ignore_errors=True)


def build_driver():
    if os.path.exists(DRIVER) and os.path.getmtime(DRIVER) >= os.path.getmtime(
            os.path.join(VERIF, "engines/mirq/src/main.rs")):
        return
    env = dict(os.environ)
    env["CARGO_NET_OFFLINE"] = "true"
    subprocess.check_call(["cargo", "build", "--release", "--offline"],
                          cwd=os.path.join(VERIF, "engines/mirq"), env=env,
                          stdout=subprocess.DEVNULL, stderr=subprocess.DEVNULL)


def _prepare_shims(repo):
    """Shadow manifests point into the repo being analysed."""
    if repo == "/repo":
        return os.path.join(VERIF, "shims")
    # scratch copy of the shim workspace pointing to another repo root (mutant runs)
    dst = os.path.join(CACHE, "shims-" + hashlib.sha256(repo.encode()).hexdigest()[:10])
    if os.path.isdir(dst):
        shutil.rmtree(dst)
    shutil.copytree(os.path.join(VERIF, "shims"), dst, ignore=shutil.ignore_patterns("target"))
    for m in ("wasm-transform/Cargo.toml", "wasm-chain-integration/Cargo.toml"):
        p = os.path.join(dst, m)
        s = open(p).read().replace("/repo/", repo.rstrip("/") + "/")
        open(p, "w").write(s)
    return dst


def ensure_facts(repo=None, only=None, quiet=True):
    """Return the facts directory for the current tree, building it if needed.

    only: None (both workspaces), "rs" or "sc".
    """
    repo = repo or REPO
    os.makedirs(CACHE, exist_ok=True)
    lock = open(os.path.join(CACHE, "build.lock"), "w")
    fcntl.flock(lock, fcntl.LOCK_EX)
    try:
        build_driver()
        th = tree_hash(repo)
        fdir = os.path.join(CACHE, "facts", th)
        want = ["rs", "sc"] if only is None else [only]
        for ws in want:
            marker = os.path.join(fdir, ws, "COMPLETE")
            if os.path.exists(marker):
                continue
            out = os.path.join(fdir, ws)
            if os.path.isdir(out):
                shutil.rmtree(out)
            os.makedirs(out)
            t0 = time.time()
            suffix = "" if repo == "/repo" else "-" + hashlib.sha256(repo.encode()).hexdigest()[:10]
            if ws == "rs":
                target = os.path.join(CACHE, "target-rs" + suffix)
                _drop_fingerprints(target, RS_PKGS)
                cmd = ["cargo", "+nightly", "check", "--offline", "--workspace"]
                cwd = os.path.join(repo, "rust-src")
                env = _env(out, RS_CRATES, target)
                crates = RS_CRATES
            else:
                target = os.path.join(CACHE, "target-sc" + suffix)
                _drop_fingerprints(target, SC_PKGS)
                cwd = _prepare_shims(repo)
                lockfile = os.path.join(cwd, "Cargo.lock")
                if not os.path.exists(lockfile):
                    shutil.copy(os.path.join(repo, "rust-src", "Cargo.lock"), lockfile)
                cmd = ["cargo", "+nightly", "check", "--offline", "--workspace"]
                env = _env(out, SC_CRATES, target)
                crates = SC_CRATES
            r = subprocess.run(cmd, cwd=cwd, env=env, stdout=subprocess.PIPE,
                               stderr=subprocess.STDOUT, text=True)
            if r.returncode != 0:
                sys.stderr.write(r.stdout[-6000:])
                raise SystemExit("facts: build of workspace %s failed (the tree does not compile?)" % ws)
            for c in crates:
                f = os.path.join(out, c + ".mir.jsonl")
                if not os.path.exists(f):
                    raise SystemExit("facts: no fact file for crate %s (%s)" % (c, ws))
            with open(marker, "w") as m:
                m.write("%.1f\n" % (time.time() - t0))
            if not quiet:
                print("facts: built %s in %.1fs" % (ws, time.time() - t0))
        try:
            with open(os.path.join(fdir, "repo.txt"), "w") as m:
                m.write(repo + "\n")
        except OSError:
            pass
        _gc(os.path.join(CACHE, "facts"), keep=th)
        return fdir
    finally:
        fcntl.flock(lock, fcntl.LOCK_UN)
        lock.close()


def _gc(root, keep, max_keep=4):
    """keep the newest few fact sets per analysed repository root (scratch copies do not evict /repo's)"""
    try:
        groups = {}
        for d in os.listdir(root):
            if d == keep:
                continue
            try:
                who = open(os.path.join(root, d, "repo.txt")).read().strip()
            except OSError:
                who = "?"
            groups.setdefault(who, []).append(d)
        for who, ds in groups.items():
            ds.sort(key=lambda d: os.path.getmtime(os.path.join(root, d)))
            limit = max_keep - 1 if who in ("/repo", "?") else 1
            while len(ds) > limit:
                shutil.rmtree(os.path.join(root, ds.pop(0)), ignore_errors=True)
    except OSError:
        pass


class Crate:
    """Lazy view of one crate's fact file."""

    def __init__(self, ws, name, path):
        self.ws, self.name, self.file = ws, name, path
        self._raw = {}      # path -> list of raw json strings
        self._parsed = {}
        self.adts = {}
        self.consts = {}
        self.meta = None
        with open(path, "r") as f:
            for line in f:
                kind, key, js = line.rstrip("\n").split("\t", 2)
                if kind == "B":
                    self._raw.setdefault(key, []).append(js)
                elif kind == "D":
                    d = json.loads(js)
                    if "adt" in d:
                        self.adts[d["adt"]] = d
                    else:
                        self.consts[d["const"]] = d
                elif kind == "E":
                    self.meta = json.loads(js)
        if self.meta is None:
            raise SystemExit("facts: truncated fact file " + path)
        floor = BODY_FLOORS.get((ws, name))
        if floor is not None and self.meta["bodies"] < floor * 0.9:
            raise SystemExit("facts: crate %s has %d bodies, below floor %d (anchor lost)"
                             % (name, self.meta["bodies"], floor))

    def paths(self):
        return self._raw.keys()

    def bodies_raw(self, path):
        return self._raw.get(path, [])

    def get_all(self, path):
        if path not in self._parsed:
            self._parsed[path] = [json.loads(j) for j in self._raw.get(path, [])]
        return self._parsed[path]

    def get(self, path):
        """The unique body with this path, or None."""
        l = self.get_all(path)
        if len(l) == 1:
            return l[0]
        if not l:
            return None
        raise SystemExit("facts: path %s is ambiguous (%d bodies)" % (path, len(l)))

    def find(self, pred):
        return [p for p in self._raw if pred(p)]

    def all_bodies(self):
        for p in list(self._raw):
            for b in self.get_all(p):
                yield b


_crates = {}


def crate(ws, name, repo=None):
    fdir = ensure_facts(repo, only=ws)
    key = (fdir, ws, name)
    if key not in _crates:
        _crates[key] = Crate(ws, name, os.path.join(fdir, ws, name + ".mir.jsonl"))
    return _crates[key]


if __name__ == "__main__":
    t = time.time()
    d = ensure_facts(quiet=False)
    print(d, "%.1fs" % (time.time() - t))
