"""Sweep rules over decode-reachable code: ALLOC, ERR.a, tag totality, bitmap canonicity, REC."""
import re
from .mir import Fn, callee_match, op_place, op_const, const_int
from . import rules, sym

ALLOC = re.compile(r"(Vec::<T>::with_capacity|Vec::<T, A>::with_capacity_in|vec::from_elem|String::with_capacity|"
                   r"HashMap::<K, V>::with_capacity|HashMap::<K, V, S>::with_capacity_and_hasher|HashSet::<T>::with_capacity|"
                   r"HashSet::<T, S>::with_capacity_and_hasher|Vec::<T, A>::(reserve|reserve_exact|resize|resize_with)|"
                   r"VecDeque::<T>::with_capacity|String::reserve|Box::<\[T\]>::new_uninit_slice|BinaryHeap::<T>::with_capacity)$")
READ = re.compile(r"(ReadBytesExt::read_(u8|u16|u32|u64|i8|i16|i32|i64|u128)|serialize::Deserial::deserial|serialize::Get::get|"
                  r"concordium_contracts_common::(traits::)?(Deserial::deserial|Get::get|Read::read_(u8|u16|u32|u64|i8|i16|i32|i64))|"
                  r"schema::deserial_length|leb128::read::(unsigned|signed)|parse::(Parseable::parse|GetParseable::next)|Cursor.*::next)$")
NARROW = re.compile(r"\b(u8|u16|i8|i16|bool)\b")
WIDE = re.compile(r"\b(u32|u64|usize|i32|i64|u128)\b")
MINF = re.compile(r"cmp::(min|Ord::min)$|::min$")
BOUNDED_HELPERS = re.compile(r"(safe_with_capacity|cap_capacity)$")


def size_operand(t):
    name = t["f"]["path"].split("::")[-1]
    if name.startswith("with_capacity") or name == "new_uninit_slice":
        return t["args"][0]
    if name == "from_elem":
        return t["args"][1]
    return t["args"][1] if len(t["args"]) > 1 else t["args"][0]


def read_width(f, bb):
    """result type token of a read call at block bb"""
    t = f.term(bb)
    ty = f.locals[t["dest"][0]]
    g = " ".join(t["f"].get("gargs", []))
    m = re.search(r"Result<([^,>]+)", ty)
    inner = m.group(1) if m else ty
    return inner


def classify_size(f, bi, t, bounded_types=()):
    """-> (class, detail): const | mem-len | narrow-read | min-const | bounded-type | guarded | param | unbounded"""
    op = size_operand(t)
    if op_const(op) is not None:
        return "const", "literal / constant"
    o = f.origins(op)
    calls = [a for a in o if a[0] in ("call", "outparam")]
    args = [a for a in o if a[0] == "arg"]
    reads = [a for a in calls if READ.search(a[1])]
    mins = [a for a in calls if MINF.search(a[1])]
    if mins:
        for m in mins:
            mt = f.term(m[2])
            for a in mt["args"]:
                oa = f.origins(a)
                if (op_const(a) is not None and "fn" not in op_const(a)) or (oa and all(x[0] in ("lit", "const", "cast", "bin", "un") for x in oa) and any(x[0] in ("lit", "const") for x in oa)):
                    return "min-const", "min(.., constant)"
                # input-free expression built from constants (e.g. CONST / max(1, size_of::<T>()))
                if oa and any(x[0] in ("lit", "const") for x in oa) and not any(x[0] in ("arg", "outparam", "field") for x in oa) and \
                        all(re.search(r"size_of|cmp::max$|cmp::min$|::max$|::min$|checked_div$|unwrap_or$", x[1]) for x in oa if x[0] in ("call", "callres")):
                    return "min-const", "min(.., constant expression)"
    if any(BOUNDED_HELPERS.search(a[1]) for a in calls):
        return "min-const", "bounded helper"
    for r in reads:
        w = read_width(f, r[2])
        if any(bt in w for bt in bounded_types):
            continue
        if WIDE.search(w) and not NARROW.search(w.split("<")[0]):
            # wide read: acceptable only when a dominating enforced comparison bounds it by a constant
            ok, d = rules.guarded_site(f, bi, [("call", re.escape(r[1]) + "$")], [("lit_or_const",)], "Gt", deep=False)
            if ok:
                return "guarded", d
            return "unbounded", "size derives from a %s read from the input (%s) with no dominating bound" % (w, r[1].split("::")[-1])
    if reads:
        ws = [read_width(f, r[2]) for r in reads]
        if all(any(bt in w for bt in bounded_types) for w in ws):
            return "bounded-type", "size derives from a bounded source type %s" % ws
        return "narrow-read", "size derives from reads of at most 16 bits / bounded types: %s" % ws
    if args:
        return "param", "size is parameter %s of the function" % [a[1] for a in args]
    others = [a for a in calls if not re.search(r"::len$|Try::branch|From::from|Into::into|try_into|try_from|size_of|ExactSizeIterator|size_hint", a[1])]
    if any(re.search(r"::len$|size_of", a[1]) for a in calls) and not others:
        return "mem-len", "size is the length of data already in memory"
    if not calls:
        return "const", "no input-derived component"
    return "unknown", "size derives from %s" % sorted(set(a[1].split("::")[-1] for a in calls))


def tag_switches(f):
    """switches on an integer read from the input: [(switch_bb, term, read_atom)]"""
    out = []
    for (sb, st) in f.switches():
        if not re.match(r"^[ui](8|16|32|64)$", st.get("dty", "")):
            continue
        if len(st["t"]) < 1:
            continue
        o = f.origins(st["d"])
        if any(a[0] == "bin" for a in o):
            continue
        rd = [a for a in o if a[0] in ("call", "outparam") and READ.search(a[1])]
        if rd:
            # totality may be delegated to a dominating enforced range test on the same value
            root = rules.root_local(f, st["d"])
            delegated = False
            for comp in rules.comparisons(f):
                if comp["kind"] != "bin" or not f.dominates(comp["bb"], sb):
                    continue
                if root is not None and (rules.root_local(f, comp["a"]) == root or rules.root_local(f, comp["b"]) == root):
                    rel, _ = rules.cmp_rejects(f, comp)
                    if rel is not None:
                        delegated = True
            if not delegated:
                out.append((sb, st, rd[0]))
    return out


def bitmap_locals(f):
    """locals read from the input that are tested bit-wise:
    {root_local: dict(tests=[bb...], rejecting=[bb...])}"""
    res = {}
    for bi in sorted(f.reachable()):
        for s in f.stmts(bi):
            rv = s.get("rv", {})
            if rv.get("k") == "bin" and rv["op"] == "BitAnd":
                for side, other in ((rv["a"], rv["b"]), (rv["b"], rv["a"])):
                    r = rules.root_local(f, side)
                    if r is None or r[1]:
                        continue
                    o = f.origins(side)
                    if not any(a[0] in ("call", "outparam") and READ.search(a[1]) for a in o):
                        continue
                    ent = res.setdefault(r[0], dict(tests=[], rejecting=[], line=s["line"]))
                    ent["tests"].append((bi, s["lhs"][0]))
    for l, ent in res.items():
        for comp in rules.comparisons(f):
            oa = f.origins(comp["a"])
            ob = f.origins(comp["b"])
            if ("bin", "BitAnd") not in (oa | ob):
                # an upper bound on the raw value (`bitmap < 1 << 9`) refuses the undefined high bits just as well
                ra_ = rules.root_local(f, comp["a"])
                if ra_ is not None and not ra_[1] and ra_[0] == l and (op_const(comp["b"]) is not None or (ob and all(a[0] in ("lit", "bin", "cast", "const") for a in ob))):
                    rel, d = rules.cmp_rejects(f, comp)
                    if rel in ("Ge", "Gt"):
                        ent["rejecting"].append(comp["bb"])
                        ent.setdefault("raw", []).append(True)
                continue
            ra = set()
            vis = set()
            f.origins(comp["a"], visited=vis)
            f.origins(comp["b"], visited=vis)
            if l not in vis:
                continue
            rel, d = rules.cmp_rejects(f, comp)
            # both usual forms, `(x & !MASK) == 0` and `(x & MASK) == x`, refuse when the two sides DIFFER
            if rel == "Ne":
                ent["rejecting"].append(comp["bb"])
                # how many bit-masks lie between the value read from the input and the tested value: exactly one (the
                # test's own mask) means the RAW value is tested; two or more mean an already masked copy is tested
                nand = 0
                for v in vis:
                    for (b2, si, it) in f.defs().get(v, []):
                        if si != "t" and it["rv"].get("k") == "bin" and it["rv"]["op"] == "BitAnd":
                            nand += 1
                ent.setdefault("raw", []).append(nand <= 1)
    return res
