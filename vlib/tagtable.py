"""Extraction of tag <-> enum-variant tables from writer and reader bodies."""
import re
from .mir import Fn, op_const, op_place, const_int, path_conditions
from . import sym, sweeps


def _variant_name(c_adts, adt_path, idx):
    a = c_adts.get(adt_path)
    if a is None or idx >= len(a["variants"]):
        return None
    return a["variants"][idx]["name"]


def writer_table(fn, adts, enum_adt):
    """{(outer variant, inner variant or None): tag literal} for `match self { .. => literal }` writers"""
    res = {}
    outer = adts.get(enum_adt)
    if outer is None:
        return res
    cands = []
    for bi in sorted(fn.reachable()):
        for s in fn.stmts(bi):
            rv = s.get("rv", {})
            if rv.get("k") != "use" or op_const(rv["a"]) is None or "v" not in op_const(rv["a"]):
                continue
            if not re.match(r"^u(8|16|32)$", op_const(rv["a"])["ty"]):
                continue
            cands.append((bi, int(op_const(rv["a"])["v"])))
        t = fn.term(bi)
        if t["k"] == "call" and t["args"]:
            o = fn.origins(t["args"][0])
            lits = [a[1] for a in o if a[0] == "lit"]
            if len(lits) == 1 and all(a[0] in ("lit", "cast") for a in o):
                cands.append((bi, lits[0]))
    for (bi, tagv) in cands:
        if True:
            conds = []
            for (sb, v) in path_conditions(fn, bi):
                st = fn.term(sb)
                o = fn.origins(st["d"])
                if ("discr",) in o and ("arg", 1) in o and v != "otherwise":
                    depth = len([x for x in fn.origins(st["d"]) if x[0] == "field"])
                    conds.append((sb, int(v), depth))
            if not conds:
                continue
            conds.sort(key=lambda x: (x[2], x[0]))
            ov = conds[0][1]
            oname = outer["variants"][ov]["name"] if ov < len(outer["variants"]) else str(ov)
            iname = None
            if len(conds) > 1:
                flds = outer["variants"][ov]["fields"]
                inner_adt = flds[0]["ty"].split("<")[0] if flds else None
                iname = _variant_name(adts, inner_adt, conds[1][1]) or str(conds[1][1])
            if iname is None and ov < len(outer["variants"]) and outer["variants"][ov]["fields"]:
                ia = adts.get(outer["variants"][ov]["fields"][0]["ty"].split("<")[0])
                if ia is not None and len(ia["variants"]) == 1:
                    iname = ia["variants"][0]["name"]
            res.setdefault((oname, iname), tagv)
    return res


def reader_table(fn, enum_adt):
    """{tag literal: (outer variant, inner variant or None)} for `match byte { literal => Variant(..) }` readers"""
    res = {}
    default_rejects = None
    for (sb, st, rd) in sweeps.tag_switches(fn):
        for v, tb in st["t"]:
            region = sym.dominated(fn, tb)
            outer = None
            inner = None
            for b in sorted(region):
                for s in fn.stmts(b):
                    rv = s.get("rv", {})
                    if rv.get("k") == "agg" and rv.get("adt") == enum_adt:
                        outer = rv["variant"]
                        for o in rv["ops"]:
                            k = op_const(o)
                            if k is not None and "::" in k.get("s", ""):
                                inner = k["s"].split("::")[-1]
                            else:
                                p = op_place(o)
                                if p is not None:
                                    for (b2, si, it) in fn.defs().get(p[0], []):
                                        if si != "t" and it["rv"]["k"] == "use" and op_const(it["rv"]["a"]) is not None:
                                            inner = op_const(it["rv"]["a"]).get("s", "").split("::")[-1]
                                        elif si != "t" and it["rv"]["k"] == "agg" and it["rv"].get("agg") == "adt":
                                            inner = it["rv"]["variant"]
                    elif rv.get("k") == "use" and op_const(rv["a"]) is not None and outer is None:
                        k = op_const(rv["a"])
                        if k.get("ty", "") == enum_adt and "::" in k.get("s", ""):
                            outer = k["s"].split("::")[-1]
            if outer is not None:
                res[int(v)] = (outer, inner)
        default_rejects = st["o"] in fn.reject_region()
        break
    return res, default_rejects
