"""Host-function ABI tables: declared import types, import -> tag, tag -> host function, host function stack use."""
import re
from .mir import Fn, callee_match, op_place, op_const, path_conditions
from . import sym
from .transcript import rpo


def promoted_render(f, idx):
    ps = f.b.get("promoted", [])
    if idx >= len(ps):
        return None
    pb = ps[idx]
    vals = {}

    def opv(o):
        k = o.get("k")
        if k is not None:
            return k.get("s", "").replace("const ", "").split("::")[-1]
        p = o.get("c") or o.get("m")
        return vals.get(p[0], "_%d" % p[0]) if p else "?"
    for bl in pb["blocks"]:
        for s in bl["s"]:
            rv = s.get("rv")
            if not rv:
                continue
            if rv["k"] == "agg":
                if rv.get("agg") == "array":
                    vals[s["lhs"][0]] = "[" + ",".join(opv(o) for o in rv["ops"]) + "]"
                elif rv.get("agg") == "adt":
                    vals[s["lhs"][0]] = rv["variant"] + ("(" + ",".join(opv(o) for o in rv["ops"]) + ")" if rv["ops"] else "")
                else:
                    vals[s["lhs"][0]] = "(" + ",".join(opv(o) for o in rv["ops"]) + ")"
            elif rv["k"] == "use":
                vals[s["lhs"][0]] = opv(rv["a"])
            elif rv["k"] == "ref":
                vals[s["lhs"][0]] = vals.get(rv["p"][0], "?")
    return vals.get(0)


def _name_arms(f):
    """[(name literal, true-target block)] for string comparisons `x == "name"` that are branched on"""
    out = []
    for (bi, t) in f.calls(r"cmp::PartialEq::eq$"):
        name = None
        for a in t["args"]:
            k = op_const(a)
            if k and "str" in k:
                name = k["str"]
        if name is None:
            continue
        sw = [(sb, st) for (sb, st) in f.switches() if op_place(st["d"]) and op_place(st["d"])[0] == t["dest"][0]]
        if sw:
            out.append((name, sw[0][1]["o"]))
    return out


def declared_types(vf):
    """validate_import_function: name -> (params rendering, result rendering)"""
    tab = {}
    for name, true_t in _name_arms(vf):
        region = sym.dominated(vf, true_t)
        res = params = None
        for b in sorted(region):
            tt = vf.term(b)
            if tt["k"] != "call":
                continue
            if callee_match(tt, r"Option::<T>::is_none$") and ("field", "result") in vf.origins(tt["args"][0]):
                res = "None"
            if callee_match(tt, r"::is_empty$") and ("field", "parameters") in vf.origins(tt["args"][0], deep=True):
                params = "[]"
            if callee_match(tt, r"cmp::PartialEq::eq$"):
                proms = []
                for a in tt["args"]:
                    pl = op_place(a)
                    if pl is None:
                        continue
                    for (b2, si, it) in vf.defs().get(pl[0], []):
                        if si != "t" and it["rv"]["k"] in ("ref", "use"):
                            src = it["rv"].get("p") or op_place(it["rv"].get("a", {}))
                            if src:
                                for (b3, si3, it3) in vf.defs().get(src[0], []):
                                    if si3 != "t" and it3["rv"]["k"] == "use":
                                        k = op_const(it3["rv"]["a"])
                                        if k and "promoted" in k:
                                            proms.append(promoted_render(vf, k["promoted"]))
                srcf = set()
                for a in tt["args"]:
                    srcf |= set(x[1] for x in vf.origins(a, deep=True) if x[0] == "field")
                for pr in proms:
                    if pr is None:
                        continue
                    if "result" in srcf:
                        res = pr
                    elif "parameters" in srcf:
                        params = pr
        if params is not None or res is not None:
            tab[name] = (params, res)
    return tab


def import_tags(tf, enum_adt):
    """try_from_import: name -> (outer variant, inner variant)"""
    t2 = {}
    for name, true_t in _name_arms(tf):
        b = true_t
        outer = inner = None
        for _ in range(8):
            for s in tf.stmts(b):
                rv = s.get("rv", {})
                if rv.get("k") == "agg" and rv.get("adt") == enum_adt:
                    outer = rv["variant"]
                    for o in rv["ops"]:
                        k = op_const(o)
                        if k and "::" in k.get("s", ""):
                            inner = k["s"].split("::")[-1]
                        else:
                            pl = op_place(o)
                            for (b2, si, it) in tf.defs().get(pl[0], []) if pl else []:
                                if si != "t" and it["rv"]["k"] == "agg":
                                    inner = it["rv"]["variant"]
                                if si != "t" and it["rv"]["k"] == "use" and op_const(it["rv"]["a"]):
                                    inner = op_const(it["rv"]["a"])["s"].split("::")[-1]
                elif rv.get("k") == "use" and op_const(rv["a"]) and outer is None:
                    k = op_const(rv["a"])
                    if k.get("ty") == enum_adt:
                        outer = k["s"].split("::")[-1]
            tt = tf.term(b)
            if tt["k"] == "goto":
                b = tt["target"]
            else:
                break
        if outer is not None:
            t2[name] = (outer, inner)
    return t2


def dispatch(hf, adts, enum_adt, host_pat):
    """Host::call: (outer, inner) -> host function name"""
    adt = adts[enum_adt]
    out = {}
    for (bi, t) in hf.calls(host_pat):
        conds = []
        for (sb, v) in path_conditions(hf, bi):
            st = hf.term(sb)
            o = hf.origins(st["d"])
            if ("discr",) in o and v != "otherwise" and ("field", "tag") in o:
                depth = len([x for x in o if x[0] == "field"])
                conds.append((depth, sb, int(v)))
        conds.sort()
        if not conds:
            continue
        ov = conds[0][2]
        on = adt["variants"][ov]["name"]
        inn = None
        flds = adt["variants"][ov]["fields"]
        ia = adts.get(flds[0]["ty"].split("<")[0]) if flds else None
        if len(conds) > 1 and ia:
            inn = ia["variants"][conds[1][2]]["name"]
        elif ia and len(ia["variants"]) == 1:
            inn = ia["variants"][0]["name"]
        out.setdefault((on, inn), set()).add(t["f"]["path"])
    return out


def stack_use(f, crate=None, depth=0):
    """(pops, pushes) of a host function in reverse post-order; helpers that receive the stack are inlined"""
    pops, pushes = [], []
    stack_locals = [l for l, n in f.names().items() if n == "stack" and l <= f.argc]
    for bi in rpo(f):
        t = f.term(bi)
        if t["k"] != "call":
            continue
        if callee_match(t, r"RuntimeStack::pop_u32$"):
            pops.append("I32")
        elif callee_match(t, r"RuntimeStack::pop_u64$"):
            pops.append("I64")
        elif callee_match(t, r"RuntimeStack::pop$"):
            # untyped pop: the width is the union field that is read from the result
            d = t["dest"][0]
            flds = set()
            for b2 in f.reachable():
                for s in f.stmts(b2):
                    for pl in _places(s):
                        if pl[0] == d:
                            flds |= set(p.split(":", 1)[1] for p in pl[1] if p.startswith("f") and ":" in p)
            pops.append("I32" if flds == {"short"} else "I64" if flds == {"long"} else "ANY")
        elif callee_match(t, r"RuntimeStack::push_value$"):
            g = t["f"].get("gargs", [])
            pushes.append(g[-1] if g else "?")
        elif crate is not None and depth < 2 and stack_locals and "path" in t["f"]:
            tgt = t["f"].get("res", t["f"]["path"])
            if any(("arg", stack_locals[0]) in f.origins(a) for a in t["args"] if op_place(a) is not None):
                for b in crate.get_all(tgt):
                    p2, q2 = stack_use(Fn(b), crate, depth + 1)
                    pops += p2
                    pushes += q2
    return pops, pushes


def _places(s):
    out = []
    rv = s.get("rv")
    if rv is None:
        return out
    if rv["k"] in ("use", "cast", "un"):
        p = op_place(rv["a"])
        if p is not None:
            out.append(p)
    elif rv["k"] in ("ref", "discr"):
        out.append(rv["p"])
    elif rv["k"] == "bin":
        for o in (rv["a"], rv["b"]):
            p = op_place(o)
            if p is not None:
                out.append(p)
    return out
