"""Rule templates over MIR facts: ENF, CMP, DOM, RET, COV, WHO, ALLOC, ERR ...

Every function returns plain data; reporting is done by vlib.report.
"""
import re
from .mir import (Fn, callee_match, op_place, op_const, const_int, rv_locals, CONVERSIONS)

TRY_BRANCH = re.compile(r"ops::(try_trait::)?Try::branch$")
FROM_RESIDUAL = re.compile(r"ops::(try_trait::)?FromResidual::from_residual$")
IS_OK = re.compile(r"::(Option::<T>::is_some|Result::<T, E>::is_ok)$")
IS_FAIL = re.compile(r"::(Option::<T>::is_none|Result::<T, E>::is_err)$")
SAME_ENUM = re.compile(r"::(Option::<T>::(as_ref|as_mut|copied|cloned|as_deref|take)|Result::<T, E>::(as_ref|as_mut|map_err|copied|cloned|map)|Option::<T>::map|clone::Clone::clone|Option::<&T>::(copied|cloned))$")
OPT_TO_RES = re.compile(r"::Option::<T>::(ok_or|ok_or_else|context|with_context)$|anyhow::Context::(context|with_context)$")
RES_TO_OPT = re.compile(r"::Result::<T, E>::ok$")


def _tag_of_type(ty):
    t = ty.lstrip("&").replace("mut ", "").strip()
    if t == "bool":
        return ("bool", 0)
    if t.startswith("std::option::Option<"):
        return ("enum", 0)
    if t.startswith("std::result::Result<"):
        return ("enum", 1)
    if t.startswith("std::ops::ControlFlow<"):
        return ("enum", 1)
    return None


def enforcement(fn, bi, extra_fail=None):
    """Decide whether the result of the call terminating block `bi` is enforced.

    Returns dict(status=..., detail=...).  status in
      enforced    a switch on the (polarity-tracked) result sends the failing value
                  into the reject region, and another successor is outside it
      propagated  the result (with failing polarity intact) is returned
      ignored     no switch and no return derives from the result
      weak        a switch exists but the failing successor is not in the reject region
    """
    t = fn.term(bi)
    dest = t["dest"]
    rr = fn.reject_region()
    tags = {}
    start_tag = _tag_of_type(fn.locals[dest[0]]) if not dest[1] else None
    if extra_fail is not None:
        start_tag = extra_fail
    if start_tag is None:
        return dict(status="untyped", detail="result type %s is not bool/Option/Result" % fn.locals[dest[0]])
    if dest[0] == 0 and not dest[1]:
        return dict(status="propagated", detail="call result is the return value")
    tags[dest[0]] = start_tag
    changed = True
    items = []
    for b in sorted(fn.reachable()):
        for s in fn.stmts(b):
            if "lhs" in s:
                items.append(("s", b, s))
        tt = fn.term(b)
        if tt["k"] == "call":
            items.append(("t", b, tt))
    propagated = False
    while changed:
        changed = False
        for kind, b, it in items:
            if kind == "s":
                lhs = it["lhs"]
                rv = it["rv"]
                k = rv["k"]
                new = None
                if k == "use":
                    p = op_place(rv["a"])
                    if p is not None and p[0] in tags:
                        # projections into the payload lose the tag
                        if not [x for x in p[1] if x != "*"]:
                            new = tags[p[0]]
                elif k == "ref":
                    p = rv["p"]
                    if p[0] in tags and not [x for x in p[1] if x != "*"]:
                        new = tags[p[0]]
                elif k == "un" and rv["op"] == "Not":
                    p = op_place(rv["a"])
                    if p is not None and p[0] in tags and tags[p[0]][0] == "bool":
                        new = ("bool", 1 - tags[p[0]][1])
                elif k == "discr":
                    p = rv["p"]
                    if p[0] in tags and tags[p[0]][0] == "enum" and not [x for x in p[1] if x != "*"]:
                        new = ("discr", tags[p[0]][1])
                elif k == "bin" and rv["op"] in ("Eq", "Ne"):
                    # comparison of a tracked bool/discr with a constant
                    a, c = rv["a"], rv["b"]
                    if op_place(a) is None:
                        a, c = c, a
                    p = op_place(a)
                    kv = const_int(op_const(c)) if op_const(c) is not None else None
                    if p is not None and p[0] in tags and kv is not None and tags[p[0]][0] in ("bool", "discr"):
                        failv = tags[p[0]][1]
                        # result true when value == kv (Eq)
                        eq_true_is_fail = (kv == failv)
                        if rv["op"] == "Ne":
                            eq_true_is_fail = not eq_true_is_fail
                        new = ("bool", 1 if eq_true_is_fail else 0)
                if new is not None:
                    if lhs[0] == 0 and not lhs[1]:
                        # returned
                        rk = fn.ret_kind()
                        if (rk == "bool" and new == ("bool", 0)) or (rk in ("result", "option") and new[0] == "enum"):
                            if not propagated:
                                propagated = True
                        continue
                    if not lhs[1] and tags.get(lhs[0]) != new and lhs[0] not in tags:
                        tags[lhs[0]] = new
                        changed = True
            else:
                d = it["dest"]
                if d[1]:
                    continue
                src = None
                for a in it["args"][:1]:
                    p = op_place(a)
                    if p is not None and p[0] in tags and not [x for x in p[1] if x != "*"]:
                        src = tags[p[0]]
                if src is None:
                    continue
                new = None
                if callee_match(it, TRY_BRANCH) and src[0] == "enum":
                    new = ("enum", 1)
                elif callee_match(it, IS_OK) and src[0] == "enum":
                    new = ("bool", 0)
                elif callee_match(it, IS_FAIL) and src[0] == "enum":
                    new = ("bool", 1)
                elif callee_match(it, SAME_ENUM) and src[0] == "enum":
                    new = src
                elif callee_match(it, OPT_TO_RES) and src[0] == "enum":
                    new = ("enum", 1)
                elif callee_match(it, RES_TO_OPT) and src[0] == "enum":
                    new = ("enum", 0)
                elif callee_match(it, FROM_RESIDUAL):
                    continue
                if new is not None:
                    if d[0] == 0:
                        rk = fn.ret_kind()
                        if rk in ("result", "option") and new[0] == "enum":
                            propagated = True
                        if rk == "bool" and new == ("bool", 0):
                            propagated = True
                        continue
                    if d[0] not in tags:
                        tags[d[0]] = new
                        changed = True
    best = None
    for (sb, st) in fn.switches():
        p = op_place(st["d"])
        if p is None or p[1] or p[0] not in tags:
            continue
        tag = tags[p[0]]
        if tag[0] not in ("bool", "discr"):
            continue
        failv = str(tag[1])
        ft = None
        for v, tb in st["t"]:
            if v == failv:
                ft = tb
        if ft is None:
            ft = st["o"]
        others = [s for s in fn.succ(sb) if s != ft]
        if ft in rr and any(o not in rr for o in others):
            return dict(status="enforced", detail="switch at bb%d (%s): failing value %s -> bb%d in reject region"
                        % (sb, fn.loc(sb), failv, ft), switch=sb)
        best = dict(status="weak", detail="switch at bb%d (%s): failing value %s -> bb%d is NOT rejecting"
                    % (sb, fn.loc(sb), failv, ft), switch=sb)
    if propagated:
        return dict(status="propagated", detail="result flows to the return value with failing polarity intact")
    if best is not None:
        return best
    return dict(status="ignored", detail="no branch or return depends on the result")


def enforced_ok(res):
    return res["status"] in ("enforced", "propagated")


# ---------------------------------------------------------------------- CMP

FLIP = {"Lt": "Gt", "Le": "Ge", "Gt": "Lt", "Ge": "Le", "Eq": "Eq", "Ne": "Ne"}
NEG = {"Lt": "Ge", "Le": "Gt", "Gt": "Le", "Ge": "Lt", "Eq": "Ne", "Ne": "Eq"}
CMP_CALL = re.compile(r"cmp::(PartialOrd::(lt|le|gt|ge)|PartialEq::(eq|ne))$")


def atoms_match(atoms, req):
    """req: list of requirements; each is a tuple pattern matched against atoms:
       ('call', regex) ('field', name) ('const', regex) ('lit', value) ('arg', n) ('len',)
       All must be satisfied."""
    for r in req:
        kind = r[0]
        ok = False
        for a in atoms:
            if a[0] == kind or (kind == "call" and a[0] in ("callres", "outparam")):
                if kind in ("call", "const", "fn", "agg", "str", "cast", "via"):
                    if re.search(r[1], str(a[1])):
                        ok = True
                elif kind in ("field", "lit", "arg", "bin", "un", "capture"):
                    if a[1] == r[1]:
                        ok = True
                else:
                    ok = True
            if ok:
                break
        if not ok:
            return False
    return True


def comparisons(fn):
    """Yield dicts for each comparison in fn: block, op, operand a/b, result local"""
    out = []
    for bi in sorted(fn.reachable()):
        for si, s in enumerate(fn.stmts(bi)):
            rv = s.get("rv")
            if rv and rv["k"] == "bin" and rv["op"] in FLIP:
                out.append(dict(bb=bi, op=rv["op"], a=rv["a"], b=rv["b"], res=s["lhs"][0], line=s["line"], kind="bin"))
        t = fn.term(bi)
        if t["k"] == "call" and callee_match(t, CMP_CALL) and len(t["args"]) == 2:
            name = t["f"]["name"]
            op = {"lt": "Lt", "le": "Le", "gt": "Gt", "ge": "Ge", "eq": "Eq", "ne": "Ne"}[name]
            out.append(dict(bb=bi, op=op, a=t["args"][0], b=t["args"][1], res=t["dest"][0], line=t["line"], kind="call",
                            self_ty=t["f"].get("self")))
    return out


def cmp_rejects(fn, comp):
    """For a comparison record, follow its boolean result to a switch and report the
    relation (over a,b) under which control enters the reject region.
    Returns (relation or None, detail)."""
    rr = fn.reject_region()
    # polarity tracking: tags[local] = True if local == (a op b), False if negated
    tags = {comp["res"]: True}
    changed = True
    while changed:
        changed = False
        for bi in fn.reachable():
            for s in fn.stmts(bi):
                if "lhs" not in s or s["lhs"][1]:
                    continue
                rv = s["rv"]
                new = None
                if rv["k"] == "use":
                    p = op_place(rv["a"])
                    if p is not None and not p[1] and p[0] in tags:
                        new = tags[p[0]]
                elif rv["k"] == "un" and rv["op"] == "Not":
                    p = op_place(rv["a"])
                    if p is not None and not p[1] and p[0] in tags:
                        new = not tags[p[0]]
                if new is not None and s["lhs"][0] not in tags:
                    tags[s["lhs"][0]] = new
                    changed = True
    rel = None
    detail = "comparison result is not branched on"
    for (sb, st) in fn.switches():
        p = op_place(st["d"])
        if p is None or p[1] or p[0] not in tags:
            continue
        pos = tags[p[0]]
        false_t = None
        for v, tb in st["t"]:
            if v == "0":
                false_t = tb
        true_t = st["o"] if false_t is not None else None
        if false_t is None:
            continue
        t_in = true_t in rr
        f_in = false_t in rr
        if t_in and not f_in:
            rel = comp["op"] if pos else NEG[comp["op"]]
            return rel, "bb%d: true-branch rejects" % sb
        if f_in and not t_in:
            rel = NEG[comp["op"]] if pos else comp["op"]
            return rel, "bb%d: false-branch rejects" % sb
        detail = "bb%d: neither or both branches reject" % sb
    # returned directly? (e.g. `a <= b` as the function's boolean result): rejects when false
    for (bi, si, it) in fn.defs().get(0, []):
        if si != "t" and not it["lhs"][1] and it["rv"]["k"] == "use":
            p = op_place(it["rv"]["a"])
            if p is not None and not p[1] and p[0] in tags and fn.ret_kind() == "bool":
                pos = tags[p[0]]
                return (NEG[comp["op"]] if pos else comp["op"]), "returned as verdict"
    if comp["res"] == 0 and fn.ret_kind() == "bool":
        return NEG[comp["op"]], "returned as verdict"
    return None, detail


def find_cmp(fn, a_req, b_req, passthru=CONVERSIONS, deep=True):
    """All comparisons whose operands derive from (a_req, b_req) in either order.
    Returns list of (comp, normalised_relation_that_rejects, detail)."""
    res = []
    for comp in comparisons(fn):
        oa = fn.origins(comp["a"], passthru=passthru, deep=deep)
        ob = fn.origins(comp["b"], passthru=passthru, deep=deep)
        ma = atoms_match(oa, a_req) and atoms_match(ob, b_req)
        mb = atoms_match(ob, a_req) and atoms_match(oa, b_req)
        if not (ma or mb):
            continue
        rel, detail = cmp_rejects(fn, comp)
        if rel is not None and not ma:
            rel = FLIP[rel]
        res.append((comp, rel, detail, ma and mb))
    return res


# ---------------------------------------------------------------------- DOM

def dominated_by(fn, b_block, a_blocks):
    """some block in a_blocks dominates b_block (strictly earlier or same block handled by caller)"""
    return any(a != b_block and fn.dominates(a, b_block) for a in a_blocks)


def ret_derives_from_call(fn, pat, deep=True):
    """the ACCEPT-classified assignments to the return place derive from a call matching pat"""
    acc, _ = fn.accept_points()
    at = fn.origins(0, deep=deep)
    return any(a[0] in ("call", "callres") and re.search(pat, a[1]) for a in at)
