"""Rule templates over MIR facts: ENF, CMP, DOM, RET, COV, WHO, ALLOC, ERR ...

Every function returns plain data; reporting is done by vlib.report.
"""
import re
from .mir import (Fn, callee_match, op_place, op_const, const_int, rv_locals, CONVERSIONS)

TRY_BRANCH = re.compile(r"ops::(try_trait::)?Try::branch$")
FROM_RESIDUAL = re.compile(r"ops::(try_trait::)?FromResidual::from_residual$")
IS_OK = re.compile(r"::(Option::<T>::is_some|Result::<T, E>::is_ok)$")
IS_FAIL = re.compile(r"::(Option::<T>::is_none|Result::<T, E>::is_err)$")
SAME_ENUM = re.compile(r"::(Option::<T>::(as_ref|as_mut|copied|cloned|as_deref|take)|Result::<T, E>::(as_ref|as_mut|map_err|copied|cloned|map)|Option::<T>::map|clone::Clone::clone|Option::<&T>::(copied|cloned))$")
OPT_TO_RES = re.compile(r"::Option::<T>::(ok_or|ok_or_else|context|with_context)$|anyhow::Context::(context|with_context)$")
RES_TO_OPT = re.compile(r"::Result::<T, E>::ok$")
ANYHOW_NOT = re.compile(r"^anyhow::__private::not$")


def _tag_of_type(ty):
    t = ty.lstrip("&").replace("mut ", "").strip()
    if t == "bool":
        return ("bool", 0)
    if t.startswith("std::option::Option<"):
        return ("enum", 0)
    if t.startswith("std::result::Result<"):
        return ("enum", 1)
    if t.startswith("std::ops::ControlFlow<"):
        return ("enum", 1)
    return None


def enforcement(fn, bi, extra_fail=None):
    """Decide whether the result of the call terminating block `bi` is enforced.

    Returns dict(status=..., detail=...).  status in
      enforced    a switch on the (polarity-tracked) result sends the failing value
                  into the reject region, and another successor is outside it
      propagated  the result (with failing polarity intact) is returned
      ignored     no switch and no return derives from the result
      weak        a switch exists but the failing successor is not in the reject region
    """
    t = fn.term(bi)
    dest = t["dest"]
    rr = fn.reject_region()
    tags = {}
    start_tag = _tag_of_type(fn.locals[dest[0]]) if not dest[1] else None
    if extra_fail is not None:
        start_tag = extra_fail
    if start_tag is None:
        return dict(status="untyped", detail="result type %s is not bool/Option/Result" % fn.locals[dest[0]])
    if dest[0] == 0 and not dest[1]:
        return dict(status="propagated", detail="call result is the return value")
    tags[dest[0]] = start_tag
    changed = True
    items = []
    for b in sorted(fn.reachable()):
        for s in fn.stmts(b):
            if "lhs" in s:
                items.append(("s", b, s))
        tt = fn.term(b)
        if tt["k"] == "call":
            items.append(("t", b, tt))
    propagated = False
    while changed:
        changed = False
        for kind, b, it in items:
            if kind == "s":
                lhs = it["lhs"]
                rv = it["rv"]
                k = rv["k"]
                new = None
                if k == "use":
                    p = op_place(rv["a"])
                    if p is not None and p[0] in tags:
                        # projections into the payload lose the tag
                        if not [x for x in p[1] if x != "*"]:
                            new = tags[p[0]]
                elif k == "ref":
                    p = rv["p"]
                    if p[0] in tags and not [x for x in p[1] if x != "*"]:
                        new = tags[p[0]]
                elif k == "un" and rv["op"] == "Not":
                    p = op_place(rv["a"])
                    if p is not None and p[0] in tags and tags[p[0]][0] == "bool":
                        new = ("bool", 1 - tags[p[0]][1])
                elif k == "discr":
                    p = rv["p"]
                    if p[0] in tags and tags[p[0]][0] == "enum" and not [x for x in p[1] if x != "*"]:
                        new = ("discr", tags[p[0]][1])
                elif k == "bin" and rv["op"] in ("Eq", "Ne"):
                    # comparison of a tracked bool/discr with a constant
                    a, c = rv["a"], rv["b"]
                    if op_place(a) is None:
                        a, c = c, a
                    p = op_place(a)
                    kv = const_int(op_const(c)) if op_const(c) is not None else None
                    if p is not None and p[0] in tags and kv is not None and tags[p[0]][0] in ("bool", "discr"):
                        failv = tags[p[0]][1]
                        # result true when value == kv (Eq)
                        eq_true_is_fail = (kv == failv)
                        if rv["op"] == "Ne":
                            eq_true_is_fail = not eq_true_is_fail
                        new = ("bool", 1 if eq_true_is_fail else 0)
                if new is not None:
                    if lhs[0] == 0 and not lhs[1]:
                        # returned
                        rk = fn.ret_kind()
                        if (rk == "bool" and new == ("bool", 0)) or (rk in ("result", "option") and new[0] == "enum"):
                            if not propagated:
                                propagated = True
                        continue
                    if not lhs[1] and tags.get(lhs[0]) != new and lhs[0] not in tags:
                        tags[lhs[0]] = new
                        changed = True
            else:
                d = it["dest"]
                if d[1]:
                    continue
                src = None
                for a in it["args"][:1]:
                    p = op_place(a)
                    if p is not None and p[0] in tags and not [x for x in p[1] if x != "*"]:
                        src = tags[p[0]]
                if src is None:
                    continue
                new = None
                if callee_match(it, TRY_BRANCH) and src[0] == "enum":
                    new = ("enum", 1)
                elif callee_match(it, IS_OK) and src[0] == "enum":
                    new = ("bool", 0)
                elif callee_match(it, IS_FAIL) and src[0] == "enum":
                    new = ("bool", 1)
                elif callee_match(it, SAME_ENUM) and src[0] == "enum":
                    new = src
                elif callee_match(it, OPT_TO_RES) and src[0] == "enum":
                    new = ("enum", 1)
                elif callee_match(it, RES_TO_OPT) and src[0] == "enum":
                    new = ("enum", 0)
                elif callee_match(it, ANYHOW_NOT) and src[0] == "bool":
                    new = ("bool", 1 - src[1])
                elif callee_match(it, FROM_RESIDUAL):
                    continue
                if new is not None:
                    if d[0] == 0:
                        rk = fn.ret_kind()
                        if rk in ("result", "option") and new[0] == "enum":
                            propagated = True
                        if rk == "bool" and new == ("bool", 0):
                            propagated = True
                        continue
                    if d[0] not in tags:
                        tags[d[0]] = new
                        changed = True
    best = None
    for (sb, st) in fn.switches():
        p = op_place(st["d"])
        if p is None or p[1] or p[0] not in tags:
            continue
        tag = tags[p[0]]
        if tag[0] not in ("bool", "discr"):
            continue
        failv = str(tag[1])
        ft = None
        for v, tb in st["t"]:
            if v == failv:
                ft = tb
        if ft is None:
            ft = st["o"]
        others = [s for s in fn.succ(sb) if s != ft]
        if ft in rr and any(o not in rr for o in others):
            return dict(status="enforced", detail="switch at bb%d (%s): failing value %s -> bb%d in reject region"
                        % (sb, fn.loc(sb), failv, ft), switch=sb)
        best = dict(status="weak", detail="switch at bb%d (%s): failing value %s -> bb%d is NOT rejecting"
                    % (sb, fn.loc(sb), failv, ft), switch=sb)
    if propagated:
        return dict(status="propagated", detail="result flows to the return value with failing polarity intact")
    if best is not None:
        return best
    return dict(status="ignored", detail="no branch or return depends on the result")


def enforced_ok(res):
    return res["status"] in ("enforced", "propagated")


# ---------------------------------------------------------------------- CMP

FLIP = {"Lt": "Gt", "Le": "Ge", "Gt": "Lt", "Ge": "Le", "Eq": "Eq", "Ne": "Ne"}
NEG = {"Lt": "Ge", "Le": "Gt", "Gt": "Le", "Ge": "Lt", "Eq": "Ne", "Ne": "Eq"}
CMP_CALL = re.compile(r"cmp::(PartialOrd::(lt|le|gt|ge)|PartialEq::(eq|ne))$")


def atoms_match(atoms, req):
    """req: list of requirements; each is a tuple pattern matched against atoms:
       ('call', regex) ('field', name) ('const', regex) ('lit', value) ('arg', n) ('len',)
       All must be satisfied."""
    for r in req:
        kind = r[0]
        ok = False
        if kind == "lit_or_const":
            if not any(a[0] in ("lit", "const") for a in atoms):
                return False
            continue
        if kind == "len":
            ok = any(a[0] == "len" or (a[0] in ("call", "callres") and re.search(r"::len$", a[1])) for a in atoms)
            if not ok:
                return False
            continue
        for a in atoms:
            if a[0] == kind or (kind == "call" and a[0] in ("callres", "outparam")):
                if kind in ("call", "const", "fn", "agg", "str", "cast", "via"):
                    if re.search(r[1], str(a[1])):
                        ok = True
                elif kind in ("field", "lit", "arg", "bin", "un", "capture"):
                    if a[1] == r[1]:
                        ok = True
                else:
                    ok = True
            if ok:
                break
        if not ok:
            return False
    return True


def comparisons(fn):
    """Yield dicts for each comparison in fn: block, op, operand a/b, result local"""
    out = []
    for bi in sorted(fn.reachable()):
        for si, s in enumerate(fn.stmts(bi)):
            rv = s.get("rv")
            if rv and rv["k"] == "bin" and rv["op"] in FLIP:
                out.append(dict(bb=bi, op=rv["op"], a=rv["a"], b=rv["b"], res=s["lhs"][0], line=s["line"], kind="bin"))
        t = fn.term(bi)
        if t["k"] == "call" and callee_match(t, CMP_CALL) and len(t["args"]) == 2:
            name = t["f"]["name"]
            op = {"lt": "Lt", "le": "Le", "gt": "Gt", "ge": "Ge", "eq": "Eq", "ne": "Ne"}[name]
            out.append(dict(bb=bi, op=op, a=t["args"][0], b=t["args"][1], res=t["dest"][0], line=t["line"], kind="call",
                            self_ty=t["f"].get("self")))
    return out


def resolve_const_edge(fn, tb, maxsteps=40):
    """Follow a branch target through the lowering of `a && b` / `a || b`: blocks that assign a constant boolean to a
    temporary and jump to a join block that immediately switches on that temporary.  Returns the block finally reached
    once the outcome no longer follows from constants (tb itself if nothing can be resolved)."""
    env = {}
    cur = tb
    for _ in range(maxsteps):
        for s in fn.stmts(cur):
            if "lhs" not in s or s["lhs"][1]:
                continue
            rv = s["rv"]
            l = s["lhs"][0]
            if rv["k"] == "use":
                k = op_const(rv["a"])
                p = op_place(rv["a"])
                if k is not None and k.get("ty") == "bool":
                    env[l] = bool(const_int(k))
                elif p is not None and not p[1] and p[0] in env:
                    env[l] = env[p[0]]
                else:
                    env.pop(l, None)
            elif rv["k"] == "un" and rv["op"] == "Not":
                p = op_place(rv["a"])
                if p is not None and not p[1] and p[0] in env:
                    env[l] = not env[p[0]]
                else:
                    env.pop(l, None)
            else:
                env.pop(l, None)
        t = fn.term(cur)
        if t["k"] == "goto":
            if not env:
                return cur if cur != tb else tb
            cur = t["target"]
            continue
        if t["k"] == "call" and callee_match(t, ANYHOW_NOT) and not t["dest"][1]:
            p = op_place(t["args"][0])
            if p is not None and not p[1] and p[0] in env and t.get("target") is not None:
                env[t["dest"][0]] = not env[p[0]]
                cur = t["target"]
                continue
            return cur
        if t["k"] in ("call", "drop") and env and t.get("target") is not None:
            # a call in between (evaluation of the next conjunct's operands) does not change the constants already known,
            # except for the local it defines
            if t["k"] == "call":
                env.pop(t["dest"][0], None)
                # a known boolean passed by mutable reference could change: drop it
                for a in t["args"]:
                    pa = op_place(a)
                    if pa is not None and pa[0] in env and pa[1]:
                        env.pop(pa[0], None)
            if not env:
                return cur
            cur = t["target"]
            continue
        if t["k"] == "switch":
            p = op_place(t["d"])
            if p is not None and not p[1] and p[0] in env:
                val = env[p[0]]
                nxt = None
                for v, b in t["t"]:
                    if v == "0" and not val:
                        nxt = b
                if nxt is None:
                    nxt = t["o"] if val or not any(v == "0" for v, _ in t["t"]) else None
                if nxt is None:
                    return cur
                cur = nxt
                env2 = dict(env)
                env = env2
                continue
            return cur
        return cur
    return cur


def const_edge_rejects(fn, tb, limit=3000):
    """Does every path that starts with the edge into tb end in a rejecting outcome, given the boolean constants assigned
    along the way (the lowering of `a && b && ...` stores `false` in a temporary that is tested later)?  Both successors of
    a switch on an unknown value are explored; a switch on a known constant follows that constant."""
    rr = fn.reject_region()
    rk = fn.ret_kind()
    acc_pts, _rej_pts = fn.accept_points()
    start_env = ()
    seen = set()
    work = [(tb, start_env)]
    n = 0
    while work:
        cur, envt = work.pop()
        if (cur, envt) in seen:
            continue
        seen.add((cur, envt))
        n += 1
        if n > limit:
            return False
        if cur in rr:
            continue
        if cur in acc_pts:
            return False            # an accepting assignment of the result lies on this path
        env = dict(envt)
        for s in fn.stmts(cur):
            if "lhs" not in s or s["lhs"][1]:
                continue
            rv = s["rv"]
            l = s["lhs"][0]
            if rv["k"] == "use":
                k = op_const(rv["a"])
                p = op_place(rv["a"])
                if k is not None and k.get("ty") == "bool":
                    env[l] = bool(const_int(k))
                elif p is not None and not p[1] and p[0] in env:
                    env[l] = env[p[0]]
                else:
                    env.pop(l, None)
            elif rv["k"] == "un" and rv["op"] == "Not":
                p = op_place(rv["a"])
                if p is not None and not p[1] and p[0] in env:
                    env[l] = not env[p[0]]
                else:
                    env.pop(l, None)
            else:
                env.pop(l, None)
        t = fn.term(cur)
        k = t["k"]
        if k == "return":
            if rk == "bool" and env.get(0) is False:
                continue            # returns false: rejected
            return False
        if k == "goto":
            work.append((t["target"], tuple(sorted(env.items()))))
        elif k == "switch":
            p = op_place(t["d"])
            if p is not None and not p[1] and p[0] in env:
                val = env[p[0]]
                nxt = None
                for v, b in t["t"]:
                    if v == "0" and not val:
                        nxt = b
                if nxt is None:
                    nxt = t["o"]
                work.append((nxt, tuple(sorted(env.items()))))
            else:
                for _, b in t["t"]:
                    work.append((b, tuple(sorted(env.items()))))
                work.append((t["o"], tuple(sorted(env.items()))))
        elif k == "call":
            if callee_match(t, ANYHOW_NOT) and not t["dest"][1]:
                p = op_place(t["args"][0])
                if p is not None and not p[1] and p[0] in env:
                    env[t["dest"][0]] = not env[p[0]]
                else:
                    env.pop(t["dest"][0], None)
            else:
                env.pop(t["dest"][0], None)
                for a in t["args"]:
                    pa = op_place(a)
                    if pa is not None and pa[0] in env and pa[1]:
                        env.pop(pa[0], None)
            if t.get("target") is not None:
                work.append((t["target"], tuple(sorted(env.items()))))
        elif k in ("drop", "assert"):
            if t.get("target") is not None:
                work.append((t["target"], tuple(sorted(env.items()))))
        # unreachable / others: path ends without accepting
    return True


def cmp_rejects(fn, comp, info=None):
    """For a comparison record, follow its boolean result to a switch and report the
    relation (over a,b) under which control enters the reject region.
    Returns (relation or None, detail)."""
    rr = fn.reject_region()
    # polarity tracking: tags[local] = True if local == (a op b), False if negated
    tags = {comp["res"]: True}
    changed = True
    while changed:
        changed = False
        for bi in fn.reachable():
            for s in fn.stmts(bi):
                if "lhs" not in s or s["lhs"][1]:
                    continue
                rv = s["rv"]
                new = None
                if rv["k"] == "use":
                    p = op_place(rv["a"])
                    if p is not None and not p[1] and p[0] in tags:
                        new = tags[p[0]]
                elif rv["k"] == "un" and rv["op"] == "Not":
                    p = op_place(rv["a"])
                    if p is not None and not p[1] and p[0] in tags:
                        new = not tags[p[0]]
                if new is not None and s["lhs"][0] not in tags:
                    tags[s["lhs"][0]] = new
                    changed = True
            t = fn.term(bi)
            if t["k"] == "call" and callee_match(t, ANYHOW_NOT) and not t["dest"][1] and t["dest"][0] not in tags:
                p = op_place(t["args"][0])
                if p is not None and not p[1] and p[0] in tags:
                    tags[t["dest"][0]] = not tags[p[0]]
                    changed = True
    rel = None
    detail = "comparison result is not branched on"
    for (sb, st) in fn.switches():
        p = op_place(st["d"])
        if p is None or p[1] or p[0] not in tags:
            continue
        pos = tags[p[0]]
        false_t = None
        for v, tb in st["t"]:
            if v == "0":
                false_t = tb
        true_t = st["o"] if false_t is not None else None
        if false_t is None:
            continue
        t_in = true_t in rr or resolve_const_edge(fn, true_t) in rr
        f_in = false_t in rr or resolve_const_edge(fn, false_t) in rr
        if not t_in and not f_in:
            t_in = const_edge_rejects(fn, true_t)
            f_in = const_edge_rejects(fn, false_t)
        if t_in and not f_in:
            rel = comp["op"] if pos else NEG[comp["op"]]
            if info is not None:
                info.update(switch=sb, fail_target=true_t, pass_target=false_t)
            return rel, "bb%d: true-branch rejects" % sb
        if f_in and not t_in:
            rel = NEG[comp["op"]] if pos else comp["op"]
            if info is not None:
                info.update(switch=sb, fail_target=false_t, pass_target=true_t)
            return rel, "bb%d: false-branch rejects" % sb
        detail = "bb%d: neither or both branches reject" % sb
    # returned directly? (e.g. `a <= b` as the function's boolean result): rejects when false
    for (bi, si, it) in fn.defs().get(0, []):
        if si != "t" and not it["lhs"][1] and it["rv"]["k"] == "use":
            p = op_place(it["rv"]["a"])
            if p is not None and not p[1] and p[0] in tags and fn.ret_kind() == "bool":
                pos = tags[p[0]]
                return (NEG[comp["op"]] if pos else comp["op"]), "returned as verdict"
    if comp["res"] == 0 and fn.ret_kind() == "bool":
        return NEG[comp["op"]], "returned as verdict"
    return None, detail


def find_cmp(fn, a_req, b_req, passthru=CONVERSIONS, deep=True):
    """All comparisons whose operands derive from (a_req, b_req) in either order.
    Returns list of (comp, normalised_relation_that_rejects, detail)."""
    res = []
    for comp in comparisons(fn):
        oa = fn.origins(comp["a"], passthru=passthru, deep=deep)
        ob = fn.origins(comp["b"], passthru=passthru, deep=deep)
        ma = atoms_match(oa, a_req) and atoms_match(ob, b_req)
        mb = atoms_match(ob, a_req) and atoms_match(oa, b_req)
        if not (ma or mb):
            continue
        rel, detail = cmp_rejects(fn, comp)
        if rel is not None and not ma:
            rel = FLIP[rel]
        res.append((comp, rel, detail, ma and mb))
    return res


# ---------------------------------------------------------------------- DOM

def dominated_by(fn, b_block, a_blocks):
    """some block in a_blocks dominates b_block (strictly earlier or same block handled by caller)"""
    return any(a != b_block and fn.dominates(a, b_block) for a in a_blocks)


def ret_derives_from_call(fn, pat, deep=True):
    """the ACCEPT-classified assignments to the return place derive from a call matching pat"""
    acc, _ = fn.accept_points()
    at = fn.origins(0, deep=deep)
    return any(a[0] in ("call", "callres") and re.search(pat, a[1]) for a in at)


def root_local(fn, op, maxd=12):
    """follow single-definition copy/move/cast-free chains back to the defining local"""
    p = op_place(op) if isinstance(op, dict) else [op, []]
    if p is None or p[1]:
        return None if p is None else (p[0], tuple(p[1]))
    l = p[0]
    for _ in range(maxd):
        ds = fn.defs().get(l, [])
        if len(ds) != 1 or ds[0][1] == "t":
            break
        it = ds[0][2]
        if it["lhs"][1]:
            break
        rv = it["rv"]
        if rv["k"] == "use":
            q = op_place(rv["a"])
            if q is None or q[1]:
                break
            l = q[0]
        else:
            break
    return (l, ())


def range_bounds(fn, op):
    """(kind, start_operand, end_operand) of the range aggregate feeding operand op"""
    p = op_place(op)
    if p is None:
        return None
    r = root_local(fn, op)
    if r is None:
        return None
    for (bi, si, it) in fn.defs().get(r[0], []):
        if si == "t":
            continue
        rv = it["rv"]
        if rv["k"] == "agg" and rv.get("agg") == "adt":
            a = rv["adt"]
            if a.endswith("ops::Range"):
                return ("range", rv["ops"][0], rv["ops"][1])
            if a.endswith("ops::RangeTo"):
                return ("to", None, rv["ops"][0])
            if a.endswith("ops::RangeFrom"):
                return ("from", rv["ops"][0], None)
            if a.endswith("ops::RangeFull"):
                return ("full", None, None)
            if a.endswith("ops::RangeInclusive") or a.endswith("ops::RangeToInclusive"):
                return ("inclusive", None, None)
    return None


# ---------------------------------------------------------------------- linear forms (unsigned)

def lin(fn, op, depth=0):
    """Linear form of an unsigned integer operand over root locals: (dict local->coeff, const) or None"""
    if depth > 24:
        return None
    if isinstance(op, dict):
        k = op_const(op)
        if k is not None:
            v = const_int(k)
            return ({}, v) if v is not None else None
        p = op_place(op)
    else:
        p = op
    if p is None:
        return None
    l, proj = p[0], p[1]
    ds = fn.defs().get(l, [])
    if proj:
        # field 0 of a checked-arithmetic pair
        if len(proj) == 1 and proj[0].startswith("f0") and len(ds) == 1 and ds[0][1] != "t":
            rv = ds[0][2]["rv"]
            if rv["k"] == "bin" and rv["op"] in ("AddWithOverflow", "MulWithOverflow"):
                return _lin_bin(fn, rv, depth)
        return None
    if len(ds) == 1 and ds[0][1] == "t" and not (1 <= l <= fn.argc):
        # `usize::from(x)` / `x.into()` between unsigned integer types preserves the value
        it = ds[0][2]
        if re.search(r"convert::(From|Into)(<[^>]*>)?::(from|into)$", it["f"].get("path", "")) and len(it["args"]) == 1 and fn.locals[l] in WIDTH:
            src = op_place(it["args"][0])
            if src is not None and not src[1] and fn.locals[src[0]] in WIDTH and WIDTH[fn.locals[l]] >= WIDTH[fn.locals[src[0]]]:
                r = lin(fn, it["args"][0], depth + 1)
                return r if r is not None else ({l: 1}, 0)
    if len(ds) != 1 or ds[0][1] == "t" or ds[0][2]["lhs"][1] or (1 <= l <= fn.argc):
        return ({l: 1}, 0)
    rv = ds[0][2]["rv"]
    if rv["k"] == "use":
        r = lin(fn, rv["a"], depth + 1)
        return r if r is not None else ({l: 1}, 0)
    if rv["k"] == "cast" and rv["ck"] == "IntToInt":
        src = op_place(rv["a"])
        # only widening or same-width unsigned casts preserve the value
        st = fn.locals[src[0]] if src is not None and not src[1] else None
        if st in WIDTH and rv["ty"] in WIDTH and WIDTH[rv["ty"]] >= WIDTH[st]:
            r = lin(fn, rv["a"], depth + 1)
            return r if r is not None else ({l: 1}, 0)
        return ({l: 1}, 0)
    if rv["k"] == "bin" and rv["op"] in ("Add", "AddUnchecked", "Mul", "MulUnchecked"):
        r = _lin_bin(fn, rv, depth)
        return r if r is not None else ({l: 1}, 0)
    return ({l: 1}, 0)


WIDTH = {"u8": 8, "u16": 16, "u32": 32, "u64": 64, "usize": 64}


def _lin_bin(fn, rv, depth):
    a = lin(fn, rv["a"], depth + 1)
    b = lin(fn, rv["b"], depth + 1)
    if a is None or b is None:
        return None
    if rv["op"].startswith("Add"):
        d = dict(a[0])
        for k, v in b[0].items():
            d[k] = d.get(k, 0) + v
        return (d, a[1] + b[1])
    if rv["op"].startswith("Mul"):
        if not a[0]:
            return ({k: v * a[1] for k, v in b[0].items()}, a[1] * b[1])
        if not b[0]:
            return ({k: v * b[1] for k, v in a[0].items()}, a[1] * b[1])
    return None


def lin_le(small, big, facts):
    """small <= big for all non-negative values of the variables, given facts {local: const}"""
    d = dict(big[0])
    c = big[1] - small[1]
    for k, v in small[0].items():
        d[k] = d.get(k, 0) - v
    for k in list(d):
        if k in facts:
            kind, val = facts[k]
            if kind == "eq" or (kind == "ge" and d[k] >= 0):
                c += d[k] * val
                del d[k]
    return c >= 0 and all(v >= 0 for v in d.values())


def equality_facts(fn, at_block):
    """{local: const} from enforced equalities `x == c` (rejecting when different) dominating at_block"""
    facts = {}
    for cx in comparisons(fn):
        if cx["kind"] != "bin":
            continue
        if not fn.dominates(cx["bb"], at_block):
            continue
        la, lb = lin(fn, cx["a"]), lin(fn, cx["b"])
        if la is None or lb is None:
            continue
        info = {}
        rel, _ = cmp_rejects(fn, cx, info)
        if rel is None or "pass_target" not in info or not fn.dominates(info["pass_target"], at_block):
            continue
        if rel == "Lt" and len(la[0]) == 1 and not lb[0] and list(la[0].values()) == [1] and la[1] == 0:
            facts.setdefault(list(la[0])[0], ("ge", lb[1]))      # rejects when x < c  =>  x >= c
            continue
        if rel == "Gt" and len(lb[0]) == 1 and not la[0] and list(lb[0].values()) == [1] and lb[1] == 0:
            facts.setdefault(list(lb[0])[0], ("ge", la[1]))      # rejects when c > x  =>  x >= c
            continue
        if rel != "Ne":
            continue
        # the accepting successor must dominate at_block: approximated by the comparison dominating and the
        # failing side being in the reject region (cmp_rejects)
        if len(la[0]) == 1 and not lb[0] and list(la[0].values()) == [1] and la[1] == 0:
            facts[list(la[0])[0]] = ("eq", lb[1])
        elif len(lb[0]) == 1 and not la[0] and list(lb[0].values()) == [1] and lb[1] == 0:
            facts[list(lb[0])[0]] = ("eq", la[1])
    return facts


def range_helper_param(g):
    """k such that every `a..b` the function builds is proved to lie inside its k-th parameter (a slice), else None"""
    from .mir import Fn as _Fn
    if "ops::Range<usize>" not in g.locals[0]:
        return None
    sites = []
    for bi in g.reachable():
        for st in g.stmts(bi):
            rv = st.get("rv", {})
            if rv.get("k") == "agg" and rv.get("agg") == "adt" and rv["adt"].endswith("ops::Range"):
                sites.append((bi, None, ("range", rv["ops"][0], rv["ops"][1])))
    if not sites:
        return None
    for k in range(1, g.argc + 1):
        if not re.search(r"\[u8\]|Vec<u8>", g.locals[k]):
            continue
        if all(bounds_proved(g, k, s_)[0] for s_ in sites):
            return k
    return None


def slice_sites(fn, base_local):
    """[(bb, term, kind, start_op, end_op)] for Index/IndexMut on data derived from base_local"""
    out = []
    for (bi, t) in fn.calls(re.compile(r"ops::Index::index$|ops::IndexMut::index_mut$")):
        if ("arg", base_local) not in fn.origins(t["args"][0]):
            continue
        rb = range_bounds(fn, t["args"][1])
        out.append((bi, t, rb))
    return out


def bounds_proved(fn, base_local, site, summary=None):
    """Is the slice at `site` dominated by an enforced comparison against base.len() that implies
    the slice's bound is within the length?  Returns (ok, detail)."""
    bi, t, rb = site
    if rb is None and summary is not None and t is not None:
        # the range comes out of a helper that checks it against the length of the slice it is given
        for a in fn.origins(t["args"][1], deep=True):
            if a[0] == "call" and len(a) > 2:
                k = summary(a[1])
                ct = fn.term(a[2])
                if k is not None and k - 1 < len(ct["args"]) and ("arg", base_local) in fn.origins(ct["args"][k - 1], deep=True) and fn.dominates(a[2], bi):
                    return True, "range produced by %s, which returns only ranges inside its slice argument" % a[1].split("::")[-1]
    if rb is None:
        return False, "index operand is not a range expression (element indexing or computed range)"
    kind, st, en = rb
    if kind == "full":
        return True, "full range"
    if kind == "inclusive":
        return False, "inclusive range"
    bound = en if en is not None else st
    lb = lin(fn, bound)
    if lb is None:
        return False, "bound is not a linear expression"
    why = []
    for cx in comparisons(fn):
        if cx["kind"] != "bin" or not fn.dominates(cx["bb"], bi):
            continue
        oa = fn.origins(cx["a"], deep=True)
        ob = fn.origins(cx["b"], deep=True)
        is_len_a = any(a[0] == "call" and a[1].endswith("::len") for a in oa) and ("arg", base_local) in oa and lin(fn, cx["a"]) is not None and len(lin(fn, cx["a"])[0]) == 1
        is_len_b = any(a[0] == "call" and a[1].endswith("::len") for a in ob) and ("arg", base_local) in ob and lin(fn, cx["b"]) is not None and len(lin(fn, cx["b"])[0]) == 1
        if is_len_a == is_len_b:
            continue
        other = cx["b"] if is_len_a else cx["a"]
        info = {}
        rel, d = cmp_rejects(fn, cx, info)
        if rel is None or "pass_target" not in info or not fn.dominates(info["pass_target"], bi):
            continue
        if is_len_a:
            rel = FLIP[rel]
        # now: rejects when other `rel` len ; need rel in (Gt, Ge)
        if rel not in ("Gt", "Ge"):
            why.append("comparison at bb%d rejects when x %s len" % (cx["bb"], rel))
            continue
        lo = lin(fn, other)
        if lo is None:
            continue
        facts = equality_facts(fn, bi)
        if lin_le(lb, lo, facts):
            return True, "bound %s <= checked %s (facts %s), checked against len at bb%d" % (fmt_lin(lb), fmt_lin(lo), facts, cx["bb"])
        why.append("bound %s not implied by checked %s" % (fmt_lin(lb), fmt_lin(lo)))
    return False, "; ".join(why) or "no dominating enforced comparison with the length"


def bounds_tightness(fn, base_local, site):
    """For a slice site proved in bounds: is the proving test EXACT, i.e. does it reject only when the slice's own upper
    bound exceeds the length (non-strict comparison of that very bound)?  Returns (tight, detail); tight is None when no
    proving comparison is found.  A stricter test is still memory safe but traps on an access that ends exactly at the end
    of memory."""
    bi, t, rb = site
    if rb is None:
        return None, "no range"
    kind, st, en = rb
    if kind != "range" and kind != "to" and kind != "from":
        pass
    if kind == "full":
        return True, "full range"
    bound = en if en is not None else st
    lb = lin(fn, bound)
    if lb is None:
        return None, "not linear"
    best = None
    for cx in comparisons(fn):
        if cx["kind"] != "bin" or not fn.dominates(cx["bb"], bi):
            continue
        oa = fn.origins(cx["a"], deep=True)
        ob = fn.origins(cx["b"], deep=True)
        is_len_a = any(a[0] == "call" and a[1].endswith("::len") for a in oa) and ("arg", base_local) in oa and lin(fn, cx["a"]) is not None and len(lin(fn, cx["a"])[0]) == 1
        is_len_b = any(a[0] == "call" and a[1].endswith("::len") for a in ob) and ("arg", base_local) in ob and lin(fn, cx["b"]) is not None and len(lin(fn, cx["b"])[0]) == 1
        if is_len_a == is_len_b:
            continue
        other = cx["b"] if is_len_a else cx["a"]
        info = {}
        rel, d = cmp_rejects(fn, cx, info)
        if rel is None or "pass_target" not in info or not fn.dominates(info["pass_target"], bi):
            continue
        if is_len_a:
            rel = FLIP[rel]
        if rel not in ("Gt", "Ge"):
            continue
        lo = lin(fn, other)
        if lo is None:
            continue
        facts = equality_facts(fn, bi)
        if not lin_le(lb, lo, facts):
            continue
        exact = lin_le(lo, lb, facts)
        if rel == "Gt" and exact:
            return True, "rejects exactly when %s > len (bb%d)" % (fmt_lin(lo), cx["bb"])
        best = "test at bb%d rejects when %s %s len while the slice ends at %s" % (cx["bb"], fmt_lin(lo), {"Gt": ">", "Ge": ">="}[rel], fmt_lin(lb))
    if best is None:
        return None, "no proving comparison"
    return False, best


def len_tests_exact(fn, base_local, sites):
    """For every enforced test of an offset against base.len() that guards slice sites: is it exact for at least one of
    them (rejects precisely when that slice's upper bound exceeds the length)?  Returns [(cmp_bb, n_guarded, exact, detail)]."""
    out = []
    for cx in comparisons(fn):
        if cx["kind"] != "bin":
            continue
        oa = fn.origins(cx["a"], deep=True)
        ob = fn.origins(cx["b"], deep=True)
        is_len_a = any(a[0] == "call" and a[1].endswith("::len") for a in oa) and ("arg", base_local) in oa and lin(fn, cx["a"]) is not None and len(lin(fn, cx["a"])[0]) == 1
        is_len_b = any(a[0] == "call" and a[1].endswith("::len") for a in ob) and ("arg", base_local) in ob and lin(fn, cx["b"]) is not None and len(lin(fn, cx["b"])[0]) == 1
        if is_len_a == is_len_b:
            continue
        other = cx["b"] if is_len_a else cx["a"]
        info = {}
        rel, d = cmp_rejects(fn, cx, info)
        if rel is None or "pass_target" not in info:
            continue
        if is_len_a:
            rel = FLIP[rel]
        if rel not in ("Gt", "Ge"):
            continue
        lo = lin(fn, other)
        if lo is None:
            continue
        guarded, exact, ends = 0, False, []
        for (bi, t, rb) in sites:
            if rb is None or rb[0] == "full" or not fn.dominates(info["pass_target"], bi):
                continue
            bound = rb[2] if rb[2] is not None else rb[1]
            lb = lin(fn, bound)
            if lb is None:
                continue
            facts = equality_facts(fn, bi)
            if not lin_le(lb, lo, facts):
                continue
            guarded += 1
            ends.append(fmt_lin(lb))
            if rel == "Gt" and lin_le(lo, lb, facts):
                exact = True
        if guarded:
            out.append((cx["bb"], guarded, exact, "rejects when %s %s len; guarded slices end at %s" % (fmt_lin(lo), {"Gt": ">", "Ge": ">="}[rel], sorted(set(ends)))))
    return out


def fmt_lin(l):
    parts = ["%s_%d" % ("" if v == 1 else "%d*" % v, k) for k, v in sorted(l[0].items())]
    if l[1] or not parts:
        parts.append(str(l[1]))
    return "+".join(parts)


def cmp_branches(fn, comp):
    """(switch_bb, true_target, false_target) for the switch deciding comparison `comp`
    (through Not / anyhow::not chains), oriented so that true_target is taken when `a op b` holds."""
    tags = {comp["res"]: True}
    changed = True
    while changed:
        changed = False
        for bi in fn.reachable():
            for s in fn.stmts(bi):
                if "lhs" not in s or s["lhs"][1]:
                    continue
                rv = s["rv"]
                new = None
                if rv["k"] == "use":
                    p = op_place(rv["a"])
                    if p is not None and not p[1] and p[0] in tags:
                        new = tags[p[0]]
                elif rv["k"] == "un" and rv["op"] == "Not":
                    p = op_place(rv["a"])
                    if p is not None and not p[1] and p[0] in tags:
                        new = not tags[p[0]]
                if new is not None and s["lhs"][0] not in tags:
                    tags[s["lhs"][0]] = new
                    changed = True
            t = fn.term(bi)
            if t["k"] == "call" and callee_match(t, ANYHOW_NOT) and not t["dest"][1] and t["dest"][0] not in tags:
                p = op_place(t["args"][0])
                if p is not None and not p[1] and p[0] in tags:
                    tags[t["dest"][0]] = not tags[p[0]]
                    changed = True
    for (sb, st) in fn.switches():
        p = op_place(st["d"])
        if p is None or p[1] or p[0] not in tags:
            continue
        f_t = [tb for v, tb in st["t"] if v == "0"]
        if not f_t:
            continue
        t_t = st["o"]
        if tags[p[0]]:
            return sb, t_t, f_t[0]
        return sb, f_t[0], t_t
    return None


def guarded_site(fn, site_bb, a_req, b_req, bad_rel, deep=True):
    """The block site_bb is only reachable when NOT (a bad_rel b): some comparison between the
    two sources has its `holds-bad_rel` branch unable to reach site_bb and its other branch
    dominating site_bb (or being the only way to it).  Returns (ok, detail)."""
    why = "no comparison between the two sources"
    for comp in comparisons(fn):
        oa = fn.origins(comp["a"], deep=deep)
        ob = fn.origins(comp["b"], deep=deep)
        ma = atoms_match(oa, a_req) and atoms_match(ob, b_req)
        mb = atoms_match(ob, a_req) and atoms_match(oa, b_req)
        if not (ma or mb):
            continue
        br = cmp_branches(fn, comp)
        if br is None:
            why = "comparison at bb%d is not branched on" % comp["bb"]
            continue
        sb, t_t, f_t = br
        op = comp["op"] if ma else FLIP[comp["op"]]
        # branch on which `a bad_rel b` may hold
        if op == bad_rel:
            bad_t, good_t = t_t, f_t
        elif NEG[op] == bad_rel:
            bad_t, good_t = f_t, t_t
        else:
            why = "comparison at bb%d tests a %s b, which does not decide a %s b" % (comp["bb"], op, bad_rel)
            continue
        if site_bb in fn.reach_from([bad_t], avoid={sb}):
            why = "site reachable from the branch where a %s b (bb%d)" % (bad_rel, bad_t)
            continue
        if not fn.dominates(sb, site_bb):
            why = "comparison at bb%d does not dominate the site" % comp["bb"]
            continue
        return True, "bb%d decides a %s b; the site is reachable only through the other branch" % (sb, bad_rel)
    return False, why


def conditions_at(g, bb, same_loop=False):
    """Conditions under which block bb is reached: for every dominating switch with a single edge towards bb a tuple
    (kind, names, value): kind 'call:<name>' (boolean result of a call), 'cmp:<Op>' (comparison; value = does the comparison
    hold), 'bool' (a boolean place), 'discr' (enum discriminant; value = variant index or 'otherwise').
    names: frozenset of field names, callee names, literals ('lit<n>') and constants feeding the tested value."""
    from .mir import path_conditions
    out = []
    again = g.reach_from(g.succ(bb)) if same_loop else None
    for (sb, val) in path_conditions(g, bb, resolve=resolve_const_edge):
        if again is not None and sb not in again:
            continue
        st = g.term(sb)
        o = g.origins(st["d"])
        od = g.origins(st["d"], deep=True)
        names = frozenset([x[1] for x in od if x[0] == "field"] + ["lit%s" % x[1] for x in od if x[0] == "lit"] +
                          [x[1].split("::")[-1] for x in od if x[0] in ("call", "const")] + [x[1].split("::")[-1] for x in od if x[0] == "agg"])
        if st.get("dty") not in (None, "bool") and any(a[0] == "discr" for a in o):
            out.append(("discr", names, val))
            continue
        truth = (val != "0")
        neg = sum(1 for a in o if a[0] == "un" and a[1] == "Not") % 2 == 1
        done = False
        for cx in comparisons(g):
            br = cmp_branches(g, cx)
            if br and br[0] == sb:
                oo = g.origins(cx["a"], deep=True) | g.origins(cx["b"], deep=True)
                taken = st["o"] if val == "otherwise" else [tb for v, tb in st["t"] if v == val][0]
                nn = frozenset([x[1] for x in oo if x[0] == "field"] + ["lit%s" % x[1] for x in oo if x[0] == "lit"] +
                               [x[1].split("::")[-1] for x in oo if x[0] in ("call", "const")])
                out.append(("cmp:" + cx["op"], nn, taken == br[1]))
                done = True
        if done:
            continue
        calls = [a for a in o if a[0] == "call" and not a[1].endswith("__private::not")]
        nots = sum(1 for a in o if a[0] == "call" and a[1].endswith("__private::not"))
        if nots:
            # anyhow::ensure!: the tested value is the argument of `not`
            for a in o:
                if a[0] == "call" and len(a) > 2 and a[1].endswith("__private::not"):
                    inner = g.origins(g.term(a[2])["args"][0])
                    calls += [x for x in inner if x[0] == "call"]
                    names = names | frozenset(x[1] for x in g.origins(g.term(a[2])["args"][0], deep=True) if x[0] == "field")
            neg = neg != (nots % 2 == 1)
        if calls:
            for a in calls:
                out.append(("call:" + a[1].split("::")[-1], names, truth != neg))
        else:
            out.append(("bool", names, truth != neg))
    return out


def condition_of_switch(g, sb, target):
    """(kind, value) of the condition tested at switch sb on the edge(s) leading to `target` (a direct successor), in the
    vocabulary of conditions_at; None if the successor is not a direct single-valued edge."""
    st = g.term(sb)
    vals = [v for v, tb in st["t"] if tb == target] + (["otherwise"] if st["o"] == target else [])
    if len(vals) != 1:
        return None
    val = vals[0]
    o = g.origins(st["d"])
    for cx in comparisons(g):
        br = cmp_branches(g, cx)
        if br and br[0] == sb:
            return ("cmp:" + cx["op"], target == br[1])
    truth = (val != "0")
    nots = sum(1 for a in o if a[0] == "call" and a[1].endswith("__private::not")) + sum(1 for a in o if a[0] == "un" and a[1] == "Not")
    # comparison behind anyhow's not(): follow one level
    for a in o:
        if a[0] == "call" and len(a) > 2 and a[1].endswith("__private::not"):
            inner = g.term(a[2])["args"][0]
            pi = op_place(inner)
            for cx in comparisons(g):
                if pi is not None and cx["res"] == pi[0]:
                    return ("cmp:" + cx["op"], (truth != (nots % 2 == 1)))
    return ("bool", truth != (nots % 2 == 1))


def path_condition_sets(g, target, limit=2000):
    """All acyclic paths from the entry to `target`, each as the list of (kind, names, value) of the switches taken
    (vocabulary of conditions_at; names are shallow: fields, callee names, literals, constants, debug names of the operands)."""
    vn = g.names()

    def descr(sb, nxt):
        st = g.term(sb)
        d = condition_of_switch(g, sb, nxt)
        if d is None:
            return None
        names = set()
        ops = [st["d"]]
        for cx in comparisons(g):
            br = cmp_branches(g, cx)
            if br and br[0] == sb:
                ops = [cx["a"], cx["b"]]
        for op in ops:
            pl = op_place(op)
            if pl is not None and pl[0] in vn:
                names.add(vn[pl[0]])
            for a in g.origins(op):
                if a[0] == "field":
                    names.add(a[1])
                elif a[0] in ("call", "const"):
                    names.add(a[1].split("::")[-1])
                elif a[0] == "lit":
                    names.add("lit%s" % a[1])
                elif a[0] == "arg":
                    names.add(vn.get(a[1], "arg%d" % a[1]))
        return (d[0], frozenset(names), d[1])
    out = []
    n = [0]

    def dfs(b, acc, seen):
        n[0] += 1
        if n[0] > limit:
            return
        if b == target:
            out.append(list(acc))
            return
        if b in seen:
            return
        t = g.term(b)
        nxts = [t.get("target")] if t["k"] in ("call", "drop", "assert") else g.succ(b)
        for s in sorted(set(x for x in nxts if x is not None)):
            if t["k"] == "switch":
                dsc = descr(b, s)
                dfs(s, acc + ([dsc] if dsc else []), seen | {b})
            else:
                dfs(s, acc, seen | {b})
    dfs(0, [], frozenset())
    return out
