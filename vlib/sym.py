"""SYM — wire-shape symmetry of a writer/reader pair, abstracted to ordered codec tokens."""
import re
from .mir import Fn, callee_match, op_place, op_const, const_int
from .transcript import rpo

W_TRAIT = re.compile(r"(common::serialize::Serial|concordium_contracts_common::traits::Serial|concordium_contracts_common::Serial)::serial$")
R_TRAIT = re.compile(r"(common::serialize::Deserial|concordium_contracts_common::traits::Deserial|concordium_contracts_common::Deserial)::deserial$")
W_PUT = re.compile(r"serialize::Put::put$")
R_GET = re.compile(r"(serialize::Get::get|concordium_contracts_common::traits::Get::get|concordium_contracts_common::Get::get)$")
W_PRIM = re.compile(r"(WriteBytesExt|traits::Write|Write)::write_(u8|u16|u32|u64|u128|i8|i16|i32|i64|i128)$")
R_PRIM = re.compile(r"(ReadBytesExt|traits::Read|Read)::read_(u8|u16|u32|u64|u128|i8|i16|i32|i64|i128)$")
W_BYTES = re.compile(r"io::Write::write_all$|traits::Write::write_all$|Write::write_all$")
R_BYTES = re.compile(r"io::Read::read_exact$|traits::Read::read_exact$|Read::read_exact$")
W_HELP = re.compile(r"::(serial_(vector_no_length|map_no_length|set_no_length|string|iter|bytes|hashmap_no_length|hashset_no_length|btreemap_no_length|btreeset_no_length)[a-z_0-9]*)$")
R_HELP = re.compile(r"::(deserial_(vector_no_length|map_no_length|set_no_length|string|iter|bytes|hashmap_no_length|hashset_no_length|btreemap_no_length|btreeset_no_length)[a-z_0-9]*)$")
W_OUT = re.compile(r"concordium_wasm::output::Output::output$")
R_PARSE = re.compile(r"concordium_wasm::parse::(Parseable::parse|GetParseable::next|Cursor.*::next)$")


def norm_ty(t):
    if t is None:
        return "?"
    t = re.sub(r"&('[a-z_]+\s+)?(mut\s+)?", "", t)
    t = t.replace("&mut ", "").replace("&", "").strip()
    t = re.sub(r"^std::boxed::Box<(.*)>$", r"\1", t)
    t = re.sub(r"^std::vec::Vec<(.*)>$", r"[\1]", t)
    t = re.sub(r"^std::rc::Rc<(.*)>$", r"\1", t)
    t = re.sub(r"^std::sync::Arc<(.*)>$", r"\1", t)
    if t in ("std::string::String", "str"):
        t = "str"
    return t


def _elem(f):
    """element type(s) of a collection helper: its non-io generic arguments"""
    ga = [norm_ty(g) for g in f.get("gargs", [])]
    ga = [g for g in ga if not re.match(r"^(R|W|B|impl .*|.*Cursor.*|.*Read.*|.*Write.*)$", g) and len(g) > 0]
    return ",".join(ga[-2:]) if ga else ""


def _tok(t, side):
    f = t["f"]
    if side == "w":
        if callee_match(t, W_TRAIT):
            return ("T", norm_ty(f.get("self")))
        if callee_match(t, W_PUT):
            ga = [g for g in f.get("gargs", [])]
            return ("T", norm_ty(ga[-1] if ga else None))
        m = W_PRIM.search(f["path"])
        if m:
            return ("T", m.group(2))
        if callee_match(t, W_BYTES):
            return ("B",)
        m = W_HELP.search(f["path"])
        if m:
            return ("H", m.group(2), _elem(f))
        if callee_match(t, W_OUT):
            return ("T", norm_ty(f.get("self")))
    else:
        if callee_match(t, R_TRAIT):
            return ("T", norm_ty(f.get("self")))
        if callee_match(t, R_GET):
            ga = [g for g in f.get("gargs", [])]
            return ("T", norm_ty(ga[-1] if ga else None))
        m = R_PRIM.search(f["path"])
        if m:
            return ("T", m.group(2))
        if callee_match(t, R_BYTES):
            return ("B",)
        m = R_HELP.search(f["path"])
        if m:
            return ("H", m.group(2), _elem(f))
        if callee_match(t, R_PARSE):
            ga = [g for g in f.get("gargs", []) if g != f.get("self")]
            return ("T", norm_ty(ga[-1] if ga else f.get("self")))
    return None


IGNORE = re.compile(r"ops::Try::branch$|FromResidual::from_residual$|Result::<T, E>::(expect|unwrap|map_err|ok|is_ok|is_err)$|"
                    r"ops::Deref(Mut)?::deref(_mut)?$|convert::(From|Into|AsRef|AsMut)::|borrow::Borrow|io::Write::flush$|position$|"
                    r"anyhow::|fmt::|clone::Clone::clone$|drop_in_place|mem::drop$|io::Read::take$|by_ref$")


def io_local(fn, side):
    """local index of the sink (writer: `out`, argument 2) or source (reader: argument 1)"""
    return 2 if side == "w" else 1


def canon(tok):
    """canonical token: raw byte runs are one class"""
    if tok[0] == "B":
        return ("B",)
    if tok[0] == "T" and re.match(r"^\[u8; \d+\]$", tok[1] or ""):
        return ("B",)
    if tok[0] == "H" and tok[1] in ("string", "bytes"):
        return ("B",)
    if tok[0] == "H" and tok[1].startswith("vector_no_length"):
        if len(tok) > 2 and tok[2].split(",")[-1] == "u8":
            return ("B",)
        return ("H", "vector_no_length")
    if tok[0] == "H":
        return ("H", re.sub(r"_no_order_check$", "", tok[1]))
    return tok


def tokens(fn, side, blocks=None, io=None):
    """[(token, bb)] in reverse post-order; blocks: optional restriction.
    Calls that receive the sink/source but are not recognised become opaque ('X', callee) tokens."""
    out = []
    if io is None:
        io = io_local(fn, side)
    for bi in rpo(fn):
        if blocks is not None and bi not in blocks:
            continue
        t = fn.term(bi)
        if t["k"] != "call" or "path" not in t["f"]:
            continue
        k = _tok(t, side)
        if k is not None:
            out.append((canon(k), bi))
            continue
        if callee_match(t, IGNORE):
            continue
        if io <= fn.argc and any(("arg", io) in fn.origins(a) for a in t["args"] if op_place(a) is not None):
            out.append((("X", t["f"]["path"].split("::")[-1]), bi))
    return out


def has_loop(fn, blocks=None):
    order = {b: i for i, b in enumerate(rpo(fn))}
    for a in order:
        if blocks is not None and a not in blocks:
            continue
        for b in fn.succ(a):
            if b in order and order[b] <= order[a] and (blocks is None or b in blocks):
                return True
    return False


def branches(fn, blocks=None):
    """number of value-dependent switches (excluding `?` / Option plumbing) inside blocks"""
    n = 0
    for (sb, st) in fn.switches():
        if blocks is not None and sb not in blocks:
            continue
        if "desugar:QuestionMark" in st.get("exp", ""):
            continue
        n += 1
    return n


def dominated(fn, root):
    return set(b for b in fn.reachable() if fn.dominates(root, b))


def writer_variants(fn):
    """For an enum writer: {variant_index: (tag_literal or None, tokens-after-tag, region)} from the
    outermost switch on the discriminant of self; None if the writer is not of that shape."""
    for (sb, st) in fn.switches():
        o = fn.origins(st["d"])
        if ("discr",) in o and ("arg", 1) in o and not any(a[0] in ("call",) for a in o):
            res = {}
            for v, tb in st["t"]:
                region = dominated(fn, tb)
                toks = tokens(fn, "w", region)
                tag = None
                rest = toks
                if toks:
                    first_bb = toks[0][1]
                    t = fn.term(first_bb)
                    # the tag: first write whose operand is a literal
                    lit = None
                    for a in t["args"]:
                        oa = fn.origins(a)
                        lits = [x[1] for x in oa if x[0] == "lit"]
                        if lits and not any(x[0] in ("arg", "field") for x in oa):
                            lit = lits[0]
                    if lit is not None:
                        tag = lit
                        rest = toks[1:]
                res[int(v)] = (tag, [k for k, _ in rest], region)
            return sb, res
    return None


def reader_variants(fn, enum_adt):
    """For an enum reader: {tag_literal: (variant_index constructed, tokens, region)} from the first
    switch on a value read from the input."""
    for (sb, st) in fn.switches():
        if "desugar:QuestionMark" in st.get("exp", ""):
            continue
        if not re.match(r"^[ui](8|16|32|64)$", st.get("dty", "")):
            continue
        o = fn.origins(st["d"], deep=False)
        if not any(a[0] in ("call", "callres", "outparam") and (R_TRAIT.search(a[1]) or R_GET.search(a[1]) or R_PRIM.search(a[1]) or R_PARSE.search(a[1])) for a in o):
            continue
        if ("discr",) in o and any(a[0] == "call" and "Try::branch" in a[1] for a in o) and not st["dty"].startswith(("u", "i")):
            continue
        res = {}
        for v, tb in st["t"]:
            region = dominated(fn, tb)
            vidx = set()
            for b in region:
                for s in fn.stmts(b):
                    rv = s.get("rv", {})
                    if rv.get("k") == "agg" and rv.get("adt") == enum_adt:
                        vidx.add(rv["vidx"])
            res[int(v)] = (sorted(vidx), [k for k, _ in tokens(fn, "r", region)], region)
        return sb, res, st["o"]
    return None


def strip_lt(t):
    return re.sub(r"<'[a-z_]+>", "", t or "")


def expand(toks, impls, side, depth=1):
    """replace T:X by the tokens of X's own (straight-line) impl, one level"""
    out = []
    for k in toks:
        if k[0] == "T" and impls is not None:
            b = impls.get(strip_lt(k[1]))
            if b is None:
                base = strip_lt(k[1]).split("<")[0]
                cands = [v for kk, v in impls.items() if kk.split("<")[0] == base and "<" in kk]
                if len(cands) == 1:
                    b = cands[0]
            if b is not None and depth > 0:
                f = Fn(b)
                if not has_loop(f) and branches(f) == 0:
                    sub = [x for x, _ in tokens(f, side)]
                    if sub and not any(x[0] == "X" for x in sub):
                        out += sub
                        continue
        out.append(k)
    return out


def compare_struct(w, r, w_impls=None, r_impls=None):
    """compare a straight-line writer and reader.  Returns (verdict, detail) with verdict in
    MATCH / MISMATCH / UNSUPPORTED"""
    tw = [k for k, _ in tokens(w, "w")]
    tr = [k for k, _ in tokens(r, "r")]
    if not tw and not tr:
        return "UNSUPPORTED", "no codec calls recognised"
    simple = not has_loop(w) and not has_loop(r) and branches(w) == 0 and branches(r) == 0 \
        and not any(k[0] == "X" for k in tw + tr)
    if tw == tr:
        return "MATCH", "%d codec steps agree: %s" % (len(tw), _fmt(tw))
    if simple and (w_impls or r_impls):
        ew, er = expand(tw, w_impls, "w"), expand(tr, r_impls, "r")
        if ew == er:
            return "MATCH", "%d codec steps agree after inlining delegated impls: %s" % (len(ew), _fmt(ew))
    if not simple:
        return "UNSUPPORTED", "control flow outside the straight-line abstraction (writer %s / reader %s)" % (_fmt(tw), _fmt(tr))
    return "MISMATCH", "writer %s / reader %s" % (_fmt(tw), _fmt(tr))


def _fmt(toks):
    return "[" + ", ".join(":".join(str(x) for x in t) for t in toks) + "]"


def compare_enum(w, r, enum_adt, nvariants=None, w_impls=None, r_impls=None):
    """variant-wise comparison.  Returns list of (verdict, variant_index, detail) or None when the
    pair does not have the enum shape."""
    wv = writer_variants(w)
    rv = reader_variants(r, enum_adt)
    if wv is None or rv is None:
        return None
    _, wmap = wv
    _, rmap, _ = rv
    res = []
    for vidx, (tag, wt, wregion) in sorted(wmap.items()):
        if tag is None:
            # siblings disagree: the other arms announce their variant with a literal tag, the reader dispatches on it, and
            # this arm writes its payload without one
            sib = [t for (t, _, _) in wmap.values() if t is not None]
            if sib and wt and rmap and wt[0][0] != "X":
                res.append(("MISMATCH", vidx, "the writer's arm for variant #%d writes %s without the tag byte that the other %d arms write first and the reader dispatches on" % (vidx, _fmt([canon(k) for k in wt]), len(sib))))
            else:
                res.append(("UNSUPPORTED", vidx, "writer arm does not start with a literal tag"))
            continue
        ent = rmap.get(tag)
        if ent is None:
            res.append(("MISMATCH", vidx, "writer tag %d is not accepted by the reader (accepted: %s)" % (tag, sorted(rmap))))
            continue
        cons, rt, rregion = ent
        # reader tokens include the payload only (the tag was read before the switch)
        if cons and vidx not in cons:
            res.append(("MISMATCH", vidx, "tag %d: writer variant #%d, reader constructs variant(s) %s" % (tag, vidx, cons)))
            continue
        wtc, rtc = [canon(k) for k in wt], [canon(k) for k in rt]
        simple = not any(k[0] == "X" for k in wtc + rtc) and not has_loop(w, wregion) and not has_loop(r, rregion) \
            and branches(w, wregion) == 0 and branches(r, rregion) == 0
        if wtc == rtc:
            res.append(("MATCH", vidx, "tag %d: %s" % (tag, _fmt(wtc))))
        elif simple and expand(wtc, w_impls, "w") == expand(rtc, r_impls, "r"):
            res.append(("MATCH", vidx, "tag %d (after inlining): %s" % (tag, _fmt(wtc))))
        elif not simple:
            res.append(("UNSUPPORTED", vidx, "tag %d: writer %s / reader %s" % (tag, _fmt(wtc), _fmt(rtc))))
        else:
            res.append(("MISMATCH", vidx, "tag %d: writer %s / reader %s" % (tag, _fmt(wtc), _fmt(rtc))))
    return res
