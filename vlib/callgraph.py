"""Over-approximate call graph over one or more crates' MIR facts."""
import re
from collections import defaultdict
from .mir import op_const


class CallGraph:
    def __init__(self, crates):
        self.crates = crates
        self.bodies = {}           # path -> list of body dicts
        self.trait_impls = defaultdict(list)   # (trait path, method name) -> [body path]
        for c in crates:
            for b in c.all_bodies():
                self.bodies.setdefault(b["path"], []).append(b)
                if "impl_trait" in b and "name" in b:
                    self.trait_impls[(b["impl_trait"], b["name"])].append(b["path"])
                if "in_trait" in b and "name" in b:
                    # default method bodies
                    self.trait_impls[(b["in_trait"], b["name"])].append(b["path"])
        self.edges = {}
        self.ext = {}
        for p, bs in self.bodies.items():
            e, x = set(), set()
            for b in bs:
                self._scan(b, e, x)
            self.edges[p] = e
            self.ext[p] = x

    def _scan(self, b, e, x):
        for bl in b["blocks"]:
            if bl.get("cleanup"):
                continue
            for s in bl["s"]:
                rv = s.get("rv")
                if not rv:
                    continue
                if rv["k"] == "agg" and rv.get("agg") in ("closure", "coroutine"):
                    e.add(rv["closure"])
                for o in _rv_ops(rv):
                    k = o.get("k")
                    if k and "fn" in k:
                        self._add(k["fn"], None, e, x)
            t = bl["t"]
            if t["k"] in ("call", "tailcall"):
                f = t["f"]
                if "path" in f:
                    self._add(f["path"], f, e, x)
                for a in t["args"]:
                    k = a.get("k")
                    if k and "fn" in k:
                        self._add(k["fn"], None, e, x)

    def _add(self, path, f, e, x):
        targets = []
        if f is not None and "res" in f:
            targets.append(f["res"])
        else:
            targets.append(path)
        if f is not None and "trait" in f and "res" not in f:
            # unresolved trait method: every impl in the analysed crates
            targets += self.trait_impls.get((f["trait"], f["name"]), [])
        elif f is not None and "res" in f and f["res"] not in self.bodies and "trait" in f:
            targets += self.trait_impls.get((f["trait"], f["name"]), []) if f.get("self", "").startswith(("impl ", "T", "Self")) or len(f.get("self", "")) <= 2 else []
        for t in targets:
            if t in self.bodies:
                e.add(t)
            else:
                x.add(t)
        # closures of a function are reachable from it
        # (handled through aggregate statements)

    def reach(self, roots, stop=None):
        """all analysed bodies reachable from roots (paths); stop: regex of paths not entered"""
        seen = set()
        st = [r for r in roots if r in self.bodies]
        seen.update(st)
        while st:
            a = st.pop()
            for b in self.edges.get(a, ()):
                if b not in seen and not (stop and stop.search(b)):
                    seen.add(b)
                    st.append(b)
        return seen

    def path_to_ext(self, roots, ext_pat, stop=None):
        """shortest call chain from a root to an external callee matching ext_pat, or None"""
        prev = {}
        st = [r for r in roots if r in self.bodies]
        for r in st:
            prev[r] = None
        i = 0
        while i < len(st):
            a = st[i]
            i += 1
            for xx in sorted(self.ext.get(a, ())):
                if ext_pat.search(xx):
                    chain = [xx]
                    c = a
                    while c is not None:
                        chain.append(c)
                        c = prev[c]
                    return chain[::-1]
            for b in sorted(self.edges.get(a, ())):
                if b not in prev and not (stop and stop.search(b)):
                    prev[b] = a
                    st.append(b)
        return None

    def callers(self, target_pat):
        """paths of analysed bodies with a direct edge to a callee matching target_pat"""
        out = set()
        for p in self.bodies:
            for t in list(self.edges[p]) + list(self.ext[p]):
                if target_pat.search(t):
                    out.add(p)
                    break
        return out


def _rv_ops(rv):
    k = rv["k"]
    if k in ("use", "cast", "un", "repeat"):
        return [rv["a"]]
    if k == "bin":
        return [rv["a"], rv["b"]]
    if k == "agg":
        return rv["ops"]
    return []


NONDET = re.compile(
    r"^(rand::|rand_core::|getrandom::|rand_chacha::|std::time::(SystemTime|Instant)::now|std::env::|"
    r"std::thread::|std::process::id|chrono::(Utc|Local)::now|std::collections::hash_map::RandomState::new)"
    r"|::thread_rng$|OsRng")
